#!/usr/bin/env python3
"""locktie — the static tie between the locking discipline that the protocol model (lean/TexelVerif/Conc) ASSUMES and the
CURRENT C++ source of the thread layer (properties C09 and C10).

    tools/locktie.py [--repo /repo] [--json]          # regenerate lean/TexelVerif/Generated/LockFacts.lean

The thread layer is parsed by clang (`clang++-14 -std=c++11 -DTEXEL_VERIF -fsyntax-only -Xclang -ast-dump=json
-Xclang -ast-dump-filter=<class>`, the cached front end of tools/cxx2lean.py).  For every data member of
Notifier / Communicator / ThreadCommunicator / WorkerThread / EngineMainThread / ThreadPool (and the few members of
EngineControl, TranspositionTable, Search named by Conc/Access.lean) the extractor computes

  * member facts  : class, name, type, const?, atomic type? (std::atomic<..> / RelaxedShared<..>)
  * access facts  : per access site (function, file:line:col): member, base object (`this` or the text of the object
                    expression), read or write, the locks held there, atomic type?, inside a constructor/destructor?
  * wait facts    : per `cv.wait(L)` / `wait(L, pred)` / `wait_for` / `wait_until`: the condition variable, the mutex of L,
                    whether the wait is re-tested in a loop, the members read by the enclosing loop (or `if`) / the lambda
  * notify facts  : per `cv.notify_one/all` (and `Notifier::notify` calls): locks held, and the members written in the
                    current (or, outside a lock, the most recently closed) critical section of the same function

"Locks held" is LEXICAL: `std::lock_guard` / `std::unique_lock` (/ `scoped_lock`) variables in scope whose mutex is a data
member, minus `L.unlock()`, plus `L.lock()`; branches are merged by intersection, loops are iterated to a fixed point.
A lambda body starts with the empty lock set (it runs later, maybe on another thread) unless it is the predicate of a
condition-variable wait or an argument of a std:: algorithm call.  Helpers that are only ever called with a lock held can be
declared in HELD_ON_ENTRY together with the list of their callers; the extractor verifies the list and the lock at every call.

The facts are emitted as Lean data (`Generated/LockFacts.lean`, git-ignored).  `Conc/LockTable.lean` holds the hand-written
table (member -> location of Conc/Access.lean + discipline) and the decidable checks; `Bridge/LockFacts.lean` (C09) and
`Bridge/WaitFacts.lean` (C10) prove the checks over the generated tables by `decide`.  `regenerate(ctx, prop)` is the entry
point used by tools/checks/c09.py and c10.py.
"""
import fcntl, hashlib, json, os, re, sys, time

HERE = os.path.dirname(os.path.abspath(__file__))
sys.path.insert(0, HERE)
import cxx2lean
from cxx2lean import Fail

VERSION = "3"

# (translation unit, -ast-dump-filter)
DUMPS = [
    ("app/texel/enginecontrol.cpp", "EngineMainThread"),
    ("app/texel/enginecontrol.cpp", "EngineControl"),
    ("lib/texellib/hw/parallel.cpp", "Notifier"),
    ("lib/texellib/hw/parallel.cpp", "Communicator"),
    ("lib/texellib/hw/parallel.cpp", "WorkerThread"),
    ("lib/texellib/transpositionTable.cpp", "ThreadPool"),
    ("lib/texellib/transpositionTable.cpp", "TranspositionTable"),
    ("lib/texellib/search.cpp", "TimeMillis"),
    ("lib/texellib/search.cpp", "earlyStopPercentage"),
    ("lib/texellib/search.cpp", "RelaxedShared"),
]

# classes whose member list must coincide with the hand-written table (theorem `access_table_complete`)
COMPLETE = ["Notifier", "Communicator", "ThreadCommunicator", "WorkerThread", "EngineMainThread", "ThreadPool"]
# further members named by Conc/Access.lean (only these members of their classes are tracked)
EXTRA = {
    "EngineControl": ["ponder", "infinite"],
    "TranspositionTable": ["generation", "contemptHash", "table", "tableP", "tableSize", "usedSize", "usedSizeTopBits",
                           "usedSizeShift", "usedSizeMask"],
    "TranspositionTable::TTEntryStorage": ["key", "data"],
    "Search": ["minTimeMillis", "maxTimeMillis", "earlyStopPercentage"],
    "RelaxedShared": ["data"],
}

# Helpers that are only called with a lock held (TRUSTED ANNOTATION, verified against the call sites):
#   "Class::function": {"locks": ["Class::mutex"], "callers": ["Class::caller", ...]}
# every call site found in the scanned sources must be in a listed caller and hold the lock on the same object;
# the listed callers must be exactly the callers found.  (Empty for the current source: no such helper exists.)
HELD_ON_ENTRY = {}

LOCK_TYPES = re.compile(r"^(?:const )?std::(lock_guard|unique_lock|scoped_lock)<")
CV_TYPE = re.compile(r"^(?:const )?std::condition_variable(_any)?\b")
ATOMIC_TYPE = re.compile(r"^(?:const )?(?:std::atomic<|std::atomic_|RelaxedShared<)[^*]*$")
SYNC_TYPE = re.compile(r"^(?:const )?std::(mutex|recursive_mutex|condition_variable)")
WAITS = {"wait", "wait_for", "wait_until"}
NOTIFIES = {"notify_one", "notify_all"}
# member functions that do not modify the object although the non-const overload is selected on a non-const object
ACCESSORS = {"begin", "end", "cbegin", "cend", "rbegin", "rend", "front", "back", "at", "find", "count", "size", "empty", "get",
             "data", "lower_bound", "upper_bound", "load", "c_str", "length", "joinable", "native_handle", "top", "capacity"}
PROPAGATING_OPS = {"operator[]", "operator*", "operator->"}
STD_ALGOS = {"remove_if", "find_if", "sort", "for_each", "any_of", "all_of", "none_of", "count_if", "stable_sort", "remove",
             "find", "lower_bound", "upper_bound", "min_element", "max_element", "partition", "copy_if", "transform"}
FUNC_KINDS = {"CXXMethodDecl", "CXXConstructorDecl", "CXXDestructorDecl", "FunctionDecl", "CXXConversionDecl"}
RECORD_KINDS = {"CXXRecordDecl", "ClassTemplateSpecializationDecl"}


def kids(n):
    return [c for c in (n.get("inner") or []) if isinstance(c, dict)]


def qt(n):
    t = n.get("type") or {}
    return t.get("desugaredQualType") or t.get("qualType") or ""


def strip_wrappers(n):
    while n.get("kind") in ("ParenExpr", "ImplicitCastExpr", "ExprWithCleanups", "MaterializeTemporaryExpr", "CXXBindTemporaryExpr",
                            "ConstantExpr", "SubstNonTypeTemplateParmExpr") and kids(n):
        n = kids(n)[-1] if n["kind"] == "SubstNonTypeTemplateParmExpr" else kids(n)[0]
    return n


class Extract:
    def __init__(self, repo, cachedir=None):
        self.repo = os.path.abspath(repo)
        self.front = cxx2lean.Front(self.repo, cachedir)
        self.members = {}     # (cls, name) -> dict
        self.accesses = {}    # dedupe key -> dict
        self.waits = {}
        self.notifies = {}
        self.calls = []       # (callee qualified name, caller, site, held, base)
        self.errors = []

    # ---------------------------------------------------------------- declarations
    def rel(self, path):
        if not path:
            return "?"
        path = os.path.abspath(path)
        return os.path.relpath(path, self.repo) if path.startswith(self.repo + os.sep) else path

    def site(self, n):
        p = n.get("_pos") or (None, None, None)
        return (self.rel(p[0]), int(p[1] or 0), int(p[2] or 0))

    def index_records(self, objs):
        """id -> qualified class name for records, id -> (cls, field) for fields, id -> qualified name for methods."""
        self.rec, self.fld, self.meth, self.patterns = {}, {}, {}, set()

        def clean(name):
            return re.sub(r"<.*>$", "", name or "")

        def rec(n, prefix):
            name = clean(n.get("name"))
            q = f"{prefix}::{name}" if prefix else name
            self.rec[n["id"]] = q
            for c in kids(n):
                k = c.get("kind")
                if k == "FieldDecl":
                    self.fld[c["id"]] = (q, c.get("name"))
                    self.note_member(q, c)
                elif k in RECORD_KINDS and not c.get("isImplicit") and c.get("name") and kids(c):
                    rec(c, q)
                elif k in FUNC_KINDS:
                    self.meth[c["id"]] = f"{q}::{clean(c.get('name'))}"
                elif k == "FunctionTemplateDecl":
                    for d in kids(c):
                        if d.get("kind") in FUNC_KINDS:
                            self.meth[d["id"]] = f"{q}::{clean(d.get('name'))}"

        def top(n, prefix=""):
            k = n.get("kind")
            if k in RECORD_KINDS and kids(n) and not n.get("isImplicit"):
                rec(n, prefix)
            elif k == "ClassTemplateDecl":
                specs = [c for c in kids(n) if c.get("kind") == "ClassTemplateSpecializationDecl" and kids(c)]
                for c in kids(n):
                    # prefer a full instantiation (typed bodies); fall back to the pattern
                    if c.get("kind") == "ClassTemplateSpecializationDecl" and kids(c):
                        rec(c, prefix)
                    elif c.get("kind") == "CXXRecordDecl" and not specs:
                        rec(c, prefix)
                    elif c.get("kind") == "CXXRecordDecl":
                        self.patterns.add(c["id"])
            elif k == "NamespaceDecl":
                for c in kids(n):
                    top(c, prefix)
            elif k == "FieldDecl":
                owners = [c for c, names in EXTRA.items() if n.get("name") in names]
                if len(owners) == 1:
                    self.fld[n["id"]] = (owners[0], n.get("name"))
                    self.note_member(owners[0], n)

        for o in objs:
            top(o)

    def note_member(self, cls, f):
        name = f.get("name")
        tracked = cls in COMPLETE or name in EXTRA.get(cls, [])
        if not tracked:
            return
        t = qt(f)
        t0 = (f.get("type") or {}).get("qualType", t)
        is_const = bool(re.search(r"\bconst$", t0.strip())) or t0.strip().startswith("const ") and not t0.strip().endswith("*") \
            or t0.strip().endswith("&") or t0.strip().endswith("&&")
        s = self.site(f)
        m = {"cls": cls, "name": name, "type": t0, "const": bool(is_const), "atomic": bool(ATOMIC_TYPE.match(t)),
             "file": s[0], "line": s[1]}
        self.members.setdefault((cls, name), m)

    # ---------------------------------------------------------------- function bodies
    def run(self):
        self.front.prefetch(DUMPS)
        for tu, flt in DUMPS:
            objs = self.front.decls(tu, flt)
            self.index_records(objs)
            for o in objs:
                self.scan_decl(o, None)
        self.check_annotations()
        return self

    def fn_name(self, d, outer):
        if d["id"] in self.meth:
            return self.meth[d["id"]]
        p = d.get("parentDeclContextId")
        name = re.sub(r"<.*>$", "", d.get("name") or "?")
        if p in self.rec:
            return f"{self.rec[p]}::{name}"
        q = cxx2lean.qual_of(d)
        if q:
            return re.sub(r"<[^<>]*>", "", q)
        return f"{outer}::{name}" if outer else name

    def scan_decl(self, n, outer):
        """Find function definitions below a declaration node."""
        k = n.get("kind")
        if k in FUNC_KINDS:
            body = [c for c in kids(n) if c.get("kind") in ("CompoundStmt", "CXXTryStmt")]
            p = n.get("parentDeclContextId")
            if p and outer is None and n["id"] not in self.meth and p not in self.rec and p in self.patterns:
                return      # out-of-line definition of a member of a class template PATTERN: the instantiation is scanned instead
            if body:
                self.scan_function(n, body[0], self.fn_name(n, outer))
            return
        if k in RECORD_KINDS or k in ("ClassTemplateDecl", "FunctionTemplateDecl", "NamespaceDecl", "LinkageSpecDecl"):
            if k == "ClassTemplateDecl":
                specs = [c for c in kids(n) if c.get("kind") == "ClassTemplateSpecializationDecl" and kids(c)]
                for c in (specs or kids(n)):
                    self.scan_decl(c, outer)
                return
            for c in kids(n):
                self.scan_decl(c, outer)

    def scan_function(self, decl, body, name, held0=None):
        fs = FnScan(self, decl, name)
        req = HELD_ON_ENTRY.get(name)
        if req:
            for m in req["locks"]:
                fs.held["<entry:%s>" % m] = (m, "this")
        if held0:
            fs.held.update(held0)
        fs.stmt(body)


class FnScan:
    def __init__(self, ex, decl, name):
        self.ex, self.decl, self.name = ex, decl, name
        self.held = {}            # lock variable id -> (mutex id, base)
        self.lockvars = {}        # lock variable id -> (mutex id, base)   (also while unlocked)
        self.in_ctor = decl.get("kind") == "CXXConstructorDecl"
        self.cs_writes = []       # writes in the current critical section (while any lock is held)
        self.last_cs = None       # writes of the most recently closed critical section
        self.record = True
        self.loops = []           # enclosing loop / if statements (innermost last)

    # ---- helpers
    def locks_now(self):
        return sorted(set(self.held.values()))

    def base_text(self, n):
        n = strip_wrappers(n)
        k = n.get("kind")
        if k == "CXXThisExpr":
            return "this"
        if k == "DeclRefExpr":
            return (n.get("referencedDecl") or {}).get("name", "?")
        if k == "MemberExpr":
            b = self.base_text(kids(n)[0]) if kids(n) else "?"
            return f"{b}{'->' if n.get('isArrow') else '.'}{n.get('name')}"
        if k == "UnaryOperator" and n.get("opcode") == "*":
            return "*" + self.base_text(kids(n)[0])
        if k == "CXXOperatorCallExpr" and len(kids(n)) >= 2:
            op = (strip_wrappers(kids(n)[0]).get("referencedDecl") or {}).get("name", "")
            if op in ("operator->", "operator*"):
                return ("*" if op == "operator*" else "") + self.base_text(kids(n)[1])
        if k == "CXXMemberCallExpr" and kids(n):
            m = kids(n)[0]
            if m.get("kind") == "MemberExpr" and m.get("name") == "get" and kids(m):
                return self.base_text(kids(m)[0])
        return f"<{k}>"

    def member_of(self, n):
        """(cls, name) if n is a MemberExpr on a tracked data member"""
        if n.get("kind") != "MemberExpr":
            return None
        f = self.ex.fld.get(n.get("referencedMemberDecl"))
        if f and f in self.ex.members:
            return f
        return None

    def note_access(self, n, f, ctx):
        b = kids(n)
        base = self.base_text(b[0]) if b else "this"
        if n.get("isArrow") and base != "this":
            base = base        # the object is *base; keep the pointer text
        s = self.ex.site(n)
        a = {"cls": f[0], "name": f[1], "base": base, "fn": self.name, "file": s[0], "line": s[1], "col": s[2], "write": ctx == "w",
             "locks": [list(x) for x in self.locks_now()], "atomic": bool(ATOMIC_TYPE.match(qt(n))), "ctor": self.in_ctor}
        if ctx == "w" and self.held and not SYNC_TYPE.match(self.ex.members[f]["type"]):
            self.cs_writes.append((f[0], f[1], base, tuple(self.locks_now())))
        if not self.record:
            return
        key = (s, f, ctx == "w")
        old = self.ex.accesses.get(key)
        if old is None or (old["fn"] == a["fn"] and len(a["locks"]) < len(old["locks"])):
            self.ex.accesses[key] = a

    def acquire(self, vid, lock):
        if not self.held:
            self.cs_writes = []
        self.held[vid] = lock

    def release(self, vid):
        if vid in self.held:
            del self.held[vid]
            if not self.held:
                self.last_cs = list(self.cs_writes)
                self.cs_writes = []

    # ---- statements
    def stmt(self, n):
        k = n.get("kind")
        if k == "CompoundStmt":
            declared = []
            for c in kids(n):
                before = set(self.lockvars)
                self.stmt(c)
                declared += [v for v in self.lockvars if v not in before]
            for v in declared:
                self.release(v)
                self.lockvars.pop(v, None)
            return
        if k == "DeclStmt":
            for d in kids(n):
                self.decl_in_body(d)
            return
        if k in ("IfStmt", "SwitchStmt"):
            cs = kids(n)
            i = 0
            if n.get("hasInit"):
                self.stmt(cs[i]); i += 1
            if n.get("hasVar"):
                self.stmt(cs[i]); i += 1
            self.loops.append(n)
            self.expr(cs[i], "r"); i += 1
            entry = dict(self.held)
            outs = []
            for c in cs[i:]:
                self.held = dict(entry)
                self.stmt(c)
                outs.append(dict(self.held))
            self.loops.pop()
            if len(outs) < 2:
                outs.append(entry)
            self.held = self.meet(outs)
            return
        if k in ("WhileStmt", "ForStmt", "DoStmt", "CXXForRangeStmt"):
            self.loops.append(n)
            entry = dict(self.held)
            rec0 = self.record
            # pass 1 (no recording) finds the lock set at the back edge, pass 2 runs with entry ∩ back edge
            self.record = False
            saved = (dict(self.lockvars), list(self.cs_writes), self.last_cs)
            self.loop_body(n)
            back = dict(self.held)
            self.lockvars, self.cs_writes, self.last_cs = saved[0], saved[1], saved[2]
            self.record = rec0
            self.held = self.meet([entry, back])
            start = dict(self.held)
            self.loop_body(n)
            self.held = self.meet([start, self.held])
            self.loops.pop()
            return
        if k == "CXXTryStmt":
            entry = dict(self.held)
            outs = []
            for c in kids(n):
                self.held = dict(entry)
                self.stmt(c)
                outs.append(dict(self.held))
            self.held = self.meet(outs) if outs else entry
            return
        if k == "CXXCatchStmt":
            for c in kids(n):
                if self.is_stmt(c):
                    self.stmt(c)
            return
        if k in ("CaseStmt", "DefaultStmt", "LabelStmt", "AttributedStmt"):
            for c in kids(n):
                if self.is_stmt(c):
                    self.stmt(c)
                else:
                    self.expr(c, "r")
            return
        if k in ("ReturnStmt",):
            for c in kids(n):
                self.expr(c, "r")
            return
        if k in ("BreakStmt", "ContinueStmt", "NullStmt", "GotoStmt"):
            return
        self.expr(n, "r")

    def loop_body(self, n):
        cs = kids(n)
        k = n.get("kind")
        if k == "CXXForRangeStmt":
            # children: [init] range-decl begin-decl end-decl cond inc loopvar-decl body; the range binds `auto&&`: a read
            for c in cs[:-1]:
                if c.get("kind") == "DeclStmt":
                    for d in kids(c):
                        for e in kids(d):
                            self.expr(e, "r")
                elif c.get("kind"):
                    self.expr(c, "r")
            self.stmt(cs[-1])
            return
        if k == "DoStmt":
            self.stmt(cs[0])
            self.expr(cs[1], "r")
            return
        # WhileStmt: [condvar] cond body ; ForStmt: init condvar cond inc body (missing parts are empty objects)
        for c in cs[:-1]:
            if c.get("kind"):
                self.stmt(c)
        self.stmt(cs[-1])

    @staticmethod
    def is_stmt(c):
        return c.get("kind", "").endswith("Stmt")

    @staticmethod
    def meet(states):
        out = dict(states[0])
        for s in states[1:]:
            for v in list(out):
                if v not in s:
                    del out[v]
        return out

    def decl_in_body(self, d):
        k = d.get("kind")
        if k == "VarDecl":
            t = qt(d)
            if LOCK_TYPES.match(t):
                init = [c for c in kids(d) if c.get("kind") not in ("FullComment",)]
                ce = strip_wrappers(init[0]) if init else None
                args = kids(ce) if ce is not None and ce.get("kind") == "CXXConstructExpr" else []
                lock = None
                if args:
                    m = strip_wrappers(args[0])
                    if m.get("kind") == "MemberExpr":
                        f = self.ex.fld.get(m.get("referencedMemberDecl"))
                        base = self.base_text(kids(m)[0]) if kids(m) else "this"
                        lock = (f"{f[0]}::{f[1]}" if f else m.get("name", "?"), base)
                        if f and f in self.ex.members:
                            self.note_access(m, f, "w")
                    else:
                        lock = (self.base_text(m), "")
                for a in args[1:]:
                    self.expr(a, "r")
                if lock is None:
                    self.ex.errors.append(f"{self.name}: lock variable `{d.get('name')}` ({t}) without a recognisable mutex argument at {self.ex.site(d)}")
                    return
                self.lockvars[d["id"]] = lock
                deferred = len(args) > 1 and "defer_lock" in json.dumps(args[1])
                if not deferred:
                    self.acquire(d["id"], lock)
                return
            is_ref = (d.get("type") or {}).get("qualType", "").rstrip().endswith("&")
            for c in kids(d):
                self.expr(c, "w" if is_ref and "const" not in (d.get("type") or {}).get("qualType", "") else "r")
            return
        if k in RECORD_KINDS:
            # local class: its member functions are separate functions (empty lock set)
            self.ex.index_local(d, self.name)
            for c in kids(d):
                self.ex.scan_decl(c, f"{self.name}::{d.get('name')}")
            return
        for c in kids(d):
            if c.get("kind", "").endswith("Expr") or c.get("kind", "").endswith("Operator"):
                self.expr(c, "r")

    # ---- expressions
    def expr(self, n, ctx):
        k = n.get("kind")
        cs = kids(n)
        if k is None:
            return
        if k.endswith("Stmt"):
            self.stmt(n)
            return
        if k == "ImplicitCastExpr":
            ck = n.get("castKind")
            if ck == "LValueToRValue" or (ck == "NoOp" and re.match(r"^const\b", (n.get("type") or {}).get("qualType", ""))):
                ctx = "r"
            for c in cs:
                self.expr(c, ctx)
            return
        if k in ("ParenExpr", "ExprWithCleanups", "MaterializeTemporaryExpr", "CXXBindTemporaryExpr", "ConstantExpr",
                 "CXXStaticCastExpr", "CStyleCastExpr", "CXXFunctionalCastExpr", "CXXConstCastExpr", "CXXReinterpretCastExpr"):
            if k in ("MaterializeTemporaryExpr",):
                ctx = "r" if re.match(r"^const\b", (n.get("type") or {}).get("qualType", "")) else ctx
            for c in cs:
                self.expr(c, ctx)
            return
        if k == "MemberExpr":
            f = self.member_of(n)
            if ctx == "w" and re.match(r"^const\b", (n.get("type") or {}).get("qualType", "")) and not (n.get("type") or {}).get("qualType", "").rstrip().endswith("*"):
                ctx = "r"       # a const lvalue (member of a const object): cannot be written through
            if f:
                self.note_access(n, f, ctx)
            for c in cs:
                self.expr(c, "r" if n.get("isArrow") else ctx)
            return
        if k in ("BinaryOperator", "CompoundAssignOperator"):
            op = n.get("opcode", "")
            if k == "CompoundAssignOperator" or op == "=":
                self.expr(cs[1], "r")
                self.expr(cs[0], "w")
            else:
                for c in cs:
                    self.expr(c, "r")
            return
        if k == "UnaryOperator":
            op = n.get("opcode", "")
            c0 = "w" if op in ("++", "--", "&") else "r"
            for c in cs:
                self.expr(c, c0)
            return
        if k == "ArraySubscriptExpr":
            self.expr(cs[0], ctx)
            for c in cs[1:]:
                self.expr(c, "r")
            return
        if k == "ConditionalOperator":
            self.expr(cs[0], "r")
            for c in cs[1:]:
                self.expr(c, ctx)
            return
        if k == "LambdaExpr":
            self.lambda_(n, inherit=False)
            return
        if k == "CXXMemberCallExpr":
            self.member_call(n, ctx)
            return
        if k == "CXXOperatorCallExpr":
            callee = strip_wrappers(cs[0]) if cs else {}
            op = (callee.get("referencedDecl") or {}).get("name", "")
            self.expr(cs[0], "r")
            for i, a in enumerate(cs[1:]):
                if i == 0 and op in PROPAGATING_OPS:
                    self.expr(a, ctx)
                else:
                    self.expr(a, "w")
            return
        if k in ("CallExpr", "CXXConstructExpr", "CXXTemporaryObjectExpr", "CXXNewExpr", "InitListExpr"):
            callee = strip_wrappers(cs[0]) if (k == "CallExpr" and cs) else {}
            cname = (callee.get("referencedDecl") or {}).get("name", "") if callee.get("kind") == "DeclRefExpr" else ""
            args = cs[1:] if k == "CallExpr" else cs
            if k == "CallExpr" and cs:
                self.expr(cs[0], "r")
            for a in args:
                if strip_wrappers(a).get("kind") == "LambdaExpr" and cname in STD_ALGOS:
                    self.lambda_(strip_wrappers(a), inherit=True)
                else:
                    self.expr(a, "w")
            return
        if k in ("DeclRefExpr", "CXXThisExpr", "IntegerLiteral", "StringLiteral", "CXXBoolLiteralExpr", "CXXNullPtrLiteralExpr",
                 "FloatingLiteral", "CharacterLiteral", "CXXDefaultArgExpr", "CXXDefaultInitExpr", "GNUNullExpr"):
            return
        for c in cs:
            if c.get("kind") in RECORD_KINDS | FUNC_KINDS:
                continue
            self.expr(c, "r")

    def lambda_(self, n, inherit):
        body = [c for c in kids(n) if c.get("kind") == "CompoundStmt"]
        if not body:
            return
        s = self.ex.site(n)
        sub = FnScan(self.ex, self.decl, f"{self.name}::<lambda@{s[1]}>")
        sub.in_ctor = False
        if inherit:
            sub.held = dict(self.held)
            sub.lockvars = dict(self.lockvars)
        sub.stmt(body[-1])
        return sub

    def member_call(self, n, ctx):
        cs = kids(n)
        m = cs[0] if cs else {}
        args = cs[1:]
        if m.get("kind") != "MemberExpr":
            for c in cs:
                self.expr(c, "w")
            return
        name = m.get("name", "")
        obj = kids(m)[0] if kids(m) else None
        o = strip_wrappers(obj) if obj is not None else {}
        # lock()/unlock() on a lock variable
        if name in ("lock", "unlock") and o.get("kind") == "DeclRefExpr":
            vid = (o.get("referencedDecl") or {}).get("id")
            if vid in self.lockvars:
                if name == "unlock":
                    self.release(vid)
                else:
                    self.acquire(vid, self.lockvars[vid])
                return
        # condition variables
        if obj is not None and CV_TYPE.match(qt(o)) and (name in WAITS or name in NOTIFIES):
            f = self.member_of(o)
            cv = (f"{f[0]}::{f[1]}" if f else self.base_text(o), self.base_text(kids(o)[0]) if (f and kids(o)) else "")
            if f:
                self.note_access(o, f, "w")
            if name in WAITS:
                self.wait_fact(n, cv, name, args)
            else:
                self.notify_fact(n, cv, name)
            return
        # Notifier::notify() on a Notifier object: recorded as a notify fact on the pseudo condition variable `Notifier:<object>`
        ocls = re.sub(r"\bconst\b|[*&]|\s", "", qt(o)) if obj is not None else ""
        mq = self.ex.meth.get(m.get("referencedMemberDecl")) or (f"{ocls}::{name}" if ocls else name)
        if ocls == "Notifier" and name == "notify":
            self.notify_fact(n, ("Notifier:" + self.base_text(obj), ""), "Notifier::notify")
        self.ex.calls.append((mq, self.name, self.ex.site(n), self.locks_now(), self.base_text(obj) if obj is not None else "this"))
        if obj is not None:
            if m.get("isArrow"):
                self.expr(obj, "r")
            elif name in ACCESSORS:
                self.expr(obj, ctx)
            else:
                self.expr(obj, "w")
        for a in args:
            self.expr(a, "w")

    def wait_fact(self, n, cv, name, args):
        lockvar = strip_wrappers(args[0]) if args else {}
        vid = (lockvar.get("referencedDecl") or {}).get("id") if lockvar.get("kind") == "DeclRefExpr" else None
        mutex = self.lockvars.get(vid)
        preds, looped, has_lambda = [], False, False
        for a in args[1:]:
            la = strip_wrappers(a)
            if la.get("kind") == "LambdaExpr":
                has_lambda, looped = True, True
                preds += self.reads_in(la)
                self.lambda_(la, inherit=True)
            else:
                self.expr(a, "r")
        if not has_lambda:
            # nearest enclosing loop (whole statement) or, without a loop, the enclosing if statements
            scope = None
            for st in reversed(self.loops):
                if st.get("kind") in ("WhileStmt", "DoStmt", "ForStmt"):
                    scope, looped = st, True
                    break
            if scope is None:
                for st in reversed(self.loops):
                    if st.get("kind") == "IfStmt":
                        scope = st
                        break
            if scope is not None:
                preds += self.reads_in(scope)
        preds = sorted(set(p for p in preds if (p[0] + "::" + p[1]) != cv[0]))
        s = self.ex.site(n)
        w = {"cv": cv[0], "cvbase": cv[1], "call": name, "fn": self.name, "file": s[0], "line": s[1], "col": s[2],
             "mutex": list(mutex) if mutex else None, "held": vid in self.held if vid else False, "looped": looped,
             "preds": [list(p) for p in preds]}
        if self.record:
            self.ex.waits[(s, cv)] = w

    def reads_in(self, node):
        out = []
        for x in cxx2lean.walk(node):
            if x.get("kind") == "MemberExpr":
                f = self.member_of(x)
                if f:
                    m = self.ex.members[f]
                    if re.match(r"^(?:const )?std::(mutex|condition_variable)", m["type"]) or LOCK_TYPES.match(m["type"]):
                        continue
                    b = kids(x)
                    out.append((f[0], f[1], self.base_text(b[0]) if b else "this"))
        return out

    def notify_fact(self, n, cv, name):
        s = self.ex.site(n)
        inside = bool(self.held)
        ws = self.cs_writes if inside else (self.last_cs or [])
        nf = {"cv": cv[0], "cvbase": cv[1], "call": name, "fn": self.name, "file": s[0], "line": s[1], "col": s[2],
              "locks": [list(x) for x in self.locks_now()], "inside": inside,
              "written": [[w[0], w[1], w[2], [list(l) for l in w[3]]] for w in dict.fromkeys(ws)]}
        if self.record:
            self.ex.notifies[(s, cv)] = nf


def _index_local(self, d, outer):
    q = f"{outer}::{d.get('name')}"
    self.rec[d["id"]] = q
    for c in kids(d):
        if c.get("kind") == "FieldDecl":
            self.fld[c["id"]] = (q, c.get("name"))
        elif c.get("kind") in FUNC_KINDS:
            self.meth[c["id"]] = f"{q}::{c.get('name')}"


Extract.index_local = _index_local


def _check_annotations(self):
    found = {}
    for callee, caller, site, held, base in self.calls:
        if callee in HELD_ON_ENTRY:
            found.setdefault(callee, set()).add(caller)
            need = HELD_ON_ENTRY[callee]["locks"]
            have = [m for (m, b) in held if b == base or (base == "this" and b == "this")]
            for m in need:
                if m not in have:
                    self.errors.append(f"annotation HELD_ON_ENTRY[{callee}]: call in {caller} at {site[0]}:{site[1]} does not hold {m} (held: {held})")
    for callee, spec in HELD_ON_ENTRY.items():
        got = found.get(callee, set())
        if got != set(spec["callers"]):
            self.errors.append(f"annotation HELD_ON_ENTRY[{callee}]: declared callers {sorted(spec['callers'])}, found {sorted(got)}")


Extract.check_annotations = _check_annotations


# -------------------------------------------------------------------------------------------------
# Lean output
# -------------------------------------------------------------------------------------------------

def lstr(s):
    return '"' + str(s).replace("\\", "\\\\").replace('"', '\\"') + '"'


def lbool(b):
    return "true" if b else "false"


def llist(xs):
    return "[" + ", ".join(xs) + "]"


def llock(l):
    return f"⟨{lstr(l[0])}, {lstr(l[1])}⟩"


def emit_lean(ex, sources):
    members = sorted(ex.members.values(), key=lambda m: (m["cls"], m["line"], m["name"]))
    accesses = sorted(ex.accesses.values(), key=lambda a: (a["file"], a["line"], a["col"], a["cls"], a["name"], a["write"]))
    waits = sorted(ex.waits.values(), key=lambda a: (a["file"], a["line"], a["col"]))
    notifies = sorted(ex.notifies.values(), key=lambda a: (a["file"], a["line"], a["col"]))
    out = ["/- GENERATED by tools/locktie.py from the current C++ sources — DO NOT EDIT, DO NOT COMMIT.",
           "   sources : (path, git blob hash of the working-tree content)"]
    out += [f"     {p}  {h}" for p, h in sources]
    out += ["-/", "import TexelVerif.Conc.LockTypes", "namespace Gen.LockFacts", "open Conc.LockTie", ""]
    out.append("/-- classes whose complete member list is above (for `access_table_complete`) -/")
    out.append("def completeClasses : List String := " + llist(lstr(c) for c in COMPLETE) + "\n")
    out.append("/-- per member: its access sites — class, member, base object, function, file, line, col, write?, locks held (mutex member, base object), atomic type?, in a constructor? -/")
    by_member = {}
    for a in accesses:
        by_member.setdefault((a["cls"], a["name"]), []).append(a)
    names = []
    for i, m in enumerate(members):
        ch = by_member.get((m["cls"], m["name"]), [])
        names.append(f"sites{i}")
        out.append(f"def sites{i} : List Access := [" + (",\n".join(
            f"  ⟨{lstr(a['cls'])}, {lstr(a['name'])}, {lstr(a['base'])}, {lstr(a['fn'])}, {lstr(a['file'])}, {a['line']}, {a['col']}, {lbool(a['write'])}, "
            f"{llist(llock(l) for l in a['locks'])}, {lbool(a['atomic'])}, {lbool(a['ctor'])}⟩" for a in ch)) + "]")
    out.append("def groups : List Group := [")
    out.append(",\n".join(f"  ⟨⟨{lstr(m['cls'])}, {lstr(m['name'])}, {lstr(m['type'])}, {lbool(m['const'])}, {lbool(m['atomic'])}, {lstr(m['file'])}, {m['line']}⟩, sites{i}⟩" for i, m in enumerate(members)))
    out.append("]\n")
    out.append("/-- condition-variable waits: cv member, cv base, call, function, file, line, mutex of the lock argument, lock held at the call?, re-tested in a loop?, members read by the predicate -/")
    out.append("def waits : List Wait := [")
    out.append(",\n".join(
        f"  ⟨{lstr(w['cv'])}, {lstr(w['cvbase'])}, {lstr(w['call'])}, {lstr(w['fn'])}, {lstr(w['file'])}, {w['line']}, "
        f"{('some ' + llock(w['mutex'])) if w['mutex'] else 'none'}, {lbool(w['held'])}, {lbool(w['looped'])}, "
        f"{llist('⟨%s, %s, %s⟩' % (lstr(p[0]), lstr(p[1]), lstr(p[2])) for p in w['preds'])}⟩" for w in waits))
    out.append("]\n")
    out.append("/-- notifications: cv member (or `Notifier:<object>`), cv base, call, function, file, line, locks held, inside a critical section?, members written in the current / last critical section of the function -/")
    out.append("def notifies : List Notify := [")
    out.append(",\n".join(
        f"  ⟨{lstr(w['cv'])}, {lstr(w['cvbase'])}, {lstr(w['call'])}, {lstr(w['fn'])}, {lstr(w['file'])}, {w['line']}, "
        f"{llist(llock(l) for l in w['locks'])}, {lbool(w['inside'])}, "
        f"{llist('⟨⟨%s, %s, %s⟩, %s⟩' % (lstr(p[0]), lstr(p[1]), lstr(p[2]), llist(llock(l) for l in p[3])) for p in w['written'])}⟩" for w in notifies))
    out.append("]\n")
    out.append("end Gen.LockFacts")
    return "\n".join(out) + "\n"


# -------------------------------------------------------------------------------------------------
# driver: generate (cached by source hash), build the Bridge modules, audit, report
# -------------------------------------------------------------------------------------------------

def source_files():
    return sorted({tu for tu, _ in DUMPS} | {"app/texel/enginecontrol.hpp", "lib/texellib/hw/parallel.hpp", "lib/texellib/threadpool.hpp",
                                             "lib/texellib/util/util.hpp", "lib/texellib/transpositionTable.hpp", "lib/texellib/search.hpp"})


def generate(repo, outdir, cachedir=None, force=False):
    """Returns {"ok", "error", "generated", "changed", "facts": {...counts}, "wall_s"}; cached by the hash of the source tree."""
    t0 = time.time()
    repo = os.path.abspath(repo)
    gen = os.path.join(outdir, "LockFacts.lean")
    key = hashlib.sha1((VERSION + cxx2lean.tree_hash(repo) + hashlib.sha1(open(os.path.abspath(__file__), "rb").read()).hexdigest() + repo).encode()).hexdigest()
    state_p = os.path.join(cachedir, "locktie.json") if cachedir else None
    st = json.load(open(state_p)) if state_p and os.path.exists(state_p) else {}
    gsha = hashlib.sha1(open(gen, "rb").read()).hexdigest() if os.path.exists(gen) else None
    if not force and st.get("key") == key and st.get("gen_sha") == gsha and gsha:
        return dict(st["result"], changed=False, wall_s=round(time.time() - t0, 2))
    res = {"ok": False, "error": None, "generated": gen, "facts": {}, "json": None}
    try:
        ex = Extract(repo, cachedir).run()
        if ex.errors:
            raise Fail("; ".join(ex.errors[:6]))
        missing = [c for c in COMPLETE if not any(m["cls"] == c for m in ex.members.values())]
        if missing:
            raise Fail(f"no data members found for class(es) {missing} (class renamed or moved out of the scanned translation units?)")
        hs = cxx2lean.blob_hashes(repo, [os.path.join(repo, p) for p in source_files() if os.path.exists(os.path.join(repo, p))])
        text = emit_lean(ex, sorted((os.path.relpath(p, repo), h) for p, h in hs.items()))
        os.makedirs(outdir, exist_ok=True)
        if not os.path.exists(gen) or open(gen).read() != text:
            with open(gen + ".tmp", "w") as f:
                f.write(text)
            os.replace(gen + ".tmp", gen)
        res["ok"] = True
        res["facts"] = {"members": len(ex.members), "accesses": len(ex.accesses), "waits": len(ex.waits), "notifies": len(ex.notifies),
                        "clang_runs": ex.front.runs}
        if cachedir:
            jp = os.path.join(cachedir, "lockfacts.json")
            with open(jp, "w") as f:
                json.dump({"members": list(ex.members.values()), "accesses": list(ex.accesses.values()), "waits": list(ex.waits.values()),
                           "notifies": list(ex.notifies.values())}, f, indent=1)
            res["json"] = jp
    except Fail as e:
        res["error"] = str(e)
        # keep the build from silently using stale facts
        os.makedirs(outdir, exist_ok=True)
        with open(gen, "w") as f:
            f.write("/- GENERATED by tools/locktie.py: EXTRACTION FAILED -/\nimport TexelVerif.Conc.LockTypes\n"
                    "namespace Gen.LockFacts\nopen Conc.LockTie\n"
                    "def groups : List Group := []\ndef completeClasses : List String := []\n"
                    "def waits : List Wait := []\ndef notifies : List Notify := []\nend Gen.LockFacts\n")
    if state_p:
        gsha = hashlib.sha1(open(gen, "rb").read()).hexdigest()
        os.makedirs(cachedir, exist_ok=True)
        with open(state_p + ".tmp", "w") as f:
            json.dump({"key": key, "gen_sha": gsha, "result": res}, f, indent=1)
        os.replace(state_p + ".tmp", state_p)
    return dict(res, changed=True, wall_s=round(time.time() - t0, 2))


BRIDGE_OF = {"C09": "LockFacts", "C10": "WaitFacts"}


def regenerate(ctx, prop=None, repo=None):
    """Entry point of the checks: regenerate the facts from $VERIF_REPO's current source, build + audit the Bridge module of the
    property, and on failure report a violation (no failing input) that names the theorem and the offending sites.
    Returns {"ok", "failed_theorems", "sites", ...}."""
    import vlib, xlate
    prop = prop or ctx.prop
    mod = BRIDGE_OF[prop]
    repo = repo or vlib.REPO
    t0 = time.time()
    os.makedirs(xlate.CACHE, exist_ok=True)
    out = {"ok": False, "module": mod, "failed_theorems": [], "sites": [], "errors": [], "theorems": []}
    with open(os.path.join(xlate.CACHE, "lock"), "w") as lk:
        fcntl.flock(lk, fcntl.LOCK_EX)
        g = generate(repo, xlate.GEN_DIR, xlate.CACHE)
        out["extract"] = {k: g.get(k) for k in ("ok", "error", "facts", "changed", "wall_s")}
        thms, decls = xlate.bridge_theorems(mod)
        out["theorems"] = [t[0] for t in thms]
        if not g["ok"]:
            out["failed_theorems"] = list(out["theorems"])
            out["errors"] = [g["error"]]
        else:
            ok, bout = vlib.lake_build([f"TexelVerif.Bridge.{mod}"])
            if not ok:
                bad, errs = [], []
                for mm in re.finditer(r"error: (\S+?\.lean):(\d+):(\d+): (.*)", bout):
                    errs.append(f"{os.path.basename(mm.group(1))}:{mm.group(2)}: {mm.group(4)[:160]}")
                    if mm.group(1).endswith(f"Bridge/{mod}.lean"):
                        ln = int(mm.group(2))
                        for n, a, b in decls:
                            if a <= ln <= b and n not in bad:
                                bad.append(n)
                out["failed_theorems"] = bad or list(out["theorems"])
                out["errors"] = errs[:8] or [l for l in bout.split("\n") if "error" in l][:8]
                out["sites"] = diagnose(mod)
            else:
                out["ok"] = audit(mod, out)
    out["wall_s"] = round(time.time() - t0, 2)
    if ctx is not None:
        n = len(out["theorems"])
        ctx.cov["obligations"] += n
        ctx.cov["discharged"] += n if out["ok"] else n - len(out["failed_theorems"])
        ctx.tie(f"locktie-{mod}", kind="lock/wait facts extracted from the C++ source by tools/locktie.py (clang AST, lexical lock sets) + Bridge theorems by `decide` over the generated tables",
                ok=out["ok"], theorems=n, facts=out["extract"].get("facts"), sources_changed=out["extract"].get("changed"), wall_s=out["wall_s"])
        ctx.cov.setdefault("trusted_base", []).append(
            "locktie extractor: clang-14 AST -> access/wait/notify facts (lexical lock sets; notes/C09.md 'static tie')")
        ctx.log(f"locktie {mod}: " + ("ok" if out["ok"] else "BROKEN " + json.dumps(out["failed_theorems"])[:300]) + f" ({n} Bridge theorems, {out['wall_s']}s)")
        if not out["ok"]:
            report(ctx, out)
    return out


def audit(mod, out):
    import vlib, xlate
    state_p = os.path.join(xlate.CACHE, "locktie_audit.json")
    state = json.load(open(state_p)) if os.path.exists(state_p) else {}
    olean = os.path.join(vlib.LEAN, ".lake", "build", "lib", "lean", "TexelVerif", "Bridge", f"{mod}.olean")
    ak = (xlate._sha(olean) or "") + ",".join(out["theorems"])
    if state.get(mod) == ak:
        return True
    tmp = os.path.join(vlib.LEAN, ".lake", f"audit_bridge_{mod}.lean")
    with open(tmp, "w") as f:
        f.write(f"import TexelVerif.Bridge.{mod}\n" + "".join(f"#print axioms {t}\n" for t in out["theorems"]))
    rc, txt = vlib.sh(["lake", "env", "lean", tmp], cwd=vlib.LEAN, timeout=600)
    seen, badax = set(), []
    for mm in re.finditer(r"'([^']+)' (?:depends on axioms: \[([^\]]*)\]|does not depend on any axioms)", txt.replace("\n  ", " ").replace("\n", " ")):
        ax = set(a.strip() for a in (mm.group(2) or "").split(",") if a.strip())
        seen.add(mm.group(1))
        if not ax <= vlib.ALLOWED_AXIOMS:
            badax.append((mm.group(1), sorted(ax - vlib.ALLOWED_AXIOMS)))
    missing = [t for t in out["theorems"] if t not in seen]
    hyg = [p for p in vlib.lean_hygiene() if f"Bridge/{mod}.lean" in p or "Conc/Lock" in p]
    if rc != 0 or badax or missing or hyg:
        out["errors"] = [f"axiom audit: bad={badax} missing={missing} hygiene={hyg}"]
        out["failed_theorems"] = [b[0] for b in badax] + missing
        return False
    state[mod] = ak
    with open(state_p + ".tmp", "w") as f:
        json.dump(state, f)
    os.replace(state_p + ".tmp", state_p)
    return True


def diagnose(mod):
    """Evaluate the decidable checks of Conc/LockTable.lean on the generated facts and return the offending sites (strings)."""
    import vlib
    ok, _ = vlib.lake_build(["TexelVerif.Conc.LockTable", "TexelVerif.Generated.LockFacts"])
    if not ok:
        return ["(cannot build Conc/LockTable.lean + Generated/LockFacts.lean for the diagnosis)"]
    tmp = os.path.join(vlib.LEAN, ".lake", f"diag_{mod}.lean")
    with open(tmp, "w") as f:
        f.write("import TexelVerif.Conc.LockTable\nimport TexelVerif.Generated.LockFacts\nopen Conc.LockTie Gen.LockFacts\n"
                f"#eval IO.println (String.intercalate \"\\n\" (diagnose{mod} groups completeClasses waits notifies))\n")
    rc, txt = vlib.sh(["lake", "env", "lean", tmp], cwd=vlib.LEAN, timeout=300)
    return [l for l in txt.split("\n") if l.strip()][:40]


def report(ctx, out):
    mod = out["module"]
    names = ", ".join(t.split(".")[-1] for t in out["failed_theorems"][:6])
    if out["extract"] and not out["extract"]["ok"]:
        msg = f"lock-discipline tie broken: tools/locktie.py cannot extract the facts from the current source: {(out['extract']['error'] or '')[:300]}"
    else:
        msg = (f"theorem(s) {names} of lean/TexelVerif/Bridge/{mod}.lean no longer hold for the lock/wait facts extracted from the current C++ source "
               f"(the locking discipline assumed by the protocol model is not the code's): " + " | ".join(out["sites"][:4])[:700])
    ctx.violation(msg, {"kind": "locktie", "module": mod, "failed_theorems": out["failed_theorems"], "sites": out["sites"], "errors": out["errors"],
                        "how_to_reproduce": f"python3 tools/locktie.py --repo $VERIF_REPO && (cd lean && lake build TexelVerif.Bridge.{mod})"},
                  no_input=True)


def main():
    import argparse
    ap = argparse.ArgumentParser()
    ap.add_argument("--repo", default=os.environ.get("VERIF_REPO", "/repo"))
    ap.add_argument("--out", default=os.path.join(os.path.dirname(HERE), "lean", "TexelVerif", "Generated"))
    ap.add_argument("--cache", default=os.path.join(os.path.dirname(HERE), ".build", "xlate"))
    ap.add_argument("--force", action="store_true")
    ap.add_argument("--json", action="store_true")
    a = ap.parse_args()
    os.makedirs(a.cache, exist_ok=True)
    r = generate(a.repo, a.out, a.cache, a.force)
    print(json.dumps({k: r[k] for k in ("ok", "error", "generated", "facts", "changed", "wall_s")}, indent=1))
    if a.json and r.get("json"):
        print(open(r["json"]).read())
    return 0 if r["ok"] else 1


if __name__ == "__main__":
    sys.exit(main())
