#!/usr/bin/env python3
"""Self-test of the translator tie: semantic mutations of translated kernels must break a Bridge theorem (or the
translation), harmless rewrites must still pass.  Applies each edit to $VERIF_REPO's working tree (which must be a
private worktree, never /repo), runs xlate.regenerate, restores the file.

    VERIF_REPO=/tmp/w/<agent>/repo python3 tools/xlate_selftest.py [name-substring ...]
"""
import json, os, sys, time
sys.path.insert(0, os.path.dirname(os.path.abspath(__file__)))
import vlib, xlate

TT_H = "lib/texellib/transpositionTable.hpp"
TT_C = "lib/texellib/transpositionTable.cpp"
CONST = "lib/texellib/constants.hpp"
SEARCH_H = "lib/texellib/search.hpp"
SEARCH_C = "lib/texellib/search.cpp"
ENGINE_C = "app/texel/enginecontrol.cpp"
UTIL_H = "lib/texellib/util/util.hpp"
BB_H = "lib/texellib/bitBoard.hpp"
BB_C = "lib/texellib/bitBoard.cpp"
PIECE_H = "lib/texellib/piece.hpp"
EVAL_C = "lib/texellib/evaluate.cpp"
TBPROBE_C = "lib/texellib/tb/tbprobe.cpp"
PG_C = "lib/texellib/book/polyglot.cpp"

# (name, module, file, old, new, expectation)   expectation: "break" | "pass"
Q_LOOP = '        if (depth < -6 && mi >= 2)\n            continue;\n        if (!realInCheckComputed) {\n            realInCheck = MoveGen::inCheck(pos);\n            realInCheckComputed = true;\n        }\n        if (!MoveGen::isLegal(pos, m, realInCheck))\n            continue;\n\n        if (!givesCheckComputed && (depth - 1 > -2))\n            givesCheck = MoveGen::givesCheck(pos, m);\n        const bool nextInCheck = (depth - 1) > -2 ? givesCheck : false;\n\n        pos.makeMove(m, ui);\n        totalNodes++;\n#ifdef TEXEL_VERIF\n        if (threadNo == 0) VerifClock::tickNode();\n#endif\n        nodesToGo--;\n        score = -quiesce('

CASES = [
    # ---- semantic mutations: must be caught --------------------------------------------------------------------
    ("getIndex: r >>= 15", "TT", TT_H, "    r >>= 16;\n    r <<= usedSizeShift;", "    r >>= 15;\n    r <<= usedSizeShift;", "break"),
    ("getIndex: key >> (64 - 15)", "TT", TT_H, "U64 r = key >> (64 - 16);", "U64 r = key >> (64 - 15);", "break"),
    ("getIndex: |= dropped mask", "TT", TT_H, "r |= key & usedSizeMask;", "r |= key;", "break"),
    ("setUsedSize: & ~3ULL dropped", "TT", TT_C, "usedSizeMask = ((1ULL << usedSizeShift) - 1) & ~3ULL;", "usedSizeMask = ((1ULL << usedSizeShift) - 1);", "break"),
    ("setUsedSize: >= 512", "TT", TT_C, "while (topBits >= 256) {", "while (topBits >= 512) {", "break"),
    ("setUsedSize: > 256", "TT", TT_C, "while (topBits >= 256) {", "while (topBits > 256) {", "break"),
    ("setUsedSize: shift not reset", "TT", TT_C, "    usedSizeShift = 0;\n", "", "break"),
    ("getScore: sc -= ply - 1", "TT", TT_H, "        sc -= ply;\n", "        sc -= ply - 1;\n", "break"),
    ("getScore: lose branch sc -= ply", "TT", TT_H, "        sc += ply;\n    return sc;", "        sc -= ply;\n    return sc;", "break"),
    ("setScore: branches swapped", "TT", TT_H, "    if (SearchConst::isWinScore(score))\n        score += ply;", "    if (SearchConst::isLoseScore(score))\n        score += ply;", "break"),
    ("getBits: mask size+1", "TT", TT_H, "U64 sizeMask = ((1ULL << size) - 1);", "U64 sizeMask = ((1ULL << (size + 1)) - 1);", "break"),
    ("setBits: value not masked", "TT", TT_H, "data = (data & ~mask) | (((U64)value << first) & mask);", "data = (data & ~mask) | ((U64)value << first);", "break"),
    ("setBits: 1U instead of 1ULL", "TT", TT_H, "U64 mask = ((1ULL << size) - 1) << first;", "U64 mask = ((U64)((1U << size) - 1)) << first;", "break"),
    ("isWinScore: >= instead of >", "TT", CONST, "return score > MATE0 / 2; }", "return score >= MATE0 / 2; }", "break"),
    ("MATE0 = 32001", "TT", CONST, "const int MATE0 = 32000;", "const int MATE0 = 32002;", "break"),
    ("isCutOff: score > beta", "TT", TT_H, "((eType == TType::T_GE) && (score >= beta)) ||", "((eType == TType::T_GE) && (score > beta)) ||", "break"),
    ("isCutOff: depth test dropped", "TT", TT_H, "    if (eDepth >= depth) {\n", "    if (eDepth >= depth - 1) {\n", "break"),
    ("isCutOff: T_LE accepted for win scores", "TT", TT_H, "(eType == TType::T_EXACT || eType == TType::T_GE))", "(eType == TType::T_EXACT || eType == TType::T_LE))", "break"),
    ("betterThan: exact bonus 2", "TT", TT_H, "int e1 = (getType() == TType::T_EXACT) ? 3 : 0;", "int e1 = (getType() == TType::T_EXACT) ? 2 : 0;", "break"),
    ("betterThan: >= depth", "TT", TT_H, "        return d1 > d2; // Larger", "        return d1 >= d2; // Larger", "pass"),   # equivalent: guarded by d1 != d2
    ("betterThan: other's generation ignored", "TT", TT_H, "if ((getGeneration() == currGen) != (other.getGeneration() == currGen))", "if ((getGeneration() == currGen) != (getGeneration() == currGen))", "break"),
    ("getDepth: 8-bit field", "TT", TT_H, "    return getBits(32, 9);", "    return getBits(32, 8);", "break"),
    ("TType::T_GE = 3 / T_LE = 2", "TT", CONST, "    const int T_GE = 2;      // True score >= this score\n    const int T_LE = 3;", "    const int T_GE = 3;      // True score >= this score\n    const int T_LE = 2;", "break"),
    # ---- outside the subset: must fail loudly ------------------------------------------------------------------
    ("getIndex: floating point", "TT", TT_H, "    r >>= 16;\n    r <<= usedSizeShift;", "    r = (U64)(r / 65536.0);\n    r <<= usedSizeShift;", "break"),
    ("getScore: reads a global", "TT", TT_H, "        sc -= ply;\n", "        sc -= ply + (int)sizeof(TTEntry) - 16;\n", "break"),
    # ---- harmless rewrites: must still pass --------------------------------------------------------------------
    ("getIndex: local renamed", "TT", TT_H,
     "    U64 r = key >> (64 - 16);\n    r *= usedSizeTopBits;\n    r >>= 16;\n    r <<= usedSizeShift;\n    r |= key & usedSizeMask;\n    return (size_t)r;",
     "    U64 idx = key >> (64 - 16);\n    idx *= usedSizeTopBits;\n    idx >>= 16;\n    idx <<= usedSizeShift;\n    idx |= key & usedSizeMask;\n    return (size_t)idx;", "pass"),
    ("getIndex: x op= y as x = x op y, 48 literal", "TT", TT_H,
     "    U64 r = key >> (64 - 16);\n    r *= usedSizeTopBits;\n    r >>= 16;",
     "    U64 r = key >> 48;\n    r = r * usedSizeTopBits;\n    r = r >> 16;", "pass"),
    ("getIndex: single expression", "TT", TT_H,
     "    U64 r = key >> (64 - 16);\n    r *= usedSizeTopBits;\n    r >>= 16;\n    r <<= usedSizeShift;\n    r |= key & usedSizeMask;\n    return (size_t)r;",
     "    return (size_t)(((((key >> 48) * usedSizeTopBits) >> 16) << usedSizeShift) | (key & usedSizeMask));", "pass"),
    ("setUsedSize: statements reordered, ++ as += 1, /= as >>= 1", "TT", TT_C,
     "    usedSize = s;\n    usedSizeShift = 0;\n    U64 topBits = usedSize;\n    while (topBits >= 256) {\n        topBits /= 2;\n        usedSizeShift++;\n    }",
     "    usedSizeShift = 0;\n    usedSize = s;\n    U64 topBits = s;\n    while (topBits >= 256) {\n        usedSizeShift += 1;\n        topBits >>= 1;\n    }", "pass"),
    ("setUsedSize: for loop", "TT", TT_C,
     "    U64 topBits = usedSize;\n    while (topBits >= 256) {\n        topBits /= 2;\n        usedSizeShift++;\n    }",
     "    U64 topBits = usedSize;\n    for (; topBits >= 256; topBits /= 2)\n        usedSizeShift++;", "pass"),
    ("getScore: if/else restructured with early returns", "TT", TT_H,
     "    if (SearchConst::isWinScore(sc))\n        sc -= ply;\n    else if (SearchConst::isLoseScore(sc))\n        sc += ply;\n    return sc;",
     "    if (SearchConst::isWinScore(sc))\n        return sc - ply;\n    if (SearchConst::isLoseScore(sc))\n        return sc + ply;\n    return sc;", "pass"),
    ("getBits: mask inlined", "TT", TT_H,
     "    U64 sizeMask = ((1ULL << size) - 1);\n    return (unsigned int)((data >> first) & sizeMask);",
     "    return (unsigned int)((data >> first) & ((1ULL << size) - 1));", "pass"),
    ("isWinScore: constant folded", "TT", CONST, "return score > MATE0 / 2; }", "return score > 16000; }", "pass"),
    ("isCutOff: nested if merged with &&, locals renamed", "TT", TT_H,
     "    if (eDepth >= depth) {\n        if ( (eType == TType::T_EXACT) ||\n            ((eType == TType::T_GE) && (score >= beta)) ||\n            ((eType == TType::T_LE) && (score <= alpha)))\n            return true;\n    }",
     "    if ((eDepth >= depth) && ((eType == TType::T_EXACT) ||\n            ((eType == TType::T_GE) && (beta <= score)) ||\n            ((eType == TType::T_LE) && (alpha >= score))))\n        return true;", "pass"),
    ("betterThan: ternaries as ifs", "TT", TT_H,
     "    int e1 = (getType() == TType::T_EXACT) ? 3 : 0;\n",
     "    int e1 = 0;\n    if (getType() == TType::T_EXACT)\n        e1 = 3;\n", "pass"),
    # ---- Draw (search.hpp: canClaimDrawRep / canClaimDraw50) -----------------------------------------------------
    ("canClaimDrawRep: i -= 1", "Draw", SEARCH_H, "for (int i = posHashListSize - 4; i >= stop; i -= 2) {", "for (int i = posHashListSize - 4; i >= stop; i -= 1) {", "break"),
    ("canClaimDrawRep: starts at size - 2", "Draw", SEARCH_H, "for (int i = posHashListSize - 4; i >= stop; i -= 2) {", "for (int i = posHashListSize - 2; i >= stop; i -= 2) {", "break"),
    ("canClaimDrawRep: i > stop", "Draw", SEARCH_H, "for (int i = posHashListSize - 4; i >= stop; i -= 2) {", "for (int i = posHashListSize - 4; i > stop; i -= 2) {", "break"),
    ("canClaimDrawRep: reps >= 3", "Draw", SEARCH_H, "if ((i >= posHashFirstNew) || (reps >= 2))", "if ((i >= posHashFirstNew) || (reps >= 3))", "break"),
    ("canClaimDrawRep: i > posHashFirstNew", "Draw", SEARCH_H, "if ((i >= posHashFirstNew) || (reps >= 2))", "if ((i > posHashFirstNew) || (reps >= 2))", "break"),
    ("canClaimDrawRep: max(0, ..) dropped", "Draw", SEARCH_H, "int stop = std::max(0, posHashListSize - pos.getHalfMoveClock());", "int stop = posHashListSize - pos.getHalfMoveClock();", "break"),
    ("canClaimDrawRep: halfmove clock + 1", "Draw", SEARCH_H, "int stop = std::max(0, posHashListSize - pos.getHalfMoveClock());", "int stop = std::max(0, posHashListSize - pos.getHalfMoveClock() - 1);", "break"),
    ("canClaimDrawRep: && instead of ||", "Draw", SEARCH_H, "if ((i >= posHashFirstNew) || (reps >= 2))", "if ((i >= posHashFirstNew) && (reps >= 2))", "break"),
    ("canClaimDraw50: > 100", "Draw", SEARCH_H, "return (pos.getHalfMoveClock() >= 100);", "return (pos.getHalfMoveClock() > 100);", "break"),
    ("canClaimDrawRep: infinite loop (i -= 0)", "Draw", SEARCH_H, "for (int i = posHashListSize - 4; i >= stop; i -= 2) {", "for (int i = posHashListSize - 4; i >= stop; i -= 0) {", "break"),
    ("canClaimDrawRep: while loop, reps += 1, operands swapped", "Draw", SEARCH_H,
     "    for (int i = posHashListSize - 4; i >= stop; i -= 2) {\n        if (pos.zobristHash() == posHashList[i]) {\n            reps++;\n            if ((i >= posHashFirstNew) || (reps >= 2))\n                return true;\n        }\n    }",
     "    int i = posHashListSize - 4;\n    while (stop <= i) {\n        if (posHashList[i] == pos.zobristHash()) {\n            reps += 1;\n            if ((reps >= 2) || (posHashFirstNew <= i))\n                return true;\n        }\n        i = i - 2;\n    }", "pass"),
    ("canClaimDrawRep: locals and loop variable renamed", "Draw", SEARCH_H,
     "    int reps = 0;\n    int stop = std::max(0, posHashListSize - pos.getHalfMoveClock());\n    for (int i = posHashListSize - 4; i >= stop; i -= 2) {\n        if (pos.zobristHash() == posHashList[i]) {\n            reps++;\n            if ((i >= posHashFirstNew) || (reps >= 2))",
     "    int cnt = 0;\n    int first = std::max(0, posHashListSize - pos.getHalfMoveClock());\n    for (int k = posHashListSize - 4; k >= first; k -= 2) {\n        if (pos.zobristHash() == posHashList[k]) {\n            cnt++;\n            if ((k >= posHashFirstNew) || (cnt >= 2))", "pass"),
    # KNOWN FALSE ALARM: hoisting a value into a new loop-invariant local changes the interface of the generated loop
    # helper (its fixed parameters), so the statement of Bridge.Draw.loop_eq no longer type-checks
    ("canClaimDrawRep: hash hoisted into a local (changes the loop helper's interface)", "Draw", SEARCH_H,
     "    for (int i = posHashListSize - 4; i >= stop; i -= 2) {\n        if (pos.zobristHash() == posHashList[i]) {",
     "    const U64 h = pos.zobristHash();\n    for (int i = posHashListSize - 4; i >= stop; i -= 2) {\n        if (h == posHashList[i]) {", "break"),
    # ---- Score (constants.hpp, search.cpp notifyPV slice) ---------------------------------------------------------
    ("notifyPV: (MATE0 - score + 1) / 2", "Score", SEARCH_C, "score = (MATE0 - score) / 2;", "score = (MATE0 - score + 1) / 2;", "break"),
    ("notifyPV: lose conversion without - 1", "Score", SEARCH_C, "score = -((MATE0 + score - 1) / 2);", "score = -((MATE0 + score) / 2);", "break"),
    ("notifyPV: isMate not set for lose scores", "Score", SEARCH_C, "    } else if (isLoseScore(score)) {\n        isMate = true;", "    } else if (isLoseScore(score)) {\n        isMate = false;", "break"),
    ("notifyPV: sign dropped", "Score", SEARCH_C, "score = -((MATE0 + score - 1) / 2);", "score = ((MATE0 + score - 1) / 2);", "break"),
    ("isLoseScore: <= ", "Score", CONST, "return score < -(MATE0 / 2); }", "return score <= -(MATE0 / 2); }", "break"),
    ("notifyPV: slice marker moved (tNow declared before)", "Score", SEARCH_C, "    bool isMate = false;\n    if (isWinScore(score)) {", "    S64 tNow0 = 0; (void)tNow0;\n    bool isMate = false;\n    if (isWinScore(score)) {", "pass"),
    ("notifyPV: two ifs instead of else-if, shift instead of /2", "Score", SEARCH_C,
     "    if (isWinScore(score)) {\n        isMate = true;\n        score = (MATE0 - score) / 2;\n    } else if (isLoseScore(score)) {\n        isMate = true;\n        score = -((MATE0 + score - 1) / 2);\n    }",
     "    const bool win = isWinScore(score), lose = isLoseScore(score);\n    isMate = win || lose;\n    if (win)\n        score = (MATE0 - score) / 2;\n    if (lose)\n        score = -((MATE0 - 1 + score) / 2);", "pass"),
    # ---- Time (enginecontrol.cpp computeTimeLimit slices, util.hpp clamp) -------------------------------------------
    ("computeTimeLimit: margin time * 8 / 10", "Time", ENGINE_C, "std::min(static_cast<int>(bufferTime), time * 9 / 10);", "std::min(static_cast<int>(bufferTime), time * 8 / 10);", "break"),
    ("computeTimeLimit: moves = 99 when movesToGo == 0", "Time", ENGINE_C, "                moves = 999;", "                moves = 99;", "break"),
    ("computeTimeLimit: inc * moves", "Time", ENGINE_C, "int timeLimit = (time + inc * (moves - 1) - margin) / moves;", "int timeLimit = (time + inc * moves - margin) / moves;", "break"),
    ("computeTimeLimit: margin not subtracted", "Time", ENGINE_C, "int timeLimit = (time + inc * (moves - 1) - margin) / moves;", "int timeLimit = (time + inc * (moves - 1)) / moves;", "break"),
    ("computeTimeLimit: colours swapped", "Time", ENGINE_C, "int time = white ? sPar.wTime : sPar.bTime;", "int time = white ? sPar.bTime : sPar.wTime;", "break"),
    ("computeTimeLimit: clamp lower bound 0", "Time", ENGINE_C, "minTimeLimit = clamp(minTimeLimit, 1, time - margin);", "minTimeLimit = clamp(minTimeLimit, 0, time - margin);", "break"),
    ("computeTimeLimit: max clamp ignores margin", "Time", ENGINE_C, "maxTimeLimit = clamp(maxTimeLimit, 1, time - margin);", "maxTimeLimit = clamp(maxTimeLimit, 1, time);", "break"),
    ("computeTimeLimit: max limit not clamped", "Time", ENGINE_C, "            maxTimeLimit = clamp(maxTimeLimit, 1, time - margin);\n", "", "break"),
    ("clamp: min/max swapped", "Time", UTIL_H, "    return std::min(std::max(val, min), max);", "    return std::max(std::min(val, min), max);", "break"),
    ("computeTimeLimit: max (not min) with timeMaxRemainingMoves", "Time", ENGINE_C, "moves = std::min(moves, static_cast<int>(timeMaxRemainingMoves));", "moves = std::max(moves, static_cast<int>(timeMaxRemainingMoves));", "break"),
    ("computeTimeLimit: ternary for 999, declarations reordered", "Time", ENGINE_C,
     "            int moves = sPar.movesToGo;\n            if (moves == 0)\n                moves = 999;\n            moves = std::min(moves, static_cast<int>(timeMaxRemainingMoves)); // Assume at most N more moves until end of game\n            bool white = pos.isWhiteMove();\n            int time = white ? sPar.wTime : sPar.bTime;\n            int inc  = white ? sPar.wInc : sPar.bInc;",
     "            int moves = (sPar.movesToGo == 0) ? 999 : sPar.movesToGo;\n            bool white = pos.isWhiteMove();\n            moves = std::min(static_cast<int>(timeMaxRemainingMoves), moves);\n            int inc  = white ? sPar.wInc : sPar.bInc;\n            int time = white ? sPar.wTime : sPar.bTime;", "pass"),
    ("clamp: written with comparisons", "Time", UTIL_H, "    return std::min(std::max(val, min), max);", "    T lo = val < min ? min : val;\n    return max < lo ? max : lo;", "pass"),
    # ---- Bits (bitBoard.hpp/.cpp de-Bruijn bit scans with const tables, piece.hpp enum arithmetic) ----------------
    ("firstBit: de-Bruijn constant changed", "Bits", BB_H, "0x07EDD5E59A4E28C2ULL", "0x07EDD5E59A4E28C3ULL", "break"),
    ("firstBit: mask & (mask - 1)", "Bits", BB_H, "((mask & -mask) * 0x07EDD5E59A4E28C2ULL)", "((mask & (mask - 1)) * 0x07EDD5E59A4E28C2ULL)", "break"),
    ("firstBit: >> 57", "Bits", BB_H, "0x07EDD5E59A4E28C2ULL) >> 58)];", "0x07EDD5E59A4E28C2ULL) >> 57)];", "break"),
    ("trailingZ: two table entries swapped", "Bits", BB_C, "    63,  0, 58,  1, 59, 47, 53,  2,", "    63,  0, 58,  1, 59, 53, 47,  2,", "break"),
    ("lastBit: smear step >> 16 dropped", "Bits", BB_H, "    mask |= mask >> 16;\n", "", "break"),
    ("lastBit: smear step >> 3 instead of >> 4", "Bits", BB_H, "    mask |= mask >> 4;\n", "    mask |= mask >> 3;\n", "break"),   # 1+1+2+3+8+16+32 = 63 < 64: bit 0 of smear(2^63) stays clear
    ("lastBit: smear step >> 5 instead of >> 4", "Bits", BB_H, "    mask |= mask >> 4;\n", "    mask |= mask >> 5;\n", "break"),
    ("lastBitTable: entry changed", "Bits", BB_C, "   13, 18,  8, 12,  7,  6,  5, 63", "   13, 18,  8, 12,  7,  6,  5, 62", "break"),
    ("lastBitTable: one element fewer", "Bits", BB_C, "   13, 18,  8, 12,  7,  6,  5, 63\n};", "   13, 18,  8, 12,  7,  6,  5\n};", "break"),
    ("Piece: BKING = 8 (enum renumbered)", "Bits", PIECE_H, "      WPAWN = 6,\n\n      BKING = 7,", "      WPAWN = 6,\n\n      BKING = 8,", "break"),
    ("Piece::isWhite: <=", "Bits", PIECE_H, "    return pType < BKING;", "    return pType <= BKING;", "break"),
    ("Piece::makeBlack: EMPTY mapped too", "Bits", PIECE_H, "return ((pType > EMPTY) && (pType < BKING)) ?", "return ((pType >= EMPTY) && (pType < BKING)) ?", "break"),
    ("lastBit: x |= y as x = x | y, parameter renamed", "Bits", BB_H,
     "    mask |= mask >> 1;\n    mask |= mask >> 2;", "    mask = mask | (mask >> 1);\n    mask = (mask >> 2) | mask;", "pass"),
    ("Piece enumerators without explicit values", "Bits", PIECE_H,
     "      EMPTY = 0,\n      WKING = 1,\n      WQUEEN = 2,\n      WROOK = 3,", "      EMPTY,\n      WKING,\n      WQUEEN,\n      WROOK = 3,", "pass"),
    # ---- TB (evaluate.cpp swindleScore, tbprobe.cpp rule50Margin) and Book (polyglot.cpp unpacking) ---------------
    ("rule50Margin: 99 - hmc", "TB", TBPROBE_C, "int margin = (100 - hmc) - (SearchConst::MATE0 - 1 - abs(dtmScore) - ply);", "int margin = (99 - hmc) - (SearchConst::MATE0 - 1 - abs(dtmScore) - ply);", "break"),
    ("rule50Margin: ply added instead of subtracted", "TB", TBPROBE_C, "- abs(dtmScore) - ply);", "- abs(dtmScore) + ply);", "break"),
    ("rule50Margin: abs dropped", "TB", TBPROBE_C, "SearchConst::MATE0 - 1 - abs(dtmScore) - ply);", "SearchConst::MATE0 - 1 - dtmScore - ply);", "break"),
    ("swindleScore: min with minFrustrated (35 reachable)", "TB", EVAL_C, "score = std::min(score, minFrustrated - 1);", "score = std::min(score, minFrustrated);", "break"),
    ("swindleScore: lg - 4", "TB", EVAL_C, "score = (lg - 3) * 4 + (score >> (lg - 2));", "score = (lg - 4) * 4 + (score >> (lg - 2));", "break"),
    ("swindleScore: far branch max with maxFrustrated + 2", "TB", EVAL_C, "std::max(maxFrustrated + 1 - std::abs(distToWin), minFrustrated);", "std::max(maxFrustrated + 2 - std::abs(distToWin), minFrustrated);", "break"),
    ("swindleScore: sign of near branch flipped", "TB", EVAL_C, "int sgn = evalScore >= 0 ? 1 : -1;", "int sgn = evalScore >= 0 ? -1 : 1;", "break"),
    ("lastBit table entry changed (seen through swindleScore)", "TB", BB_C, "   13, 18,  8, 12,  7,  6,  5, 63", "   13, 18,  8, 12,  7,  6,  5, 62", "break"),
    ("swindleScore: +4 as +3+1, locals renamed", "TB", EVAL_C,
     "        int score = std::abs(evalScore) + 4;\n        int lg = BitUtil::lastBit(score);\n        score = (lg - 3) * 4 + (score >> (lg - 2));\n        score = std::min(score, minFrustrated - 1);\n        return sgn * score;",
     "        int v = std::abs(evalScore) + 3 + 1;\n        int msb = BitUtil::lastBit(v);\n        v = (msb - 3) * 4 + (v >> (msb - 2));\n        v = std::min(v, minFrustrated - 1);\n        return sgn * v;", "pass"),
    ("polyglot getMove: to-row mask 3", "Book", PG_C, "int toRow = (move >> 3) & 7;", "int toRow = (move >> 3) & 3;", "break"),
    ("polyglot getMove: from-file shift 5", "Book", PG_C, "int fromFile = (move >> 6) & 7;", "int fromFile = (move >> 5) & 7;", "break"),
    ("polyglot getMove: file/row swapped", "Book", PG_C, "    int toFile = move & 7;\n    int toRow = (move >> 3) & 7;", "    int toFile = (move >> 3) & 7;\n    int toRow = move & 7;", "break"),
    ("polyglot getMove: hex masks, declarations reordered", "Book", PG_C,
     "    int toFile = move & 7;\n    int toRow = (move >> 3) & 7;\n    int fromFile = (move >> 6) & 7;\n    int fromRow = (move >> 9) & 7;\n    int prom = (move >> 12) & 7;",
     "    int toFile = move & 0x7;\n    int fromFile = (move >> 6) & 0x7;\n    int toRow = (move >> 3) & 0x7;\n    int prom = (move >> 12) & 0x7;\n    int fromRow = (move >> 9) & 0x7;", "pass"),
    # ---- SearchGuards (C04): guards / clamps / terminal scores of negaScout and quiesce ---------------------------
    ("negaScout: null-move win clamp disabled (m1)", "SearchGuards", SEARCH_C, "                if (isWinScore(score))\n                    score = beta;\n                return logAndReturn(score, TType::T_GE);", "                if (false && isWinScore(score))\n                    score = beta;\n                return logAndReturn(score, TType::T_GE);", "break"),
    ("negaScout: LMP without !isLoseScore(bestScore) (m2)", "SearchGuards", SEARCH_C, "if (normalBound && !isLoseScore(bestScore) && (mi >= lmpMoveCountLimit))", "if (normalBound && (mi >= lmpMoveCountLimit))", "break"),
    ("negaScout: normalBound forced true (m3)", "SearchGuards", SEARCH_C, "const bool normalBound = !isLoseScore(alpha) && !isWinScore(beta);", "const bool normalBound = true;", "break"),
    ("negaScout: null move entered with win beta (m4)", "SearchGuards", SEARCH_C, "sti.allowNullMove && !isWinScore(beta) &&", "sti.allowNullMove &&", "break"),
    ("negaScout: null move clamps to beta + 1", "SearchGuards", SEARCH_C, "                if (isWinScore(score))\n                    score = beta;", "                if (isWinScore(score))\n                    score = beta + 1;", "break"),
    ("negaScout: null-move result returned as exact", "SearchGuards", SEARCH_C, "                    score = beta;\n                return logAndReturn(score, TType::T_GE);", "                    score = beta;\n                return logAndReturn(score, TType::T_EXACT);", "break"),
    ("negaScout: null move while in check", "SearchGuards", SEARCH_C, "if ((depth >= 3) && !inCheck && sti.allowNullMove", "if ((depth >= 3) && sti.allowNullMove", "break"),
    ("negaScout: razoring while in check", "SearchGuards", SEARCH_C, "if (normalBound && !inCheck && (depth < 4) && (beta == alpha + 1) && !singularSearch) {", "if (normalBound && (depth < 4) && (beta == alpha + 1) && !singularSearch) {", "break"),
    ("negaScout: razoring returns a lower bound", "SearchGuards", SEARCH_C, "                evalScore = q0Eval;\n                return logAndReturn(score, TType::T_LE);", "                evalScore = q0Eval;\n                return logAndReturn(score, TType::T_GE);", "break"),
    ("negaScout: reverse futility returns eval + margin", "SearchGuards", SEARCH_C, "return logAndReturn(evalScore - margin, TType::T_GE);", "return logAndReturn(evalScore + margin, TType::T_GE);", "break"),
    ("negaScout: futility score eval - margin", "SearchGuards", SEARCH_C, "futilityScore = evalScore + margin;", "futilityScore = evalScore - margin;", "break"),
    ("negaScout: pruning before a legal move was found", "SearchGuards", SEARCH_C, "if ((pass == 0) && mayReduce && haveLegalMoves && !givesCheck && !passedPawnPush(pos, m)) {", "if ((pass == 0) && mayReduce && !givesCheck && !passedPawnPush(pos, m)) {", "break"),
    ("negaScout: mated score off by one", "SearchGuards", SEARCH_C, "const int illegalScore = -(MATE0-(ply+1));", "const int illegalScore = -(MATE0-ply);", "break"),
    ("negaScout: mate-distance bound MATE0-ply-2", "SearchGuards", SEARCH_C, "beta = std::min(beta, MATE0-ply-1);", "beta = std::min(beta, MATE0-ply-3);", "break"),
    ("negaScout: mate-distance cut returns beta", "SearchGuards", SEARCH_C, "    if (alpha >= beta)\n        return alpha;\n\n    if (logFile.isOpened()) {", "    if (alpha >= beta)\n        return beta;\n\n    if (logFile.isOpened()) {", "break"),
    ("negaScout: fail-high override on win scores", "SearchGuards", SEARCH_C, "(ent.getScore(ply) < score) && isLoseScore(ent.getScore(ply))) {", "(ent.getScore(ply) < score) && isWinScore(ent.getScore(ply))) {", "break"),
    ("negaScout: fail-high override accepts lower-bound entries", "SearchGuards", SEARCH_C, "if ((ent.getType() == TType::T_EXACT || ent.getType() == TType::T_LE) &&\n                        (ent.getScore(ply) < score)", "if ((ent.getType() == TType::T_EXACT || ent.getType() == TType::T_GE) &&\n                        (ent.getScore(ply) < score)", "break"),
    ("negaScout: fail-low override accepts upper-bound entries", "SearchGuards", SEARCH_C, "if ((ent.getType() == TType::T_EXACT || ent.getType() == TType::T_GE) &&\n                (ent.getScore(ply) > alpha)", "if ((ent.getType() == TType::T_EXACT || ent.getType() == TType::T_LE) &&\n                (ent.getScore(ply) > alpha)", "break"),
    ("negaScout: fail-low override returned as upper bound", "SearchGuards", SEARCH_C, "            hashMove.setScore(bestScore);\n            tType = TType::T_GE;", "            hashMove.setScore(bestScore);\n            tType = TType::T_LE;", "break"),
    ("negaScout: stalemate score 1", "SearchGuards", SEARCH_C, "return logAndReturn(0, TType::T_EXACT); // Stale-mate", "return logAndReturn(1 - MATE0 / 2 - 2, TType::T_EXACT); // Stale-mate", "break"),
    ("negaScout: singular search from mate scores", "SearchGuards", SEARCH_C, "(!isWinScore(std::abs(ent.getScore(ply))) || !normalBound) &&", "(!isWinScore(ent.getScore(ply)) || !normalBound) &&", "break"),
    ("quiesce: in-check score off by one", "SearchGuards", SEARCH_C, "    if (inCheck) {\n        score = -(MATE0 - (ply+1));\n    } else {\n        if ((depth == 0) && (q0Eval != UNKNOWN_SCORE)) {\n            score = q0Eval;\n        } else {\n            score = eval.evalPos();\n            if (depth == 0)\n                q0Eval = score;\n        }\n    }\n    if (depth == 0)\n        sampler", "    if (inCheck) {\n        score = -(MATE0 - ply);\n    } else {\n        if ((depth == 0) && (q0Eval != UNKNOWN_SCORE)) {\n            score = q0Eval;\n        } else {\n            score = eval.evalPos();\n            if (depth == 0)\n                q0Eval = score;\n        }\n    }\n    if (depth == 0)\n        sampler", "break"),
    ("quiesce: evasions skipped from depth -1", "SearchGuards", SEARCH_C, Q_LOOP, Q_LOOP.replace("if (depth < -6 && mi >= 2)", "if (depth < 0 && mi >= 2)"), "break"),
    ("quiesce: in-check passed down to depth -8", "SearchGuards", SEARCH_C, Q_LOOP, Q_LOOP.replace("const bool nextInCheck = (depth - 1) > -2 ? givesCheck : false;", "const bool nextInCheck = (depth - 1) > -9 ? givesCheck : false;"), "break"),
    # harmless rewrites
    ("negaScout: normalBound by De Morgan", "SearchGuards", SEARCH_C, "const bool normalBound = !isLoseScore(alpha) && !isWinScore(beta);", "const bool normalBound = !(isWinScore(beta) || isLoseScore(alpha));", "pass"),
    ("negaScout: LMP condition reordered", "SearchGuards", SEARCH_C, "if (normalBound && !isLoseScore(bestScore) && (mi >= lmpMoveCountLimit))", "if ((mi >= lmpMoveCountLimit) && !isLoseScore(bestScore) && normalBound)", "pass"),
    ("negaScout: LMP limit compared with >", "SearchGuards", SEARCH_C, "if (normalBound && !isLoseScore(bestScore) && (mi >= lmpMoveCountLimit))", "if (normalBound && !isLoseScore(bestScore) && (mi + 1 > lmpMoveCountLimit))", "pass"),
    ("negaScout: null-move entry condition reordered, depth limit 4", "SearchGuards", SEARCH_C, "    if ((depth >= 3) && !inCheck && sti.allowNullMove && !isWinScore(beta) &&\n            !singularSearch && (beta == alpha + 1)) {", "    if (!isWinScore(beta) && !singularSearch && (beta == alpha + 1) && (depth >= 4) &&\n            sti.allowNullMove && !inCheck) {", "pass"),
    ("negaScout: null-move clamp as a ternary", "SearchGuards", SEARCH_C, "                if (isWinScore(score))\n                    score = beta;\n                return logAndReturn(score, TType::T_GE);", "                score = isWinScore(score) ? beta : score;\n                return logAndReturn(score, TType::T_GE);", "pass"),
    ("negaScout: another local called score declared earlier", "SearchGuards", SEARCH_C, "    // Mate distance pruning\n    beta = std::min(beta, MATE0-ply-1);", "    { int score = 0; int margin = score; (void)margin; }\n    // Mate distance pruning\n    beta = std::min(beta, MATE0-ply-1);", "pass"),
    ("negaScout: razoring depth limit 3, margins swapped", "SearchGuards", SEARCH_C, "if (normalBound && !inCheck && (depth < 4) && (beta == alpha + 1) && !singularSearch) {", "if (!singularSearch && normalBound && !inCheck && (depth < 3) && (beta == alpha + 1)) {", "pass"),
    ("quiesce: skip limit -8", "SearchGuards", SEARCH_C, Q_LOOP, Q_LOOP.replace("if (depth < -6 && mi >= 2)", "if (depth < -8 && mi >= 3)"), "pass"),
]


def run_case(c, verbose=True):
    name, module, rel, old, new, expect = c
    path = os.path.join(vlib.REPO, rel)
    src = open(path).read()
    if src.count(old) != 1:
        return {"name": name, "result": "SKIP", "why": f"pattern occurs {src.count(old)} times in {rel}"}
    t0 = time.time()
    try:
        with open(path, "w") as f:
            f.write(src.replace(old, new))
        r = xlate.regenerate(None, [module])
    finally:
        with open(path, "w") as f:
            f.write(src)
    m = r.modules[module]
    got = "pass" if r.ok else "break"
    detail = ""
    if not r.ok:
        detail = ("translator: " + (m["translate_error"] or "")[:200]) if not m["translated"] else \
                 ("Bridge: " + ", ".join(t.split(".")[-1] for t in m["failed_theorems"]))
    return {"name": name, "module": module, "expect": expect, "got": got, "result": "OK" if got == expect else "UNEXPECTED",
            "detail": detail, "wall_s": round(time.time() - t0, 1)}


def main():
    if os.path.abspath(vlib.REPO) == "/repo":
        print("refusing to mutate /repo; set VERIF_REPO to a private worktree"); return 2
    sel = sys.argv[1:]
    cases = [c for c in CASES if not sel or any(s in c[0] or s == c[1] for s in sel)]
    base = xlate.regenerate(None, sorted({c[1] for c in cases}))
    print(f"baseline: {'ok' if base.ok else 'BROKEN ' + str(base.failed())}")
    bad = 0 if base.ok else 1
    out = []
    for c in cases:
        r = run_case(c)
        out.append(r)
        print(f"{r['result']:10s} {r.get('expect', ''):5s} {r.get('wall_s', '')!s:5s} {r['name']}   {r.get('detail', r.get('why', ''))}", flush=True)
        if r["result"] != "OK":
            bad += 1
    base = xlate.regenerate(None, sorted({c[1] for c in cases}))
    print(f"after restore: {'ok' if base.ok else 'BROKEN'};  {len(out) - bad}/{len(out)} as expected")
    json.dump(out, open(os.path.join(vlib.BUILD, "xlate", "selftest.json"), "w"), indent=1)
    return 1 if bad else 0


if __name__ == "__main__":
    sys.exit(main())
