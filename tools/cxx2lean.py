#!/usr/bin/env python3
"""cxx2lean — regenerate Lean 4 definitions of small pure C++ kernels from the CURRENT source tree.

    tools/cxx2lean.py --repo /repo --kernels tools/kernels.json --out lean/TexelVerif/Generated [--modules TT,Score]

For every kernel of `kernels.json` the real translation unit is parsed by clang
(`clang++-14 -std=c++11 -fsyntax-only -Xclang -ast-dump=json -Xclang -ast-dump-filter=<simple name>`), the typed AST of
the function body is walked and a Lean `def` is emitted into `Generated/<Module>.lean`.  Everything outside the
supported subset raises `Fail` — the caller reports a broken tie; nothing is ever skipped silently.

Semantics (the translator's trusted assumptions are spelled out in notes/xlate.md):
  * unsigned N-bit types  -> `BitVec N`, wrapping arithmetic, unsigned comparison / division
  * signed types          -> `Int` (mathematical).  Every signed +,-,*,/,%,<<,unary-,++,-- node is listed in the
                             `OBLIGATIONS` comment of the generated def: the Bridge theorem's range hypotheses are
                             the conditions under which C's fixed-width arithmetic does not overflow there.
                             Narrowing conversions (explicit or implicit, taken from clang's cast nodes) wrap
                             two's-complement (gcc/clang behaviour): `(BitVec.ofInt n x).toInt`.
  * bool                  -> `Bool`;  `&&`,`||`,`!` -> `&&`,`||`,`!` (operands are side-effect free in the subset)
  * receiver              -> explicit structure argument `self : <Class>` with exactly the fields the kernels touch;
                             `void` mutators return the updated structure
  * loops                 -> structurally recursive helper on a `Nat` fuel; a kernel with a loop takes `(fuel : Nat)` first
                             and returns `Option R` (`none` = fuel exhausted), so the Bridge theorem must prove
                             termination within the stated fuel
  * calls on opaque const objects (`pos.getHalfMoveClock()`) and `std::vector` reads -> explicit parameters
    (`pos_getHalfMoveClock : Int`, `posHashList : Nat → BitVec 64`)
"""
import concurrent.futures, hashlib, json, os, re, subprocess, sys

CLANG = os.environ.get("CXX2LEAN_CLANG", "clang++-14")
CXXFILT = "llvm-cxxfilt-14"
VERSION = "1"          # bump to invalidate caches


class Fail(Exception):
    """Construct outside the supported subset (or an unresolvable reference): the tie is broken."""


# -------------------------------------------------------------------------------------------------
# source tree, clang front end
# -------------------------------------------------------------------------------------------------

def src_files(repo):
    res = []
    for top in ("lib", "app"):
        for root, _, files in os.walk(os.path.join(repo, top)):
            for f in files:
                if f.endswith((".hpp", ".cpp", ".h", ".c", ".hh", ".cc")):
                    res.append(os.path.join(root, f))
    return sorted(res)


def blob_hashes(repo, paths):
    """git blob hash of the working-tree content of each path (same value `git hash-object` prints)."""
    out = {}
    for p in paths:
        data = open(p, "rb").read()
        out[p] = hashlib.sha1(b"blob %d\0" % len(data) + data).hexdigest()
    return out


def tree_hash(repo):
    hs = blob_hashes(repo, src_files(repo))
    h = hashlib.sha1()
    for p in sorted(hs):
        h.update(os.path.relpath(p, repo).encode() + b"\0" + hs[p].encode() + b"\n")
    return h.hexdigest()


def include_flags(repo):
    dirs = []
    for top in ("lib/texellib", "lib/texelutillib", "app/texel", "app/texelutil"):
        for root, ds, _ in os.walk(os.path.join(repo, top)):
            dirs.append(root)
    return [f"-I{d}" for d in sorted(dirs)]


class Front:
    """clang JSON AST dumps, one per (translation unit, simple name), cached on disk by source-tree hash."""

    def __init__(self, repo, cachedir=None):
        self.repo = os.path.abspath(repo)
        self.cachedir = cachedir
        self.th = tree_hash(self.repo)
        self.mem = {}
        self.inc = include_flags(self.repo)
        self.runs = 0
        self.asked = set()      # every (translation unit, filter) requested so far

    def _raw(self, tu, flt):
        key = hashlib.sha1(f"{VERSION}|{self.th}|{tu}|{flt}".encode()).hexdigest()
        cp = os.path.join(self.cachedir, "ast", key + ".json") if self.cachedir else None
        if cp and os.path.exists(cp):
            return open(cp).read()
        cmd = [CLANG, "-std=c++11", "-DTEXEL_VERIF", "-fsyntax-only", "-x", "c++", "-Xclang", "-ast-dump=json",
               "-Xclang", f"-ast-dump-filter={flt}"] + self.inc + [os.path.join(self.repo, tu)]
        p = subprocess.run(cmd, stdout=subprocess.PIPE, stderr=subprocess.PIPE, text=True)
        self.runs += 1
        if p.returncode != 0:
            raise Fail(f"clang failed on {tu} (the working tree does not compile?):\n{p.stderr[-1500:]}")
        if cp:
            os.makedirs(os.path.dirname(cp), exist_ok=True)
            with open(cp + ".tmp", "w") as f:
                f.write(p.stdout)
            os.replace(cp + ".tmp", cp)
        return p.stdout

    def prefetch(self, pairs):
        pairs = [p for p in set(pairs) if p not in self.mem]
        with concurrent.futures.ThreadPoolExecutor(max_workers=6) as ex:
            for (tu, flt), raw in zip(pairs, ex.map(lambda p: self._raw(*p), pairs)):
                self.mem[(tu, flt)] = self._parse(raw)

    def decls(self, tu, flt):
        self.asked.add((tu, flt))
        if (tu, flt) not in self.mem:
            self.mem[(tu, flt)] = self._parse(self._raw(tu, flt))
        return self.mem[(tu, flt)]

    def _parse(self, raw):
        dec = json.JSONDecoder()
        i, objs, n = 0, [], len(raw)
        while True:
            while i < n and raw[i] in " \n\r\t":
                i += 1
            if i >= n:
                break
            o, i = dec.raw_decode(raw, i)
            objs.append(o)
        st = {"file": None, "line": None}
        for o in objs:
            annotate(o, st, self.repo)
        nodes = [x for o in objs for x in walk(o) if "mangledName" in x]
        names = sorted({x["mangledName"] for x in nodes})
        if names:
            p = subprocess.run([CXXFILT], input="\n".join(names) + "\n", stdout=subprocess.PIPE, text=True)
            dm = dict(zip(names, p.stdout.split("\n")))
            for x in nodes:
                x["_dm"] = dm.get(x["mangledName"], "")
        return objs


def annotate(n, st, repo):
    """clang elides `file` / `line` when unchanged from the previously printed location: resolve them in print order."""
    if isinstance(n, list):
        for x in n:
            annotate(x, st, repo)
        return
    if not isinstance(n, dict):
        return

    def loc(l):
        if not isinstance(l, dict):
            return
        for sub in ("spellingLoc", "expansionLoc"):
            if sub in l:
                loc(l[sub])
        if "file" in l:
            st["file"] = l["file"]
        if "line" in l:
            st["line"] = l["line"]
        if "col" in l:
            st["col"] = l["col"]

    for k, v in list(n.items()):
        if k == "loc":
            loc(v)
            n["_file"], n["_line"] = st["file"], st["line"]
        elif k == "range":
            loc(v.get("begin"))
            n["_pos"] = (st["file"], st["line"], st.get("col"))
            loc(v.get("end"))
        elif k == "inner":
            annotate(v, st, repo)


def pos_of(n):
    p = n.get("_pos")
    if not p or not p[0]:
        return "?"
    return f"{os.path.basename(p[0])}:{p[1]}:{p[2]}"


# -------------------------------------------------------------------------------------------------
# types
# -------------------------------------------------------------------------------------------------

INT_TYPES = {
    "bool": ("bool",),
    "unsigned long": ("u", 64), "unsigned long long": ("u", 64), "size_t": ("u", 64), "std::size_t": ("u", 64),
    "U64": ("u", 64), "uint64_t": ("u", 64), "size_type": ("u", 64),
    "unsigned int": ("u", 32), "unsigned": ("u", 32), "U32": ("u", 32), "uint32_t": ("u", 32),
    "unsigned short": ("u", 16), "U16": ("u", 16), "uint16_t": ("u", 16),
    "unsigned char": ("u", 8), "U8": ("u", 8), "uint8_t": ("u", 8),
    "long": ("s", 64), "long long": ("s", 64), "S64": ("s", 64), "int64_t": ("s", 64), "ptrdiff_t": ("s", 64),
    "int": ("s", 32), "S32": ("s", 32), "int32_t": ("s", 32),
    "short": ("s", 16), "S16": ("s", 16), "int16_t": ("s", 16),
    "signed char": ("s", 8), "S8": ("s", 8), "int8_t": ("s", 8), "char": ("s", 8),
    "void": ("void",),
}


def norm_q(q):
    q = re.sub(r"\b(const|volatile)\b", " ", q)
    q = q.replace("&", " ").strip()
    return re.sub(r"\s+", " ", q)


def ctype_q(q):
    q = norm_q(q)
    if q in INT_TYPES:
        return INT_TYPES[q]
    m = re.match(r"^(?:std::)?vector<(.+?)(?:, ?(?:std::)?allocator<.*>)?>$", q)
    if m:
        return ("vec", ctype_q(m.group(1)))
    if q.endswith("*"):
        return ("ptr", q)
    if q.startswith("double") or q.startswith("float") or q == "long double":
        raise Fail(f"floating-point type `{q}` is outside the supported subset")
    return ("class", q)


def ctype(t):
    """C type of a clang `type` object."""
    if "desugaredQualType" in t:
        try:
            r = ctype_q(t["desugaredQualType"])
            if r[0] != "class":
                return r
        except Fail:
            raise
    return ctype_q(t["qualType"])


def is_int(t):
    return t[0] in ("u", "s", "bool")


def lean_ty(t, classes=None):
    if t[0] == "u":
        return f"BitVec {t[1]}"
    if t[0] == "s":
        return "Int"
    if t[0] == "bool":
        return "Bool"
    if t[0] == "vec":
        return f"(Nat → {lean_ty(t[1])})"
    if t[0] == "class":
        return struct_name(t[1])
    if t[0] == "tuple":
        return "(" + " × ".join(lean_ty(x) for x in t[1]) + ")"
    raise Fail(f"type {t} has no Lean counterpart")


def struct_name(cls):
    return cls.split("::")[-1]


LEAN_RESERVED = set("""fuel self from to at end then else if do fun match with in let have show by open def instance mut for
where namespace section variable theorem example structure class inductive deriving import return none some true false
default Type Prop Sort Nat Int Bool BitVec min max abs""".split())


def lean_ident(name):
    name = re.sub(r"[^A-Za-z0-9_]", "_", name)
    if name in LEAN_RESERVED or not re.match(r"[A-Za-z_]", name):
        name = name + "_"
    return name


def ind(text, n=2):
    pad = " " * n
    return "\n".join(pad + l if l else l for l in text.split("\n"))


# -------------------------------------------------------------------------------------------------
# declaration lookup
# -------------------------------------------------------------------------------------------------

def has_body(o):
    return any(c.get("kind") == "CompoundStmt" for c in o.get("inner", []))


def qual_of(o):
    """Qualified name from the demangled symbol (functions: text before the parameter list)."""
    dm = o.get("_dm", "")
    if not dm:
        return None
    depth, cut = 0, len(dm)
    for i, ch in enumerate(dm):
        if ch == "<":
            depth += 1
        elif ch == ">":
            depth -= 1
        elif ch == "(" and depth == 0:
            cut = i
            break
    return dm[:cut].strip()


class Module:
    """All kernels of one generated Lean module."""

    def __init__(self, name, front, entries):
        self.name, self.front, self.entries = name, front, entries
        self.defs = {}           # key -> Def
        self.order = []          # emission order (callees first)
        self.classes = {}        # class qualified name -> {field: ctype}
        self.lean_names = {}     # lean name -> key
        self.sources = set()
        self.in_progress = []
        self.enums = {}
        self.extra_tus = sorted({t for e in entries for t in e.get("extra_tus", [])})
        self.tables = {}         # lean name -> text of the table definition

    # ---- lookup -------------------------------------------------------------------------------
    def candidates(self, tu, simple):
        """Every declaration named `simple` that clang printed for the filter `simple`, including declarations nested in
        a printed parent (locals without linkage have no mangled name and are skipped: they are resolved by id)."""
        res = []
        for o in self.front.decls(tu, simple):
            if o.get("name") == simple:
                res.append(o)
            for x in walk(o):
                if x is not o and x.get("name") == simple and "mangledName" in x and x.get("kind") in ("FunctionDecl", "CXXMethodDecl", "VarDecl"):
                    res.append(x)
        return res

    def find_qualified(self, tu, qualified, signature=None, want_body=True, targs=None):
        simple = qualified.split("::")[-1]
        if targs:
            # an instantiation of a member function template: clang demangles it as `<ret> Class::name<args>(params)`
            cands = [o for o in self.candidates(tu, simple) if (qual_of(o) or "").split(" ")[-1] == qualified + targs and has_body(o)]
        else:
            cands = [o for o in self.candidates(tu, simple) if qual_of(o) == qualified]
        if signature:
            cands = [o for o in cands if o.get("type", {}).get("qualType") == signature]
        groups = {}
        for o in cands:
            groups.setdefault(o["mangledName"], []).append(o)
        if not groups:
            raise Fail(f"`{qualified}`" + (f" with signature `{signature}`" if signature else "") + f" not found in {tu}")
        if len(groups) > 1:
            raise Fail(f"`{qualified}` is ambiguous in {tu}: " + ", ".join(sorted(o[0]['_dm'] for o in groups.values())) + " — give a signature")
        return self.pick(list(groups.values())[0], qualified, want_body)

    def pick(self, group, what, want_body=True):
        k = group[0]["kind"]
        if k in ("FunctionDecl", "CXXMethodDecl"):
            d = [o for o in group if has_body(o)]
            if not d:
                raise Fail(f"no definition (body) of `{what}` visible in this translation unit")
            return d[0]
        if k == "VarDecl":
            d = [o for o in group if "init" in o]
            if not d:
                # the definition may live in another translation unit (a static member table defined in a .cpp): the
                # mangled name is the linker's identity of the object (ODR), so a definition found there is the one used
                for tu in self.extra_tus:
                    for o in self.candidates(tu, group[0]["name"]):
                        if o.get("mangledName") == group[0].get("mangledName") and "init" in o:
                            return o
                raise Fail(f"no initialiser of `{what}` visible in this translation unit" +
                           (f" nor in {self.extra_tus}" if self.extra_tus else " (list the defining .cpp under \"extra_tus\")"))
            return d[0]
        raise Fail(f"`{what}` is a {k}: unsupported")

    def resolve_bare(self, tu, ref, at):
        """Resolve a DeclRefExpr to a non-local entity.  Sound because (simple name, kind, type) is required to be
        unique among ALL declarations of the translation unit."""
        simple, kind, qt = ref["name"], ref["kind"], ref.get("type", {}).get("qualType")
        cands = [o for o in self.candidates(tu, simple) if o.get("kind") == kind and o.get("type", {}).get("qualType") == qt]
        if kind == "FunctionDecl":   # function template instantiations are printed inside the template
            for t in self.front.decls(tu, simple):
                if t.get("kind") == "FunctionTemplateDecl" and t.get("name") == simple:
                    for c in t.get("inner", []):
                        if c.get("kind") == "FunctionDecl" and c.get("type", {}).get("qualType") == qt and has_body(c):
                            c.setdefault("mangledName", "tmpl:" + simple + ":" + qt)
                            c.setdefault("_dm", simple)
                            cands.append(c)
        groups = {}
        for o in cands:
            groups.setdefault(o.get("mangledName", "?"), []).append(o)
        if not groups:
            raise Fail(f"{at}: reference to `{simple}` ({kind} {qt}): no such declaration found in {tu}")
        if len(groups) > 1:
            raise Fail(f"{at}: reference to `{simple}` ({kind} {qt}) is ambiguous: " + ", ".join(sorted(g[0].get('_dm', '?') for g in groups.values())))
        return self.pick(list(groups.values())[0], simple)

    def resolve_member(self, tu, cls, name, nargs, at):
        cands = [o for o in self.candidates(tu, name) if o.get("kind") == "CXXMethodDecl" and qual_of(o) == f"{cls}::{name}"]
        cands = [o for o in cands if len([c for c in o.get("inner", []) if c.get("kind") == "ParmVarDecl"]) == nargs]
        groups = {}
        for o in cands:
            groups.setdefault(o["mangledName"], []).append(o)
        if not groups:
            raise Fail(f"{at}: member function `{cls}::{name}` with {nargs} parameter(s) not found in {tu}")
        if len(groups) > 1:
            raise Fail(f"{at}: call of overloaded `{cls}::{name}` cannot be resolved by arity")
        return self.pick(list(groups.values())[0], f"{cls}::{name}")

    def enum_decl(self, tu, q):
        """The EnumDecl whose qualified name is `q` (clang prints it for the filter `q`), or None."""
        key = (tu, q)
        if key not in self.enums:
            found = []
            if re.match(r"^[A-Za-z_][A-Za-z_0-9:]*$", q):
                for o in self.front.decls(tu, q):
                    for x in walk(o):
                        if x.get("kind") == "EnumDecl" and x.get("name") == q.split("::")[-1]:
                            found.append(x)
            self.enums[key] = found[0] if len(found) == 1 else None
        return self.enums[key]

    def enum_type(self, tu, q):
        d = self.enum_decl(tu, q)
        if d is None:
            return None
        if "fixedUnderlyingType" in d:
            return ctype(d["fixedUnderlyingType"])
        vals = self.enum_values(d)
        if all(-(1 << 31) <= v < (1 << 31) for v in vals.values()):
            return ("s", 32)
        raise Fail(f"enumeration `{q}` does not fit `int`")

    def enum_values(self, d):
        vals, nxt = {}, 0
        for c in d.get("inner", []):
            if c.get("kind") != "EnumConstantDecl":
                continue
            v = None
            for x in walk(c):
                if x.get("kind") == "ConstantExpr" and "value" in x:
                    v = int(x["value"]); break
            if v is None:
                if any(isinstance(x, dict) and x.get("kind") for x in c.get("inner", [])):
                    raise Fail(f"enumerator `{c.get('name')}` has an initialiser clang did not evaluate")
                v = nxt
            vals[c["name"]] = v
            nxt = v + 1
        return vals

    def enum_constant(self, tu, ref, at):
        q = norm_q(ref["type"]["qualType"])
        d = self.enum_decl(tu, q)
        if d is None:
            raise Fail(f"{at}: enumeration `{q}` of `{ref['name']}` cannot be located uniquely")
        vals = self.enum_values(d)
        if ref["name"] not in vals:
            raise Fail(f"{at}: `{ref['name']}` is not an enumerator of `{q}`")
        if d.get("_file"):
            self.sources.add(d["_file"])
        return vals[ref["name"]], q

    # ---- translation --------------------------------------------------------------------------
    def fresh_lean_name(self, want, key, cls=None):
        for cand in [want, f"{struct_name(cls)}_{want}" if cls else None] + [f"{want}_{i}" for i in range(2, 9)]:
            if cand and self.lean_names.get(cand, key) == key:
                self.lean_names[cand] = key
                return cand
        raise Fail(f"cannot find a Lean name for {key}")

    def need_function(self, tu, decl, want_name=None, slice_=None, opts=None):
        key = decl["mangledName"] + ("#" + want_name if slice_ else "")
        if slice_ and not want_name:
            raise Fail("a slice / site entry needs a lean_name")
        if key in self.defs:
            return self.defs[key]
        if key in self.in_progress:
            raise Fail(f"recursion through `{decl.get('_dm')}` is outside the supported subset")
        self.in_progress.append(key)
        q = qual_of(decl) or decl["name"]
        cls = "::".join(q.split("::")[:-1]) if decl["kind"] == "CXXMethodDecl" else None
        lname = self.fresh_lean_name(lean_ident(want_name or decl["name"]), key, cls)
        d = FnTr(self, tu, decl, lname, cls, slice_, opts or {}).run()
        self.in_progress.pop()
        self.defs[key] = d
        self.order.append(key)
        if decl.get("_file"):
            self.sources.add(decl["_file"])
        return d

    def run(self):
        # the dumps this module needed last time (helpers, constants, classes of locals) are fetched in parallel up front;
        # the list is only a hint: anything missing from it is fetched on demand, anything superfluous is ignored
        hint_p = os.path.join(self.front.cachedir, f"prefetch-{self.name}.json") if self.front.cachedir else None
        hints = []
        if hint_p and os.path.exists(hint_p):
            try:
                hints = [tuple(x) for x in json.load(open(hint_p)) if os.path.exists(os.path.join(self.front.repo, x[0]))]
            except (ValueError, TypeError, IndexError):
                hints = []
        asked0 = set(self.front.asked)
        try:
            self.front.prefetch([(e["file"], e["function"].split("::")[-1]) for e in self.entries] + hints)
        except Fail:
            if not hints:
                raise
            self.front.prefetch([(e["file"], e["function"].split("::")[-1]) for e in self.entries])
        done = False
        try:
            r = self.run_entries()
            done = True
            return r
        finally:
            if hint_p:
                new = (self.front.asked - asked0) | (set() if done else set(hints))
                os.makedirs(os.path.dirname(hint_p), exist_ok=True)
                with open(hint_p + ".tmp", "w") as f:
                    json.dump(sorted(new), f)
                os.replace(hint_p + ".tmp", hint_p)

    def run_entries(self):
        for e in self.entries:
            try:
                sl = e.get("slice") or ({"site": e["site"]} if "site" in e else None)
                insts = e.get("instantiations") or [e.get("template_args")]
                texts = []
                for ta in insts:
                    decl = self.find_qualified(e["file"], e["function"], e.get("signature"), targs=ta)
                    if ta is insts[0]:
                        d = self.need_function(e["file"], decl, e.get("lean_name"), sl, e)
                        texts.append(d.core)
                    else:
                        # every listed instantiation must give the same definition (the kernel does not depend on the
                        # template arguments); translated in a scratch module so that nothing is emitted twice
                        scratch = Module(self.name, self.front, [])
                        scratch.extra_tus = self.extra_tus
                        d2 = scratch.need_function(e["file"], decl, e.get("lean_name"), sl, e)
                        if d2.core != texts[0]:
                            raise Fail(f"instantiations {insts[0]} and {ta} translate to different definitions")
            except Fail as x:
                raise Fail(f"[{self.name}] {e['function']}" + (f" ({e['lean_name']})" if e.get("slice") or e.get("site") else "") + f": {x}") from None
        return self

    def emit(self, repo):
        srcs = sorted(self.sources | {os.path.join(self.front.repo, e["file"]) for e in self.entries})
        hs = blob_hashes(repo, srcs)
        out = ["/- GENERATED by tools/cxx2lean.py from the current C++ sources — DO NOT EDIT, DO NOT COMMIT.",
               f"   module  : {self.name}",
               "   sources : (path, git blob hash of the working-tree content)"]
        for p in srcs:
            out.append(f"     {os.path.relpath(p, repo)}  {hs[p]}")
        out.append("   kernels : " + ", ".join(e["function"] for e in self.entries))
        out.append("-/")
        if any("site" in e for e in self.entries):
            out.append("set_option linter.unusedVariables false   -- a site's parameters are the variables its text mentions")
        out.append(f"namespace Gen.{self.name}\n")
        for cls in sorted(self.classes):
            out.append(f"/-- receiver fields of `{cls}` touched by the kernels of this module -/")
            out.append(f"structure {struct_name(cls)} where")
            for f in sorted(self.classes[cls]):
                out.append(f"  {lean_ident(f)} : {lean_ty(self.classes[cls][f])}")
            out.append("")
        for t in sorted(self.tables):
            out.append(self.tables[t])
        for key in self.order:
            out.append(self.defs[key].text)
        out.append(f"end Gen.{self.name}")
        return "\n".join(out) + "\n"


class Def:
    def __init__(self, **kw):
        self.__dict__.update(kw)


# -------------------------------------------------------------------------------------------------
# function translator
# -------------------------------------------------------------------------------------------------

CALLMARK, FUELMARK = "\x00CALL\x00", "\x00FUEL\x00"
WRAPPERS = ("ParenExpr", "ExprWithCleanups", "MaterializeTemporaryExpr", "CXXBindTemporaryExpr", "ConstantExpr",
            "SubstNonTypeTemplateParmExpr")
CASTS = ("ImplicitCastExpr", "CStyleCastExpr", "CXXStaticCastExpr", "CXXFunctionalCastExpr")


def unwrap(n):
    while n["kind"] in WRAPPERS or (n["kind"] == "ImplicitCastExpr" and n.get("castKind") in ("NoOp", "LValueToRValue", "FunctionToPointerDecay")):
        n = n["inner"][-1] if n["kind"] == "SubstNonTypeTemplateParmExpr" else n["inner"][0]     # (parameter declaration, replacement)
    return n


def offset_of(n):
    b = (n.get("range") or {}).get("begin") or {}
    if "offset" in b:
        return b["offset"]
    for sub in ("expansionLoc", "spellingLoc"):
        if sub in b and "offset" in b[sub]:
            return b[sub]["offset"]
    return None


def walk(n):
    yield n
    for c in n.get("inner", []) or []:
        if isinstance(c, dict):
            yield from walk(c)


class FnTr:
    def __init__(self, mod, tu, decl, lname, cls, slice_, opts):
        self.mod, self.tu, self.decl, self.lname, self.cls, self.slice, self.opts = mod, tu, decl, lname, cls, slice_, opts
        self.vars = {}        # clang id -> (lean name, ctype)
        self.var_off = {}     # clang id -> source offset of the declaration (None for parameters)
        self.cname = {}       # clang id -> C++ name
        self.used_names = set()
        self.abstract = {}    # lean name -> lean type  (opaque observers, vectors) in first-use order
        self.oblig = []
        self.helpers = []     # texts of loop helpers (in dependency order)
        self.nloops = 0
        self.uses_self = False
        self.mut_self = False
        self.calls = []
        self.qualtype = decl["type"]["qualType"]
        self.is_static = decl.get("storageClass") == "static" or decl["kind"] == "FunctionDecl"
        self.is_const = bool(re.search(r"\)\s*const\b", self.qualtype))
        self.site = (slice_ or {}).get("site")     # a located `if` / assignment of a big function (see take_site)
        self.site_ret_t = None
        self.opaque = {}                            # source offset of an untranslatable call -> abstract parameter
        self.touched = set()                        # local objects possibly modified by statements a site skips

    def ct(self, t):
        """C type of a clang `type` object; enumeration types are their underlying integer type."""
        r = ctype(t)
        if r[0] == "class":
            e = self.mod.enum_type(self.tu, r[1])
            if e:
                return e
        return r

    # ---- variables ----------------------------------------------------------------------------
    def resolve_types(self, nodes):
        """Slices / sites of big functions: only the variables mentioned in the selected statements get a type (the
        others are never used; resolving e.g. `Move` or `UndoInfo` would cost one clang run each)."""
        used = {x["referencedDecl"]["id"] for st in nodes for x in walk(st) if x.get("kind") == "DeclRefExpr" and "referencedDecl" in x}
        used |= {x["id"] for st in nodes for x in walk(st) if x.get("kind") == "VarDecl"}
        for vid, (name, t) in list(self.vars.items()):
            if t[0] != "unresolved":
                continue
            if vid in used:
                try:
                    t2 = self.ct(t[1])
                except Fail:
                    t2 = ("unsupported", t[1]["qualType"])
            else:
                t2 = ("unsupported", t[1]["qualType"])
            self.vars[vid] = (name, t2)

    def declare(self, v, lazy=False):
        name = lean_ident(v["name"]) if v.get("name") else "_anon"
        base, i = name, 2
        while name in self.used_names:
            name = f"{base}_{i}"; i += 1
        self.used_names.add(name)
        if lazy:
            t = ("unresolved", v["type"])                   # resolved by resolve_types() for the variables a slice mentions
        else:
            try:
                t = self.ct(v["type"])
            except Fail:
                t = ("unsupported", v["type"]["qualType"])      # fails loudly where (if) the variable is used
        self.vars[v["id"]] = (name, t)
        self.cname[v["id"]] = v.get("name")
        self.var_off[v["id"]] = None if v.get("kind") == "ParmVarDecl" else offset_of(v)
        return name, t

    def add_abstract(self, name, lty, own=False):
        if name in self.abstract:
            if self.abstract[name] != lty:
                raise Fail(f"abstract parameter {name} used at two types")
        else:
            if name in self.used_names and not own:
                raise Fail(f"abstract parameter name {name} clashes with a variable")
            self.used_names.add(name)
            self.abstract[name] = lty
        return name

    # ---- entry --------------------------------------------------------------------------------
    def run(self):
        decl = self.decl
        params = [c for c in decl["inner"] if c["kind"] == "ParmVarDecl"]
        body = [c for c in decl["inner"] if c["kind"] == "CompoundStmt"][0]
        self.used_names |= {"self", "fuel", "fuel0"}
        rq = self.qualtype.split("(")[0].strip()
        # return type: from the FunctionDecl's own type string (desugar common aliases through INT_TYPES)
        self.ret_t = ctype_q(rq)
        plist = []
        for p in params:
            n, t = self.declare(p)
            plist.append((n, t, p))
        for v in walk(body):
            if v.get("kind") == "VarDecl":
                self.declare(v, lazy=bool(self.slice))
        stmts = body.get("inner", [])
        self.has_loop = any(x.get("kind") in ("WhileStmt", "ForStmt", "DoStmt") for x in walk(body))
        outputs = None
        site_expr = None
        if self.site:
            stmts, outputs, site_expr = self.take_site(stmts)
            self.resolve_types(stmts if site_expr is None else [site_expr])
            outputs = self.output_ids(outputs, stmts) if outputs is not None else None
            self.has_loop = any(x.get("kind") in ("WhileStmt", "ForStmt", "DoStmt") for s in stmts for x in walk(s))
        elif self.slice:
            stmts, outputs = self.take_slice(stmts)
            self.resolve_types(stmts)
            self.has_loop = any(x.get("kind") in ("WhileStmt", "ForStmt", "DoStmt") for s in stmts for x in walk(s))
        # final continuation
        if outputs is not None:
            onames = ["self" if i == "self" else self.vars[i][0] for i in outputs]
            otypes = [("class", self.cls) if i == "self" else self.vars[i][1] for i in outputs]
            if "self" in onames:
                self.uses_self = True
            self.ret_t = ("tuple", otypes) if len(outputs) > 1 else otypes[0]
            self.fall = "(" + ", ".join(onames) + ")" if len(outputs) > 1 else onames[0]
        elif self.site:
            self.fall = None                      # `cond` / `then_return`: no fall-through value
            self.ret_t = ("bool",)
        elif self.ret_t[0] == "void":
            self.fall = "self"
        else:
            self.fall = None
        self.void = self.ret_t[0] == "void"
        ktext = self.ret(self.fall) if self.fall is not None else "MISSING_RETURN"
        if site_expr is not None:
            self.ret_t = ("bool",)
            self.void = False
            text = self.cond(site_expr)
        else:
            text = self.seq(stmts, ktext, {}).replace(FUELMARK, "fuel")
            if self.site and self.site.get("part") == "then_return":
                if self.site_ret_t is None:
                    raise Fail("site part `then_return`: the branch contains no return statement")
                self.ret_t = self.site_ret_t
        self.helpers = [h.replace(FUELMARK, "fuel0") for h in self.helpers]
        for obj in sorted(self.touched):
            bad = [a for a in self.abstract if a.startswith(obj + "_")]
            if bad:
                raise Fail(f"the site reads `{bad[0]}` but also contains a statement that may modify the object `{obj}`")
        if "MISSING_RETURN" in text or any("MISSING_RETURN" in h for h in self.helpers):
            raise Fail("control can reach the end of a non-void function")
        if self.mut_self and not self.void and not (self.slice and "self" in (self.site or self.slice).get("outputs", [])):
            raise Fail("the receiver is modified but not returned (non-void mutating member function, or a slice without `self` among its outputs)")
        if self.mut_self and any(self.param_is_struct(t) for n, t, p in plist):
            raise Fail("the receiver is modified and another object of a translated class is passed by reference (possible aliasing)")
        # parameters
        ps = []
        if self.has_loop:
            ps.append("(fuel : Nat)")
        if self.void:
            self.uses_self = True
        if self.uses_self:
            if not self.cls:
                raise Fail("`this` used outside a member function")
            self.mod.classes.setdefault(self.cls, {})
            ps.append(f"(self : {struct_name(self.cls)})")
        if self.slice:
            free = self.free_vars(text)
            before = {n for vid, (n, t) in self.vars.items() if self.var_off.get(vid) is None or self.var_off[vid] < self.slice_off}
            pl = [(n, lt) for n, lt in self.canon_params() if n in free and (n in before or n in self.abstract)]
            if self.site:
                # `score_4` (fourth local called `score` of the big function) -> `score` when that is unambiguous in this
                # definition: the parameter names must not depend on unrelated declarations elsewhere in the function
                pl, text = self.clean_names(pl, text)
            ps += [f"({n} : {lt})" for n, lt in pl]
        else:
            pnames = {n for n, t, p in plist}
            ps += [f"({n} : {lt})" for n, lt in self.canon_params() if n in pnames or n in self.abstract]
        if self.void:
            rt = struct_name(self.cls)
        else:
            rt = lean_ty(self.ret_t)
        if self.has_loop:
            rt = f"Option {rt}" if " " not in rt else f"Option ({rt})"
        self.params_text = " ".join(ps)
        self.rt_text = rt
        hdr = [f"/-- `{qual_of(decl) or decl['name']}` : `{self.qualtype}`  ({os.path.basename(decl.get('_file') or '?')}:{decl.get('_line')})"]
        if self.site:
            hdr.append(f"    SITE {json.dumps(self.site)}  (found at {self.site_pos})")
        elif self.slice:
            hdr.append(f"    SLICE {json.dumps(self.slice)}")
        if self.oblig:
            self.oblig.sort(key=lambda o: [int(x) if x.isdigit() else x for x in re.split(r"[: ]", o)[:3]])
            hdr.append("    OBLIGATIONS (C semantics assumed at these nodes; discharged by the range hypotheses of the Bridge theorem):")
            for o in self.oblig:
                hdr.append("      " + o)
        hdr[-1] += " -/"
        out = "\n".join(self.helpers)
        out += "\n".join(hdr) + f"\ndef {self.lname} {self.params_text} : {rt} :=\n{ind(text)}\n"
        return Def(text=out, core="\n".join(self.helpers) + f"def {self.lname} {self.params_text} : {rt} :=\n{ind(text)}\n", lname=self.lname, cls=self.cls, void=self.void, has_loop=self.has_loop,
                   uses_self=self.uses_self, abstract=dict(self.abstract), is_const=self.is_const, nparams=len(plist),
                   ret_t=self.ret_t, plist=[(n, t) for n, t, _ in plist])

    def param_is_struct(self, t):
        # a class-typed parameter is a structure iff it is the class of some kernel's receiver (e.g. `other`)
        return t[0] == "class" and (t[1] == self.cls or (self.cls and t[1] == self.cls.split("::")[-1]) or self.canon_class(t[1]) in self.mod.classes)

    def canon_params(self):
        """[(lean name, lean type)] of everything that can become a Lean parameter, in canonical order: C++ declaration
        order; an opaque object is replaced by its observers (sorted by name), a vector by itself and its `_size`."""
        out, taken = [], set()
        for vid, (n, t) in self.vars.items():
            if t[0] == "class" and not self.param_is_struct(t):
                for a in sorted(x for x in self.abstract if x.startswith(n + "_")):
                    out.append((a, self.abstract[a])); taken.add(a)
            elif t[0] == "vec":
                for a in (n, n + "_size"):
                    if a in self.abstract:
                        out.append((a, self.abstract[a])); taken.add(a)
            elif is_int(t) or t[0] == "class":
                out.append((n, self.param_ty(t, n)))
        for a in sorted(self.abstract):
            if a not in taken:
                out.append((a, self.abstract[a]))
        return out

    def canon_class(self, q):
        if self.cls and (q == self.cls or self.cls.endswith("::" + q)):
            return self.cls
        for c in self.mod.classes:
            if c == q or c.endswith("::" + q):
                return c
        return q

    def param_ty(self, t, n):
        if t[0] == "class":
            return struct_name(self.canon_class(t[1]))
        return lean_ty(t)

    def free_vars(self, text):
        ids = set(re.findall(r"[A-Za-z_][A-Za-z_0-9']*", text))
        return ids

    def ret(self, e):
        return f"some ({e})" if self.has_loop else e

    def take_slice(self, stmts):
        """Statement range `[from, until)` inside one statement list of the body (any nesting depth).
        from : {"from_decl": v} the statement declaring v | {"from_call": f [, "call_type": qualType]} the first
               innermost statement calling f (at that instantiation type)
        until: {"until_decl": v} the first later statement of the same list that declares v (at any depth inside it)
               | {"until_end": true} the end of that list | {"count": n} exactly n statements"""
        s = self.slice

        def declares(st, name, deep):
            nodes = walk(st) if deep else [st]
            return any(x.get("kind") == "DeclStmt" and any(v.get("name") == name and v.get("kind") == "VarDecl" for v in x.get("inner", [])) for x in nodes)

        def calls(st, name):
            for x in walk(st):
                if x.get("kind") == "CallExpr":
                    c = unwrap(x["inner"][0])
                    if c.get("kind") == "DeclRefExpr" and c["referencedDecl"].get("name") == name and \
                            s.get("call_type", c["referencedDecl"]["type"]["qualType"]) == c["referencedDecl"]["type"]["qualType"]:
                        return True
            return False

        lists = []      # (depth, list)

        def collect(n, depth):
            if n.get("kind") == "CompoundStmt":
                lists.append((depth, n.get("inner", [])))
            for c in n.get("inner", []) or []:
                if isinstance(c, dict) and c:
                    collect(c, depth + 1)
        collect({"kind": "CompoundStmt", "inner": stmts}, 0)
        found = []
        for depth, lst in lists:
            for i, st in enumerate(lst):
                if "from_decl" in s and declares(st, s["from_decl"], False):
                    found.append((depth, lst, i))
                elif "from_call" in s and calls(st, s["from_call"]):
                    found.append((depth, lst, i))
                    break
        if "from_call" in s and found:
            dmax = max(f[0] for f in found)
            found = [f for f in found if f[0] == dmax]
        if len(found) != 1:
            raise Fail(f"slice start marker {json.dumps({k: v for k, v in s.items() if k.startswith('from')})} matches {len(found)} statements (need exactly 1)")
        _, lst, i0 = found[0]
        if s.get("until_end"):
            i1 = len(lst)
        elif "count" in s:
            i1 = i0 + int(s["count"])
            if i1 > len(lst):
                raise Fail("slice `count` exceeds the block")
        else:
            ends = [i for i in range(i0 + 1, len(lst)) if declares(lst[i], s["until_decl"], True)]
            if not ends:
                raise Fail(f"slice end marker `{s['until_decl']}` not found after the start marker in the same block")
            i1 = ends[0]
        sel = lst[i0:i1]
        self.slice_off = offset_of(sel[0])
        if self.slice_off is None:
            raise Fail("slice starts inside a macro expansion")
        outs = []
        for name in s["outputs"]:
            if name == "self":
                outs.append("self")
                continue
            ids = [vid for vid, (n, t) in self.vars.items() if n == lean_ident(name)]
            if len(ids) != 1:
                raise Fail(f"slice output `{name}` is not a unique variable")
            outs.append(ids[0])
        for st in sel:
            if any(x.get("kind") == "ReturnStmt" for x in walk(st)):
                raise Fail("slice contains a return statement")
        return sel, outs


    # ---- sites: a located `if` statement (or assignment) of a big function ----------------------------------------
    @staticmethod
    def idents(node):
        """Names mentioned in a subtree: referenced variables / functions / enumerators, member names, callees."""
        out = set()
        for x in walk(node):
            k = x.get("kind")
            if k == "DeclRefExpr" and "referencedDecl" in x:
                out.add(x["referencedDecl"].get("name"))
            elif k == "MemberExpr":
                out.add(x.get("name"))
        return out

    def take_site(self, stmts):
        """{"site": {...}} — translate one guarded site of a big function as a Lean definition over its free variables.
        locator (exactly one statement of the function body, at any depth, must match; 0 or >1 -> Fail):
          if_mentions / if_not_mentions     names that must (not) occur in the condition of the `if`
          then_mentions / then_not_mentions names that must (not) occur in its then-branch
          or  assigns: v, mentions / not_mentions   the assignment statement `v = e` / `v op= e` whose text mentions ...
        part:
          "cond"          the condition, as Bool                                        (default)
          "conjunct"      the unique top-level `&&`-conjunct of the condition mentioning `conjunct_mentions`
          "then" | "else" | "whole"   that branch / the whole `if` as a function to the variables listed in `outputs`
          "then_return"   the then-branch as a function to the value it returns; with `return_call: f` every return must
                          be `return f(a, b, ..)` (a local lambda that post-processes the result) and the value is the
                          tuple of its arguments
        Returns (statements, output names | None, condition node | None)."""
        st = self.site
        known = {"if_mentions", "if_not_mentions", "then_mentions", "then_not_mentions", "assigns", "mentions", "not_mentions",
                 "part", "conjunct_mentions", "outputs", "return_call"}
        if set(st) - known:
            raise Fail(f"site: unknown keys {sorted(set(st) - known)}")
        body = {"kind": "CompoundStmt", "inner": stmts}
        found, seen = [], set()
        if "assigns" in st:
            for x in walk(body):
                if x.get("kind") != "CompoundStmt":
                    continue
                for c in x.get("inner", []):
                    e = unwrap(c) if c.get("kind") in WRAPPERS else c
                    if not (e.get("kind") == "CompoundAssignOperator" or (e.get("kind") == "BinaryOperator" and e.get("opcode") == "=")):
                        continue
                    l = unwrap(e["inner"][0])
                    if l.get("kind") != "DeclRefExpr" or l["referencedDecl"].get("name") != st["assigns"]:
                        continue
                    ids = self.idents(e)
                    if set(st.get("mentions", [])) <= ids and not (set(st.get("not_mentions", [])) & ids) and offset_of(c) not in seen:
                        seen.add(offset_of(c))
                        found.append(c)
            what = {k: st[k] for k in ("assigns", "mentions", "not_mentions") if k in st}
        else:
            if not st.get("if_mentions"):
                raise Fail("site: `if_mentions` (or `assigns`) is required")
            for x in walk(body):
                if x.get("kind") != "IfStmt" or x.get("hasInit") or x.get("hasVar"):
                    continue
                ci = self.idents(x["inner"][0])
                ti = self.idents(x["inner"][1])
                if set(st["if_mentions"]) <= ci and not (set(st.get("if_not_mentions", [])) & ci) and \
                        set(st.get("then_mentions", [])) <= ti and not (set(st.get("then_not_mentions", [])) & ti) and offset_of(x) not in seen:
                    seen.add(offset_of(x))      # (a lambda body is printed twice by clang)
                    found.append(x)
            what = {k: st[k] for k in ("if_mentions", "if_not_mentions", "then_mentions", "then_not_mentions") if k in st}
        if len(found) != 1:
            raise Fail(f"site locator {json.dumps(what)} matches {len(found)} statements (need exactly 1)" +
                       ("".join(f"; {pos_of(f)}" for f in found[:4])))
        node = found[0]
        self.slice_off = offset_of(node)
        self.site_pos = pos_of(node)
        if self.slice_off is None:
            raise Fail("site starts inside a macro expansion")
        if "assigns" in st:
            return [node], [st["assigns"]], None
        part = st.get("part", "cond")
        if part == "cond":
            return [], None, node["inner"][0]
        if part == "conjunct":
            want = set(st.get("conjunct_mentions", []))
            if not want:
                raise Fail("site part `conjunct` needs `conjunct_mentions`")
            cj = []

            def flat(n):
                u = n
                while u["kind"] in WRAPPERS:
                    u = u["inner"][0]
                if u["kind"] == "BinaryOperator" and u.get("opcode") == "&&":
                    flat(u["inner"][0]); flat(u["inner"][1])
                else:
                    cj.append(n)
            flat(node["inner"][0])
            sel = [c for c in cj if want <= self.idents(c)]
            if len(sel) != 1:
                raise Fail(f"site: {len(sel)} of the {len(cj)} conjuncts of the condition at {pos_of(node)} mention {sorted(want)} (need exactly 1)")
            return [], None, sel[0]
        if part in ("then", "else", "whole"):
            if not st.get("outputs"):
                raise Fail(f"site part `{part}` needs `outputs`")
            if part == "whole":
                sel = [node]
            else:
                if part == "else" and len(node["inner"]) < 3:
                    raise Fail(f"site: the `if` at {pos_of(node)} has no else-branch")
                sel = self.block(node["inner"][1 if part == "then" else 2])
            if any(x.get("kind") == "ReturnStmt" for s_ in sel for x in walk(s_)):
                raise Fail(f"site part `{part}` contains a return statement (use `then_return`)")
            return sel, list(st["outputs"]), None
        if part == "then_return":
            return self.block(node["inner"][1]), None, None
        raise Fail(f"site: unknown part `{part}`")

    def output_ids(self, names, region):
        """Variables of the region named (in C++) as listed; several locals of a big function may share a name, the one
        meant is the one the region mentions."""
        used = {x["referencedDecl"]["id"] for s_ in region for x in walk(s_) if x.get("kind") == "DeclRefExpr" and "referencedDecl" in x}
        used |= {x["id"] for s_ in region for x in walk(s_) if x.get("kind") == "VarDecl"}
        outs = []
        for name in names:
            if name == "self":
                outs.append("self")
                continue
            ids = [vid for vid in self.vars if self.cname.get(vid) == name and vid in used]
            if len(ids) != 1:
                raise Fail(f"site output `{name}`: {len(ids)} variables of that name are mentioned in the selected statements")
            outs.append(ids[0])
        return outs

    def clean_names(self, pl, text):
        taken = {n for n, _ in pl} | set(re.findall(r"[A-Za-z_][A-Za-z_0-9']*", text))
        ren = {}
        for vid, (n, t) in self.vars.items():
            base = lean_ident(self.cname.get(vid) or "")
            if not base or n == base or not re.fullmatch(re.escape(base) + r"_\d+", n):
                continue
            if n in taken and base not in taken and base not in ren.values():
                ren[n] = base
            for a in self.abstract:          # observers of the object: `sti_2_allowNullMove` -> `sti_allowNullMove`
                new = base + a[len(n):]
                if a.startswith(n + "_") and a in taken and new not in taken and new not in ren.values():
                    ren[a] = new
        if not ren:
            return pl, text
        pat = re.compile(r"(?<![A-Za-z_0-9'.])(" + "|".join(re.escape(k) for k in sorted(ren, key=len, reverse=True)) + r")(?![A-Za-z_0-9'])")
        text = pat.sub(lambda m: ren[m.group(1)], text)
        return [(ren.get(n, n), lt) for n, lt in pl], text

    def site_return(self, s):
        """`return f(a, b)` through the local lambda named by `return_call` -> the tuple (a, b); else the returned value."""
        inner = s.get("inner", [])
        if not inner:
            raise Fail(f"{pos_of(s)}: `return;` inside a site")
        rc = self.site.get("return_call")
        e = unwrap(inner[0])
        while e["kind"] in CASTS and e.get("castKind") in ("NoOp", "LValueToRValue"):
            e = unwrap(e["inner"][0])
        if rc:
            ok = e["kind"] == "CXXOperatorCallExpr" and len(e["inner"]) >= 2
            if ok:
                obj = unwrap(e["inner"][1])
                while obj["kind"] in CASTS and obj.get("castKind") == "NoOp":
                    obj = unwrap(obj["inner"][0])
                ok = obj["kind"] == "DeclRefExpr" and obj["referencedDecl"].get("name") == rc and obj["referencedDecl"]["id"] in self.vars
            if not ok:
                raise Fail(f"{pos_of(s)}: return inside the site is not of the form `return {rc}(..)`")
            args = e["inner"][2:]
            ts = [self.ct(a["type"]) for a in args]
            if not all(is_int(t) for t in ts):
                raise Fail(f"{pos_of(s)}: non-integral argument of `{rc}`")
            rt = ("tuple", ts) if len(ts) > 1 else ts[0]
            val = "(" + ", ".join(self.conv_to(a, t) for a, t in zip(args, ts)) + ")"
        else:
            rt = self.ct(inner[0]["type"])
            if not is_int(rt):
                raise Fail(f"{pos_of(s)}: non-integral return value inside a site")
            val = self.conv_to(inner[0], rt)
        if self.site_ret_t not in (None, rt):
            raise Fail(f"{pos_of(s)}: the returns of the site have different types")
        self.site_ret_t = rt
        return self.ret(val)

    # ---- statements ---------------------------------------------------------------------------
    def assigned(self, nodes):
        """Lean names of variables (incl. `self`) assigned inside the given statements."""
        res = []

        def tgt(l):
            l = unwrap(l)
            if l["kind"] == "DeclRefExpr":
                rid = l["referencedDecl"]["id"]
                if rid in self.vars:
                    return self.vars[rid][0]
                raise Fail(f"{pos_of(l)}: assignment to non-local `{l['referencedDecl'].get('name')}`")
            if l["kind"] == "MemberExpr":
                b = unwrap(l["inner"][0])
                if b["kind"] == "CXXThisExpr":
                    return "self"
                if b["kind"] == "DeclRefExpr" and b["referencedDecl"]["id"] in self.vars:
                    return self.vars[b["referencedDecl"]["id"]][0]
            raise Fail(f"{pos_of(l)}: unsupported assignment target ({l['kind']})")
        for st in nodes:
            for x in walk(st):
                k = x.get("kind")
                if k == "CompoundAssignOperator" or (k == "BinaryOperator" and x.get("opcode") == "="):
                    res.append(tgt(x["inner"][0]))
                elif k == "UnaryOperator" and x.get("opcode") in ("++", "--"):
                    res.append(tgt(x["inner"][0]))
                elif k == "CXXMemberCallExpr":
                    cal = x["inner"][0]
                    if cal.get("kind") == "MemberExpr" and unwrap(cal["inner"][0])["kind"] == "CXXThisExpr":
                        bt = unwrap(cal["inner"][0])["type"]["qualType"]
                        if not bt.startswith("const ") and x["type"]["qualType"] == "void":
                            res.append("self")
        out = []
        for r in res:
            if r not in out:
                out.append(r)
        return out

    def declared_in(self, nodes):
        return {self.vars[x["id"]][0] for st in nodes for x in walk(st) if x.get("kind") == "VarDecl"}

    def block(self, n):
        if n is None:
            return []
        return n.get("inner", []) if n["kind"] == "CompoundStmt" else [n]

    def var_type_text(self, name):
        if name == "self":
            return struct_name(self.cls)
        for vid, (n, t) in self.vars.items():
            if n == name:
                return self.param_ty(t, n)
        raise Fail(f"internal: unknown variable {name}")

    def seq(self, stmts, k, ctx):
        """Lean text for executing `stmts` and then continuing with the (already translated) text `k`."""
        if not stmts:
            return k
        s, rest = stmts[0], stmts[1:]
        kind = s["kind"]
        if kind in ("ReturnStmt", "BreakStmt", "ContinueStmt"):
            pass      # the rest is dead code
        else:
            k = self.seq(rest, k, ctx)
        return self.stmt(s, k, ctx)

    def stmt(self, s, k, ctx):
        kind = s["kind"]
        if kind == "CompoundStmt":
            return self.seq(s.get("inner", []), k, ctx)
        if kind == "NullStmt":
            return k
        if kind == "DeclStmt":
            out = k
            for v in reversed(s.get("inner", [])):
                if v["kind"] in ("UsingDirectiveDecl", "UsingDecl", "TypedefDecl", "TypeAliasDecl", "StaticAssertDecl"):
                    continue
                if v["kind"] != "VarDecl":
                    raise Fail(f"{pos_of(s)}: declaration of kind {v['kind']} is unsupported")
                name, t = self.vars[v["id"]]
                if not is_int(t):
                    raise Fail(f"{pos_of(s)}: local `{v['name']}` of non-integral type `{v['type']['qualType']}`")
                if v.get("storageClass") == "static":
                    raise Fail(f"{pos_of(s)}: static local `{v['name']}`")
                inits = [c for c in v.get("inner", []) if isinstance(c, dict) and "kind" in c]
                if not inits:
                    raise Fail(f"{pos_of(s)}: local `{v['name']}` declared without initialiser")
                e = self.conv_to(inits[0], t)
                out = f"let {name} : {lean_ty(t)} := {e}\n{out}"
            return out
        if kind == "ReturnStmt":
            inner = s.get("inner", [])
            if not inner and self.site:
                raise Fail(f"{pos_of(s)}: `return;` inside a site")
            if not inner:
                if not self.void:
                    raise Fail(f"{pos_of(s)}: `return;` in a non-void function")
                return self.ret("self")
            if self.site and self.site.get("part") == "then_return":
                return self.site_return(s)
            if self.slice:
                raise Fail("return inside a slice")
            return self.ret(self.conv_to(inner[0], self.ret_t))
        if kind == "IfStmt":
            return self.if_stmt(s, k, ctx)
        if kind in ("WhileStmt", "ForStmt"):
            return self.loop(s, k, ctx)
        if kind == "SwitchStmt":
            return self.switch(s, k, ctx)
        if kind == "BreakStmt":
            if "brk" not in ctx:
                raise Fail(f"{pos_of(s)}: break outside a loop")
            return ctx["brk"]
        if kind == "ContinueStmt":
            if "cont" not in ctx:
                raise Fail(f"{pos_of(s)}: continue outside a loop")
            return ctx["cont"]
        # expression statements
        e = unwrap(s) if kind in WRAPPERS else s
        kind = e["kind"]
        if kind == "CompoundAssignOperator" or (kind == "BinaryOperator" and e.get("opcode") == "="):
            return self.assign(e, k)
        if kind == "UnaryOperator" and e.get("opcode") in ("++", "--"):
            lhs = e["inner"][0]
            t = self.ct(lhs["type"])
            one = {"kind": "IntegerLiteral", "value": "1", "type": lhs["type"], "_pos": e.get("_pos")}
            fake = {"kind": "BinaryOperator", "opcode": "+" if e["opcode"] == "++" else "-", "type": lhs["type"], "_pos": e.get("_pos"),
                    "inner": [{"kind": "ImplicitCastExpr", "castKind": "LValueToRValue", "type": lhs["type"], "inner": [lhs]}, one]}
            if t[0] == "s" and t[1] < 32:
                raise Fail(f"{pos_of(e)}: ++/-- on a sub-int signed type")
            return self.store(lhs, self.expr(fake), k)
        if self.site and kind in ("CXXMemberCallExpr", "CXXOperatorCallExpr", "CallExpr") and self.opaque_effect(e):
            return k
        if kind == "CXXMemberCallExpr":
            return self.call_stmt(e, k)
        raise Fail(f"{pos_of(s)}: statement of kind {s['kind']} is outside the supported subset")

    def store(self, lhs, rhs_text, k):
        l = unwrap(lhs)
        if l["kind"] == "DeclRefExpr":
            rid = l["referencedDecl"]["id"]
            if rid not in self.vars:
                raise Fail(f"{pos_of(l)}: assignment to non-local `{l['referencedDecl'].get('name')}`")
            name, t = self.vars[rid]
            if not is_int(t):
                raise Fail(f"{pos_of(l)}: assignment to `{name}` of non-integral type")
            return f"let {name} : {lean_ty(t)} := {rhs_text}\n{k}"
        if l["kind"] == "MemberExpr":
            b = unwrap(l["inner"][0])
            if b["kind"] == "CXXThisExpr":
                self.field(self.cls, l)
                self.uses_self = True
                self.mut_self = True
                return f"let self : {struct_name(self.cls)} := {{ self with {lean_ident(l['name'])} := {rhs_text} }}\n{k}"
        raise Fail(f"{pos_of(l)}: unsupported assignment target ({l['kind']})")

    def assign(self, e, k):
        lhs, rhs = e["inner"]
        if self.site:
            l = unwrap(lhs)
            if l["kind"] == "DeclRefExpr" and l["referencedDecl"]["id"] in self.vars and self.vars[l["referencedDecl"]["id"]][0] not in self.free_vars(k):
                return k          # the value is not used by what the site computes (`evalScore = q0Eval` before a return)
        lt = self.ct(lhs["type"])
        if e["kind"] == "BinaryOperator":
            return self.store(lhs, self.conv_to(rhs, lt), k)
        op = e["opcode"][:-1]
        comp_t = e["computeLHSType"]
        res_t = e["computeResultType"]
        lval = {"kind": "ImplicitCastExpr", "castKind": "LValueToRValue", "type": lhs["type"], "inner": [lhs]}
        if self.ct(comp_t) != lt:
            lval = {"kind": "ImplicitCastExpr", "castKind": "IntegralCast", "type": comp_t, "inner": [lval], "_pos": e.get("_pos")}
        fake = {"kind": "BinaryOperator", "opcode": op, "type": res_t, "inner": [lval, rhs], "_pos": e.get("_pos")}
        val = self.expr(fake)
        val = self.convert(self.ct(res_t), lt, val, e)
        return self.store(lhs, val, k)

    def byref_locals(self, args, at):
        """Integral locals handed to an opaque call as non-const lvalues (the call could write them): refused."""
        for a in args:
            u = a
            while u["kind"] in WRAPPERS or (u["kind"] in CASTS and u.get("castKind") == "NoOp"):
                u = u["inner"][0]
            if u["kind"] == "DeclRefExpr" and u.get("referencedDecl", {}).get("id") in self.vars:
                name, t = self.vars[u["referencedDecl"]["id"]]
                if is_int(t) and not a["type"]["qualType"].startswith("const "):
                    raise Fail(f"{at}: local `{name}` is passed to an opaque call as a non-const lvalue")

    def opaque_effect(self, e):
        """Site mode: an expression statement that is a call on / of something outside the model (`tt.insert(..)`,
        `emptyMove.setScore(..)`, `sti.bestMove = m`).  It cannot assign an integral local of the function unless that
        local is passed by non-const reference (checked) or captured by a lambda (calls of local lambdas are refused), so
        it is irrelevant for the values the site computes.  Calls on `this` itself are not skipped."""
        k = e["kind"]
        args = e["inner"][1:]
        if k == "CXXMemberCallExpr":
            cal = e["inner"][0]
            if cal.get("kind") != "MemberExpr" or unwrap(cal["inner"][0])["kind"] == "CXXThisExpr":
                return False
        elif k == "CXXOperatorCallExpr":
            obj = args[0]
            while obj["kind"] in WRAPPERS or (obj["kind"] in CASTS and obj.get("castKind") == "NoOp"):
                obj = obj["inner"][0]
            if "lambda" in obj.get("type", {}).get("qualType", ""):
                raise Fail(f"{pos_of(e)}: call of a local lambda as a statement inside a site")
            if obj["kind"] == "DeclRefExpr" and obj.get("referencedDecl", {}).get("id") in self.vars and is_int(self.vars[obj["referencedDecl"]["id"]][1]):
                return False
            args = args[1:]
        self.byref_locals(args, pos_of(e))
        # opaque local objects this statement may modify: their observers must not be parameters of the same site
        objs = list(args)
        if k == "CXXMemberCallExpr" and not e["inner"][0]["inner"][0]["type"]["qualType"].startswith("const "):
            objs.append(e["inner"][0]["inner"][0])
        elif k == "CXXOperatorCallExpr":
            objs.append(e["inner"][1])
        for a in objs:
            u = a
            while u["kind"] in WRAPPERS or (u["kind"] in CASTS and u.get("castKind") == "NoOp"):
                u = u["inner"][0]
            if u["kind"] == "DeclRefExpr" and u.get("referencedDecl", {}).get("id") in self.vars and not a["type"]["qualType"].startswith("const "):
                self.touched.add(self.vars[u["referencedDecl"]["id"]][0])
        return True

    def call_stmt(self, e, k):
        cal = e["inner"][0]
        base = unwrap(cal["inner"][0])
        if base["kind"] != "CXXThisExpr":
            raise Fail(f"{pos_of(e)}: call statement on an object other than `this`")
        d, args = self.member_call(e)
        if not d.void:
            raise Fail(f"{pos_of(e)}: value of non-void call discarded")
        self.uses_self = True
        self.mut_self = True
        return f"let self : {struct_name(self.cls)} := {d.lname} {' '.join(args)}\n{k}"

    def if_stmt(self, s, k, ctx):
        inner = [c for c in s["inner"]]
        if s.get("hasInit") or s.get("hasVar"):
            raise Fail(f"{pos_of(s)}: if with init/condition variable")
        c = self.cond(inner[0])
        th = self.block(inner[1])
        el = self.block(inner[2]) if len(inner) > 2 else []
        escapes = any(x.get("kind") in ("ReturnStmt", "WhileStmt", "ForStmt", "DoStmt", "BreakStmt", "ContinueStmt")
                      for st in th + el for x in walk(st))
        if escapes:
            a = self.seq(th, k, ctx)
            b = self.seq(el, k, ctx)
            return f"if {c} then\n{ind(a)}\nelse\n{ind(b)}"
        av = [v for v in self.assigned(th + el) if v not in self.declared_in(th + el)]
        order = {"self": -1}
        for i, (vid, (n, t)) in enumerate(self.vars.items()):
            order[n] = i
        av.sort(key=lambda v: order[v])       # canonical (declaration) order
        if not av:
            return k
        if len(av) == 1:
            v = av[0]
            a = self.seq(th, v, ctx)
            b = self.seq(el, v, ctx)
            return f"let {v} : {self.var_type_text(v)} := (\n  if {c} then\n{ind(a, 4)}\n  else\n{ind(b, 4)})\n{k}"
        tup = "(" + ", ".join(av) + ")"
        a = self.seq(th, tup, ctx)
        b = self.seq(el, tup, ctx)
        tty = " × ".join(self.var_type_text(v) for v in av)
        out = f"let r_ : {tty} := (\n  if {c} then\n{ind(a, 4)}\n  else\n{ind(b, 4)})\n"
        for i, v in enumerate(av):
            proj = "r_" + ".2" * i + (".1" if i < len(av) - 1 else "")
            out += f"let {v} : {self.var_type_text(v)} := {proj}\n"
        return out + k

    def switch(self, s, k, ctx):
        """`switch` without fall-through (every group of labels ends in `break`/`return`, or is the last one) as a chain of
        `if`s on `cond == label`; the condition is pure, so evaluating it once per comparison is the same value."""
        if s.get("hasInit") or s.get("hasVar") or len(s["inner"]) != 2:
            raise Fail(f"{pos_of(s)}: switch with init/condition variable")
        cond, body = s["inner"]
        if body.get("kind") != "CompoundStmt":
            raise Fail(f"{pos_of(s)}: switch body is not a block")
        groups = []      # [labels (None = default), stmts]
        for st in body.get("inner", []):
            labels = []
            while st.get("kind") in ("CaseStmt", "DefaultStmt"):
                if st["kind"] == "CaseStmt":
                    if len(st["inner"]) != 2:
                        raise Fail(f"{pos_of(st)}: case range")
                    labels.append(st["inner"][0])
                    st = st["inner"][1]
                else:
                    labels.append(None)
                    st = st["inner"][0]
            if labels:
                groups.append([labels, [st]])
            elif not groups:
                raise Fail(f"{pos_of(st)}: statement before the first case label")
            else:
                groups[-1][1].append(st)
        for gi, (labels, stmts) in enumerate(groups):
            last = stmts[-1] if stmts else {}
            if last.get("kind") == "BreakStmt":
                stmts.pop()
            elif last.get("kind") != "ReturnStmt" and gi != len(groups) - 1:
                raise Fail(f"{pos_of(last) if last else pos_of(s)}: fall-through between switch cases")
            if any(x.get("kind") in ("CaseStmt", "DefaultStmt") for st in stmts for x in walk(st)):
                raise Fail(f"{pos_of(s)}: case label nested inside a statement")
        dflt = [g for g in groups if None in g[0]]
        if len(dflt) > 1:
            raise Fail(f"{pos_of(s)}: two default labels")
        if dflt and any(l is not None for l in dflt[0][0]):
            raise Fail(f"{pos_of(s)}: `default` shares its statements with case labels")
        chain = {"kind": "CompoundStmt", "inner": dflt[0][1] if dflt else []}
        boolt = {"qualType": "bool"}
        for labels, stmts in reversed([g for g in groups if None not in g[0]]):
            tests = [{"kind": "BinaryOperator", "opcode": "==", "type": boolt, "inner": [cond, l], "_pos": l.get("_pos")} for l in labels]
            c = tests[0]
            for t in tests[1:]:
                c = {"kind": "BinaryOperator", "opcode": "||", "type": boolt, "inner": [c, t], "_pos": s.get("_pos")}
            chain = {"kind": "IfStmt", "inner": [c, {"kind": "CompoundStmt", "inner": stmts}, chain], "_pos": s.get("_pos")}
        ctx2 = dict(ctx)
        ctx2["brk"] = k          # a `break` nested in a case leaves the switch
        return self.stmt(chain, k, ctx2)

    def loop(self, s, k, ctx):
        if "cont" in ctx:
            raise Fail(f"{pos_of(s)}: nested loops are outside the supported subset")
        self.nloops += 1
        hname = f"{self.lname}.loop{self.nloops}"
        if s["kind"] == "WhileStmt":
            if len(s["inner"]) != 2:
                raise Fail(f"{pos_of(s)}: while with a condition variable")
            cond_n, body_n = s["inner"]
            init_n, inc_n = None, None
        else:
            init_n, condvar, cond_n, inc_n, body_n = s["inner"]
            if condvar:
                raise Fail(f"{pos_of(s)}: for with a condition variable")
            if not cond_n:
                raise Fail(f"{pos_of(s)}: for without a condition")
        body = self.block(body_n)
        inc = [inc_n] if inc_n else []
        init = [init_n] if init_n else []
        local = self.declared_in(body)
        carried = [v for v in self.assigned(body + inc) if v not in local]
        # canonical order (receiver first, then declaration order) so that reordering statements keeps the signature
        order = {"self": -1}
        for i, (vid, (n, t)) in enumerate(self.vars.items()):
            order[n] = i
        carried.sort(key=lambda v: order[v])
        # one iteration: body, increment, recursive call
        inc_text = self.seq(inc, CALLMARK, {})
        body_text = self.seq(body, inc_text, {"brk": k, "cont": inc_text})
        c = self.cond(cond_n)
        # variables in scope at the loop (declared before it, or in the for-init) that the helper mentions
        used = self.free_vars(c + " " + body_text + " " + k)
        loop_off = offset_of(s)
        if loop_off is None:
            raise Fail(f"{pos_of(s)}: loop inside a macro expansion")
        init_ids = {x["id"] for st in init for x in walk(st) if x.get("kind") == "VarDecl"}
        visible = set()
        for vid, (n, t) in self.vars.items():
            o = self.var_off.get(vid)
            if vid in init_ids or o is None or o < loop_off:
                visible.add(n)
        canon = [(n, lt) for n, lt in self.canon_params() if n in used and (n in visible or n in self.abstract)]
        if "self" in used:
            self.uses_self = True
            canon = [("self", struct_name(self.cls))] + canon
        for v in carried:
            if v not in [n for n, _ in canon]:
                raise Fail(f"{pos_of(s)}: internal: loop-carried variable {v} is not visible at the loop")
        fixedp = [(n, lt) for n, lt in canon if n not in carried]
        fixed = [n for n, _ in fixedp]
        fx = "".join(f" ({n} : {lt})" for n, lt in fixedp)
        rt = struct_name(self.cls) if self.void else lean_ty(self.ret_t)
        rt = f"Option {rt}" if " " not in rt else f"Option ({rt})"
        call = " ".join([hname, "fuel0"] + fixed + ["fuel"] + carried)
        body_text = body_text.replace(CALLMARK, call)
        pats = ", ".join(["fuel+1"] + carried)
        zero = ", ".join(["0"] + ["_"] * len(carried))
        tys = " → ".join(["Nat"] + [self.var_type_text(v) for v in carried] + [rt])
        h = (f"/-- loop at {pos_of(s)} of `{qual_of(self.decl) or self.decl['name']}`; the exit branch continues with the rest of the function -/\n"
             f"def {hname} (fuel0 : Nat){fx} : {tys}\n"
             f"  | {zero} => none\n"
             f"  | {pats} =>\n"
             f"    if {c} then\n{ind(body_text, 6)}\n    else\n{ind(k, 6)}\n")
        self.helpers.append(h.replace(FUELMARK, "fuel0"))
        start = " ".join([hname, FUELMARK] + fixed + [FUELMARK] + carried)
        return self.seq(init, start, {})

    # ---- expressions --------------------------------------------------------------------------
    def cond(self, n):
        """Boolean condition (clang inserts IntegralToBoolean where needed)."""
        t = self.ct(n["type"])
        e = self.expr(n)
        if t[0] == "bool":
            return e
        return self.convert(t, ("bool",), e, n)

    def conv_to(self, n, dst):
        return self.convert(self.ct(n["type"]), dst, self.expr(n), n)

    def convert(self, src, dst, e, n):
        if src == dst:
            return e
        if not (is_int(src) and is_int(dst)):
            if src[0] == "class" and dst[0] == "class":
                return e
            raise Fail(f"{pos_of(n)}: conversion {src} -> {dst} is outside the supported subset")
        if dst[0] == "bool":
            return f"({e} != 0)" if src[0] == "s" else f"({e} != 0#{src[1]})"
        if src[0] == "bool":
            return f"(if {e} then 1#{dst[1]} else 0#{dst[1]})" if dst[0] == "u" else f"(if {e} then (1 : Int) else 0)"
        if src[0] == "u" and dst[0] == "u":
            return f"(BitVec.setWidth {dst[1]} {e})"
        if src[0] == "s" and dst[0] == "u":
            return f"(BitVec.ofInt {dst[1]} {e})"
        if src[0] == "u" and dst[0] == "s":
            if dst[1] > src[1]:
                return f"(({e}).toNat : Int)"
            return f"(BitVec.setWidth {dst[1]} {e}).toInt"
        if src[0] == "s" and dst[0] == "s":
            if dst[1] >= src[1]:
                return e
            return f"(BitVec.ofInt {dst[1]} {e}).toInt"
        raise Fail(f"{pos_of(n)}: conversion {src} -> {dst}")

    def field(self, cls, m):
        t = self.ct(m["type"])
        if not is_int(t):
            raise Fail(f"{pos_of(m)}: field `{m['name']}` of non-integral type `{m['type']['qualType']}`")
        fs = self.mod.classes.setdefault(cls, {})
        if fs.get(m["name"], t) != t:
            raise Fail(f"field {m['name']} used at two types")
        fs[m["name"]] = t
        return t

    def shift_amount(self, n):
        t = self.ct(n["type"])
        e = self.expr(n)
        u = unwrap(n)
        if u["kind"] == "IntegerLiteral":
            return u["value"]
        return f"({e}).toNat"

    def note(self, n, what):
        self.oblig.append(f"{pos_of(n)}  {what}")

    def expr(self, n):
        k = n["kind"]
        if k == "SubstNonTypeTemplateParmExpr":
            return self.expr(n["inner"][-1])      # template argument of the instantiation (children: parameter declaration, replacement)
        if k in WRAPPERS:
            return self.expr(n["inner"][0])
        if k in CASTS:
            ck = n.get("castKind")
            sub = n["inner"][0]
            if ck in ("LValueToRValue", "NoOp", "ConstructorConversion"):
                if ck == "NoOp" or ck == "LValueToRValue":
                    st, dt = None, None
                    try:
                        st, dt = self.ct(sub["type"]), self.ct(n["type"])
                    except Fail:
                        pass
                    e = self.expr(sub)
                    if st and dt and st != dt and is_int(st) and is_int(dt):
                        return self.convert(st, dt, e, n)
                    return e
            if ck == "IntegralCast":
                lit, dt = unwrap(sub), self.ct(n["type"])
                if lit["kind"] == "IntegerLiteral" and is_int(dt) and dt[0] != "bool":
                    v = int(lit["value"])       # conversion of a literal: fold (value-preserving modulo 2^n)
                    if dt[0] == "u":
                        return f"{v % (1 << dt[1])}#{dt[1]}"
                    if v < (1 << (dt[1] - 1)):
                        return f"({v} : Int)"
                return self.convert(self.ct(sub["type"]), dt, self.expr(sub), n)
            if ck == "UserDefinedConversion":
                if unwrap(sub)["kind"] != "CXXMemberCallExpr":
                    raise Fail(f"{pos_of(n)}: user-defined conversion of unsupported form")
                return self.convert(self.ct(sub["type"]), self.ct(n["type"]), self.expr(sub), n)
            if ck == "IntegralToBoolean":
                return self.convert(self.ct(sub["type"]), ("bool",), self.expr(sub), n)
            raise Fail(f"{pos_of(n)}: cast kind {ck} ({sub['type']['qualType']} -> {n['type']['qualType']}) is outside the supported subset")
        if k == "IntegerLiteral":
            t = self.ct(n["type"])
            v = n["value"]
            return f"{v}#{t[1]}" if t[0] == "u" else f"({v} : Int)"
        if k == "CXXBoolLiteralExpr":
            return "true" if n["value"] else "false"
        if k == "CharacterLiteral":
            t = self.ct(n["type"])
            return f"({n['value']} : Int)" if t[0] == "s" else f"{n['value']}#{t[1]}"
        if k == "DeclRefExpr":
            ref = n["referencedDecl"]
            if ref["id"] in self.vars:
                name, t = self.vars[ref["id"]]
                if t[0] == "unsupported":
                    raise Fail(f"{pos_of(n)}: variable `{name}` of type `{t[1]}` is outside the supported subset")
                if t[0] == "class" and not self.param_is_struct(t):
                    raise Fail(f"{pos_of(n)}: opaque object `{name}` used as a value")
                return name
            if ref["kind"] == "VarDecl":
                d = self.mod.resolve_bare(self.tu, ref, pos_of(n))
                if "const" not in d["type"]["qualType"].split() and not d.get("constexpr"):
                    raise Fail(f"{pos_of(n)}: reference to non-const global `{ref['name']}`")
                inits = [c for c in d.get("inner", []) if isinstance(c, dict) and "kind" in c]
                sub = FnTr(self.mod, self.tu, {"type": {"qualType": "void ()"}, "kind": "FunctionDecl", "inner": []}, "_", None, None, {})
                val = sub.conv_to(inits[0], self.ct(d["type"]))
                if sub.abstract or sub.uses_self:
                    raise Fail(f"{pos_of(n)}: initialiser of `{ref['name']}` is not a closed expression")
                if d.get("_file"):
                    self.mod.sources.add(d["_file"])
                return f"({val} /- {qual_of(d) or ref['name']} -/)"
            if ref["kind"] == "EnumConstantDecl":
                v, q = self.mod.enum_constant(self.tu, ref, pos_of(n))
                t = self.ct(n["type"])
                return f"({v}#{t[1]} /- {q}::{ref['name']} -/)" if t[0] == "u" else f"(({v} : Int) /- {q.rsplit('::', 1)[0] if '::' in q else q}::{ref['name']} -/)"
            raise Fail(f"{pos_of(n)}: reference to {ref['kind']} `{ref.get('name')}`")
        if k == "MemberExpr":
            b = unwrap(n["inner"][0])
            if b["kind"] == "CXXThisExpr":
                self.field(self.cls, n)
                self.uses_self = True
                return f"self.{lean_ident(n['name'])}"
            if b["kind"] == "DeclRefExpr" and b["referencedDecl"]["id"] in self.vars:
                name, t = self.vars[b["referencedDecl"]["id"]]
                if self.param_is_struct(t):
                    self.field(self.canon_class(t[1]), n)
                    return f"{name}.{lean_ident(n['name'])}"
                ft = self.ct(n["type"])
                if not is_int(ft):
                    raise Fail(f"{pos_of(n)}: field `{n['name']}` of non-integral type")
                return self.add_abstract(f"{name}_{lean_ident(n['name'])}", lean_ty(ft))
            raise Fail(f"{pos_of(n)}: member access on an unsupported object expression")
        if k == "UnaryOperator":
            op = n["opcode"]
            t = self.ct(n["type"])
            a = self.expr(n["inner"][0])
            if op == "+":
                return a
            if op == "!":
                return f"(!{a})"
            if op == "~":
                if t[0] == "u":
                    return f"(~~~{a})"
                return f"(~~~(BitVec.ofInt {t[1]} {a})).toInt"
            if op == "-":
                if t[0] == "s":
                    self.note(n, f"signed negation in {t[1]} bits")
                return f"(-{a})"
            raise Fail(f"{pos_of(n)}: unary operator `{op}` used as an expression")
        if k == "BinaryOperator":
            return self.binop(n)
        if k == "ConditionalOperator":
            c = self.cond(n["inner"][0])
            t = self.ct(n["type"])
            return f"(if {c} then {self.conv_to(n['inner'][1], t)} else {self.conv_to(n['inner'][2], t)})"
        if k in ("CallExpr", "CXXMemberCallExpr") and self.site:
            snap = (dict(self.abstract), set(self.used_names), list(self.oblig), self.uses_self)
            try:
                return self.expr_call(n)
            except Fail as why:
                self.abstract, self.used_names, self.oblig, self.uses_self = snap
                return self.opaque_call(n, why)
        if k in ("CallExpr", "CXXMemberCallExpr"):
            return self.expr_call(n)
        if k == "CXXOperatorCallExpr":
            return self.op_call(n)
        if k == "ArraySubscriptExpr":
            return self.table_read(n)
        raise Fail(f"{pos_of(n)}: expression of kind {k} is outside the supported subset")

    def expr_call(self, n):
        if n["kind"] == "CallExpr":
            return self.call(n)
        d, args = self.member_call(n)
        if d is None:
            return args      # abstract observer
        if d.void:
            raise Fail(f"{pos_of(n)}: void call used as a value")
        return f"({d.lname} {' '.join(args)})".replace(" )", ")")

    def opaque_call(self, n, why):
        """Site mode: a call the translator cannot model (`MoveGen::isLegal(pos, m, inCheck)`, `getMoveExtend(..)`) becomes
        an abstract parameter `opq_<callee>` of the call's result type: the Bridge theorems about the site then hold for
        every value the call may return.  Integral locals passed by non-const reference are refused."""
        t = self.ct(n["type"])
        if not is_int(t) or t[0] == "void":
            raise why
        cal = n["inner"][0]
        if n["kind"] == "CXXMemberCallExpr" and cal.get("kind") == "MemberExpr":
            name = cal.get("name")
        else:
            c = unwrap(cal)
            name = c.get("referencedDecl", {}).get("name") if c.get("kind") == "DeclRefExpr" else None
        if not name:
            raise why
        self.byref_locals(n["inner"][1:], pos_of(n))
        off = offset_of(n)
        if off not in self.opaque:
            base = "opq_" + lean_ident(name)
            cand, i = base, 2
            while cand in self.used_names:
                cand = f"{base}_{i}"; i += 1
            self.opaque[off] = cand
        return self.add_abstract(self.opaque[off], lean_ty(t), own=True)

    def binop(self, n):
        op = n["opcode"]
        l, r = n["inner"]
        if op in ("&&", "||"):
            return f"({self.cond(l)} {op} {self.cond(r)})"
        if op == ",":
            raise Fail(f"{pos_of(n)}: comma operator")
        lt, rt = self.ct(l["type"]), self.ct(r["type"])
        t = self.ct(n["type"])
        if op in ("<", ">", "<=", ">=", "==", "!="):
            # bool == bool is promoted to int by C; compare the Bools directly (same truth value)
            lu, ru = unwrap_cast_from_bool(l), unwrap_cast_from_bool(r)
            if op in ("==", "!=") and lu is not None and ru is not None:
                return f"({self.expr(lu)} {op} {self.expr(ru)})"
            if lt != rt:
                raise Fail(f"{pos_of(n)}: comparison of {lt} with {rt} (clang should have unified the operand types)")
            a, b = self.expr(l), self.expr(r)
            if op in ("==", "!="):
                return f"({a} {op} {b})"
            lop = {"<": "<", ">": ">", "<=": "≤", ">=": "≥"}[op]
            if lt[0] == "bool":
                raise Fail(f"{pos_of(n)}: ordering comparison of bools")
            return f"decide ({a} {lop} {b})"
        if op in ("<<", ">>"):
            a = self.expr(l)
            sh = self.shift_amount(r)
            self.note(n, f"shift `{op}` of a {lt[1]}-bit value: amount must be in [0, {lt[1]})" + (" and the result must not overflow (signed)" if lt[0] == "s" and op == "<<" else ""))
            if lt[0] == "u":
                return f"({a} {'<<<' if op == '<<' else '>>>'} {sh})"
            if lt[0] == "s":
                return f"({a} * 2 ^ {sh})" if op == "<<" else f"({a} >>> {sh})"
            raise Fail(f"{pos_of(n)}: shift of {lt}")
        if lt != rt or lt != t:
            raise Fail(f"{pos_of(n)}: operator `{op}` on {lt}, {rt} -> {t} (clang should have unified the operand types)")
        a, b = self.expr(l), self.expr(r)
        if t[0] == "u":
            m = {"+": "+", "-": "-", "*": "*", "/": "/", "%": "%", "&": "&&&", "|": "|||", "^": "^^^"}
            if op not in m:
                raise Fail(f"{pos_of(n)}: operator `{op}`")
            if op in ("/", "%"):
                self.note(n, f"unsigned `{op}`: divisor must be non-zero")
            return f"({a} {m[op]} {b})"
        if t[0] == "s":
            if op in ("+", "-", "*"):
                self.note(n, f"signed `{op}` must not overflow {t[1]} bits")
                return f"({a} {op} {b})"
            if op == "/":
                self.note(n, f"signed `/` (truncating): divisor non-zero, no {t[1]}-bit overflow")
                return f"(Int.tdiv {a} {b})"
            if op == "%":
                self.note(n, "signed `%` (truncating): divisor non-zero")
                return f"(Int.tmod {a} {b})"
            m = {"&": "&&&", "|": "|||", "^": "^^^"}
            if op in m:
                return f"((BitVec.ofInt {t[1]} {a}) {m[op]} (BitVec.ofInt {t[1]} {b})).toInt"
        raise Fail(f"{pos_of(n)}: operator `{op}` on {t}")

    # ---- calls --------------------------------------------------------------------------------
    def call(self, n):
        cal = unwrap(n["inner"][0])
        args = n["inner"][1:]
        if cal["kind"] != "DeclRefExpr":
            raise Fail(f"{pos_of(n)}: indirect call")
        ref = cal["referencedDecl"]
        name = ref["name"]
        rt = self.ct(n["type"])
        if name in ("min", "max") and len(args) == 2 and ("foundReferencedDecl" in cal or "&" in ref["type"]["qualType"]):
            # std::min / std::max (templates taking const T&): the result type is the common argument type
            t = self.ct(args[0]["type"])
            if t != self.ct(args[1]["type"]):
                raise Fail(f"{pos_of(n)}: std::{name} on different types")
            a, b = self.expr(args[0]), self.expr(args[1])
            if t[0] == "s":
                return f"({name} {a} {b})"
            if t[0] == "u":
                return (f"(if {b} < {a} then {b} else {a})" if name == "min" else f"(if {a} < {b} then {b} else {a})")
            raise Fail(f"{pos_of(n)}: std::{name} on {t}")
        if name == "abs" and len(args) == 1:
            t = self.ct(args[0]["type"])
            if t[0] != "s":
                raise Fail(f"{pos_of(n)}: abs on {t}")
            self.note(n, f"abs: argument must not be the minimum {t[1]}-bit value")
            return f"(({self.expr(args[0])}).natAbs : Int)"
        if ref["kind"] not in ("FunctionDecl", "CXXMethodDecl"):
            raise Fail(f"{pos_of(n)}: call of {ref['kind']}")
        d = self.mod.resolve_bare(self.tu, ref, pos_of(n))
        fd = self.mod.need_function(self.tu, d)
        if fd.uses_self:
            raise Fail(f"{pos_of(n)}: `{name}` uses a receiver but is called without an object")
        if fd.void:
            raise Fail(f"{pos_of(n)}: void call used as a value")
        out = self.call_args(fd, [], args, n)
        return f"({fd.lname} {' '.join(out)})" if out else fd.lname

    def call_args(self, fd, pre, args, n):
        if fd.has_loop:
            raise Fail(f"{pos_of(n)}: call of a kernel containing a loop from another kernel")
        if fd.abstract:
            raise Fail(f"{pos_of(n)}: call of a kernel with abstract parameters from another kernel")
        if len(args) != len(fd.plist):
            raise Fail(f"{pos_of(n)}: call of `{fd.lname}` with {len(args)} arguments, {len(fd.plist)} expected (default arguments are unsupported)")
        out = list(pre)
        for a, (pn, pt) in zip(args, fd.plist):
            if pt[0] == "class":
                u = unwrap(a)
                if u["kind"] == "DeclRefExpr" and u["referencedDecl"]["id"] in self.vars and self.param_is_struct(self.vars[u["referencedDecl"]["id"]][1]):
                    out.append(self.vars[u["referencedDecl"]["id"]][0])
                    continue
                raise Fail(f"{pos_of(n)}: object argument of unsupported form")
            out.append(self.conv_to(a, pt))
        return out

    def member_call(self, n):
        """Returns (Def, [arg texts]) for calls on translated classes, (None, text) for opaque observers."""
        cal = n["inner"][0]
        if cal.get("kind") != "MemberExpr":
            raise Fail(f"{pos_of(n)}: unsupported member call form")
        base = unwrap(cal["inner"][0])
        args = n["inner"][1:]
        name = cal["name"]
        if base["kind"] == "CXXThisExpr":
            recv, cls = "self", self.cls
            self.uses_self = True
        elif base["kind"] == "DeclRefExpr" and base["referencedDecl"]["id"] in self.vars:
            vname, vt = self.vars[base["referencedDecl"]["id"]]
            if vt[0] == "vec":
                if name == "size" and not args:
                    return None, self.add_abstract(f"{vname}_size", lean_ty(self.ct(n["type"])))
                raise Fail(f"{pos_of(n)}: std::vector::{name} is outside the supported subset")
            if vt[0] != "class":
                raise Fail(f"{pos_of(n)}: member call on {vt}")
            if not self.param_is_struct(vt):
                # opaque object: const observers become abstract parameters (assumed pure)
                bq = base["type"]["qualType"]
                if self.site and cal["inner"][0]["type"]["qualType"].startswith("const "):
                    bq = "const " + bq      # a const member function called on a non-const local: clang casts the object to const
                if not bq.startswith("const "):
                    raise Fail(f"{pos_of(n)}: call of `{name}` on a non-const opaque object `{vname}`")
                rt = self.ct(n["type"])
                if not is_int(rt):
                    raise Fail(f"{pos_of(n)}: observer `{vname}.{name}()` returns non-integral `{n['type']['qualType']}`")
                if args:
                    ats = [self.ct(a["type"]) for a in args]
                    lt = " → ".join([lean_ty(t) for t in ats] + [lean_ty(rt)])
                    f = self.add_abstract(f"{vname}_{lean_ident(name)}", f"({lt})")
                    return None, f"({f} {' '.join(self.expr(a) for a in args)})"
                return None, self.add_abstract(f"{vname}_{lean_ident(name)}", lean_ty(rt))
            recv, cls = vname, self.canon_class(vt[1])
        elif (base["kind"] == "DeclRefExpr" and base["referencedDecl"].get("kind") == "VarDecl") or \
                (base["kind"] == "MemberExpr" and unwrap(base["inner"][0])["kind"] == "CXXThisExpr"):
            # observer of a global object (`static_cast<int>(bufferTime)`) or of a member object (`pos.isWhiteMove()`):
            # an abstract parameter; assumed to be a pure read of a value that is constant during the kernel
            oname = base["referencedDecl"]["name"] if base["kind"] == "DeclRefExpr" else base["name"]
            if not cal["inner"][0]["type"]["qualType"].startswith("const "):
                raise Fail(f"{pos_of(n)}: call of non-const member `{name}` on the opaque object `{oname}`")
            rt = self.ct(n["type"])
            if not is_int(rt) or args:
                raise Fail(f"{pos_of(n)}: observer `{oname}.{name}` must take no arguments and return an integral value")
            pname = lean_ident(oname) if name.startswith("operator ") else f"{lean_ident(oname)}_{lean_ident(name)}"
            return None, self.add_abstract(pname, lean_ty(rt))
        else:
            raise Fail(f"{pos_of(n)}: member call on an unsupported object expression ({base['kind']})")
        d = self.mod.resolve_member(self.tu, cls, name, len(args), pos_of(n))
        fd = self.mod.need_function(self.tu, d)
        pre = [recv] if fd.uses_self else []
        if fd.void and recv != "self":
            raise Fail(f"{pos_of(n)}: mutating call on `{recv}`")
        return fd, self.call_args(fd, pre, args, n)

    def table_read(self, n):
        """`tbl[i]` on a `const` array of integers with a literal initialiser list -> lookup in a Lean `Array` literal."""
        base, idx = n["inner"]
        b = unwrap(base)
        while b["kind"] == "ImplicitCastExpr" and b.get("castKind") == "ArrayToPointerDecay":
            b = unwrap(b["inner"][0])
        if b["kind"] == "DeclRefExpr" and b["referencedDecl"]["kind"] == "VarDecl" and b["referencedDecl"]["id"] not in self.vars:
            ref = b["referencedDecl"]
        elif b["kind"] == "MemberExpr" and "referencedMemberDecl" in b and unwrap(b["inner"][0])["kind"] == "CXXThisExpr":
            ref = {"name": b["name"], "kind": "VarDecl", "type": b["type"]}
        else:
            raise Fail(f"{pos_of(n)}: subscript on something that is not a const table")
        m = re.match(r"^const (.+?)\s*\[(\d+)\]$", ref["type"]["qualType"].strip())
        if not m:
            raise Fail(f"{pos_of(n)}: subscripted object `{ref['name']}` has type `{ref['type']['qualType']}` (need `const T[N]`)")
        et, size = ctype_q(m.group(1)), int(m.group(2))
        if et[0] not in ("u", "s"):
            raise Fail(f"{pos_of(n)}: table `{ref['name']}` of element type {m.group(1)}")
        d = self.mod.resolve_bare(self.tu, ref, pos_of(n))
        inits = [c for c in d.get("inner", []) if isinstance(c, dict) and c.get("kind") == "InitListExpr"]
        if len(inits) != 1:
            raise Fail(f"{pos_of(n)}: table `{ref['name']}` has no initialiser list in this translation unit")
        vals = []
        for c in inits[0].get("inner", []):
            u = unwrap(c)
            neg = False
            while u["kind"] in CASTS or (u["kind"] == "UnaryOperator" and u.get("opcode") == "-"):
                if u["kind"] == "UnaryOperator":
                    neg = not neg
                u = unwrap(u["inner"][0])
            if u["kind"] != "IntegerLiteral":
                raise Fail(f"{pos_of(c)}: element of table `{ref['name']}` is not an integer literal")
            vals.append(-int(u["value"]) if neg else int(u["value"]))
        if len(vals) != size:
            raise Fail(f"{pos_of(n)}: table `{ref['name']}` has {len(vals)} explicit elements, declared size {size}")
        lname = lean_ident((qual_of(d) or ref["name"]).replace("::", "_"))
        elems = ", ".join(f"{v % (1 << et[1])}#{et[1]}" if et[0] == "u" else str(v) for v in vals)
        self.mod.tables[lname] = (f"/-- `{qual_of(d) or ref['name']}` : `{ref['type']['qualType']}`  ({os.path.basename(d.get('_file') or '?')}:{d.get('_line')}) -/\n"
                                  f"def {lname} : Array {lean_ty(et)} := #[{elems}]\n")
        if d.get("_file"):
            self.mod.sources.add(d["_file"])
        it = self.ct(idx["type"])
        self.note(n, f"subscript `{ref['name']}[..]`: index must be in [0, {size})")
        i = self.expr(idx)
        dflt = f"0#{et[1]}" if et[0] == "u" else "(0 : Int)"
        return f"({lname}.getD ({i}).toNat {dflt})"

    def op_call(self, n):
        cal = unwrap(n["inner"][0])
        if cal.get("kind") == "DeclRefExpr" and cal["referencedDecl"]["name"] == "operator[]":
            base = unwrap(n["inner"][1])
            if base["kind"] == "DeclRefExpr" and base["referencedDecl"]["id"] in self.vars:
                vname, vt = self.vars[base["referencedDecl"]["id"]]
                if vt[0] == "vec" and is_int(vt[1]):
                    if "const" not in base["type"]["qualType"].split():
                        raise Fail(f"{pos_of(n)}: subscript on a non-const vector")
                    idx = self.expr(n["inner"][2])
                    self.note(n, f"subscript `{vname}[..]`: index must be < {vname}.size()")
                    self.add_abstract(vname, lean_ty(vt), own=True)
                    return f"({vname} ({idx}).toNat)"
        raise Fail(f"{pos_of(n)}: overloaded operator call is outside the supported subset")


def unwrap_cast_from_bool(n):
    """If `n` is (parens around) an IntegralCast bool->int, return the bool operand, else None."""
    while n["kind"] in WRAPPERS:
        n = n["inner"][0]
    if n["kind"] == "ImplicitCastExpr" and n.get("castKind") == "IntegralCast":
        s = n["inner"][0]
        try:
            if ctype(s["type"]) == ("bool",):
                return s
        except Fail:
            return None
    return None


# -------------------------------------------------------------------------------------------------
# driver
# -------------------------------------------------------------------------------------------------

def load_kernels(path):
    ks = json.load(open(path))
    mods = {}
    for e in ks:
        mods.setdefault(e["module"], []).append(e)
    return mods


def translate(repo, kernels_path, outdir, modules=None, cachedir=None):
    """Returns {module: {"ok": bool, "error": str|None, "file": path, "changed": bool, "clang_runs": n}}."""
    mods = load_kernels(kernels_path)
    res = {}
    front = Front(repo, cachedir)
    for m in (modules or sorted(mods)):
        if m not in mods:
            res[m] = {"ok": False, "error": f"no kernels for module {m} in {kernels_path}", "file": None}
            continue
        path = os.path.join(outdir, f"{m}.lean")
        try:
            text = Module(m, front, mods[m]).run().emit(front.repo)
        except Fail as x:
            # leave a file that cannot be mistaken for a translation: the Bridge build fails on it
            os.makedirs(outdir, exist_ok=True)
            with open(path, "w") as f:
                f.write("/- GENERATED by tools/cxx2lean.py: TRANSLATION FAILED\n" + str(x).replace("-/", "- /") + "\n-/\n#exit\n")
            res[m] = {"ok": False, "error": str(x), "file": path}
            continue
        os.makedirs(outdir, exist_ok=True)
        old = open(path).read() if os.path.exists(path) else None
        if old != text:
            with open(path + ".tmp", "w") as f:
                f.write(text)
            os.replace(path + ".tmp", path)
        res[m] = {"ok": True, "error": None, "file": path, "changed": old != text}
    for m in res:
        res[m]["clang_runs"] = front.runs
    return res


def main():
    import argparse
    here = os.path.dirname(os.path.abspath(__file__))
    ap = argparse.ArgumentParser(description=__doc__, formatter_class=argparse.RawDescriptionHelpFormatter)
    ap.add_argument("--repo", default=os.environ.get("VERIF_REPO", "/repo"))
    ap.add_argument("--kernels", default=os.path.join(here, "kernels.json"))
    ap.add_argument("--out", default=os.path.join(os.path.dirname(here), "lean", "TexelVerif", "Generated"))
    ap.add_argument("--modules", default="")
    ap.add_argument("--cache", default=os.path.join(os.path.dirname(here), ".build", "xlate"))
    ap.add_argument("--print", action="store_true", help="print the generated modules to stdout")
    a = ap.parse_args()
    res = translate(a.repo, a.kernels, a.out, [m for m in a.modules.split(",") if m] or None, a.cache)
    rc = 0
    for m, r in res.items():
        if r["ok"]:
            print(f"cxx2lean: {m}: ok -> {r['file']}" + (" (changed)" if r.get("changed") else " (unchanged)"))
            if a.print:
                print(open(r["file"]).read())
        else:
            print(f"cxx2lean: {m}: FAILED: {r['error']}", file=sys.stderr)
            rc = 2
    return rc


if __name__ == "__main__":
    sys.exit(main())
