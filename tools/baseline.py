#!/usr/bin/env python3
"""Run the repository's own test-suite (guard OFF, /repo/_build) and compare with /root/.vp/BASELINE.json stable_pass."""
import json, subprocess, sys, xml.etree.ElementTree as ET
REPO = sys.argv[1] if len(sys.argv) > 1 else "/repo"
B = REPO + "/_build"
subprocess.run(["cmake", "-G", "Ninja", "-S", REPO, "-B", B], stdout=subprocess.DEVNULL, check=True)
subprocess.run(["cmake", "--build", B], stdout=subprocess.DEVNULL, check=True)
subprocess.run(["ctest", "--test-dir", B, "-j8", "--timeout", "900", "--output-junit", "/tmp/baseline_junit.xml"], stdout=subprocess.DEVNULL)
base = json.load(open("/root/.vp/BASELINE.json"))
res = {}
for tc in ET.parse("/tmp/baseline_junit.xml").getroot().iter("testcase"):
    ok = tc.find("failure") is None and tc.find("error") is None and tc.get("status", "run") in ("run", "passed")
    res[tc.get("name")] = ok
want = set(n.split("::")[0] for n in base["stable_pass"] if "." in n.split("::")[0])
bad = sorted(n for n in want if not res.get(n, False))
print(f"baseline: {len(want)} stable tests, {len(want) - len(bad)} pass, failing/missing: {bad}")
sys.exit(1 if bad else 0)
