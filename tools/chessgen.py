"""Position generators shared by the chess-level checks (C01, C02, C11, C15, C17 …).
Random legal games come from the harness (`chess gengame`, which uses the real move generator only to
*produce inputs*); synthetic placements are produced here, biased to the motifs named in the properties."""
import os
import vlib

START = "rnbqkbnr/pppppppp/8/8/8/8/PPPPPPPP/RNBQKBNR w KQkq - 0 1"
SEED_FENS = [
    START,
    "r3k2r/p1ppqpb1/bn2pnp1/3PN3/1p2P3/2N2Q1p/PPPBBPPP/R3K2R w KQkq - 0 1",
    "8/2p5/3p4/KP5r/1R3p1k/8/4P1P1/8 w - - 0 1",
    "r3k2r/Pppp1ppp/1b3nbN/nP6/BBP1P3/q4N2/Pp1P2PP/R2Q1RK1 w kq - 0 1",
    "rnbq1k1r/pp1Pbppp/2p5/8/2B5/8/PPP1NnPP/RNBQK2R w KQ - 1 8",
    "r4rk1/1pp1qppp/p1np1n2/2b1p1B1/2B1P1b1/P1NP1N2/1PP1QPPP/R4RK1 w - - 0 10",
    "8/8/1k6/8/2pP4/8/5BK1/8 b - d3 0 1",
    "8/5k2/8/2Pp4/2B5/1K6/8/8 w - d6 0 1",
    "n1n5/PPPk4/8/8/8/8/4Kppp/5N1N b - - 0 1",
    "8/PPP4k/8/8/8/8/4Kppp/8 w - - 0 1",
    "r1bq1rk1/pp2bppp/2n1pn2/2pp4/3P1B2/2P1PN2/PP1N1PPP/R2QKB1R w KQ - 3 7",
    "4k3/8/8/8/8/8/8/4K2R w K - 0 1", "r3k3/8/8/8/8/8/8/4K3 b q - 0 1",
    "8/8/8/4k3/8/8/3QK3/7r w - - 0 1", "8/8/8/8/5k2/8/8/3QK3 w - - 10 40",
    "2r3k1/5ppp/8/8/8/8/5PPP/R5K1 w - - 96 80", "6k1/5ppp/8/8/8/8/r4PPP/1R4K1 b - - 99 70",
]
PCS = "KQRBNPkqrbnp"


def games(ctx, n_games, max_plies, starts=None):
    """FENs of all positions of n_games random legal games (via the C++ harness)."""
    bdir = vlib.cxx_build("plain", ("vharness",))
    starts = starts or SEED_FENS
    lines = []
    for g in range(n_games):
        st = starts[g % len(starts)] if ctx.rng.random() < 0.6 else START
        lines.append(f"chess gengame {ctx.rng.getrandbits(48)} {ctx.rng.randrange(4, max_plies + 1)} {st}")
    rc, out, err = vlib.run_lines(os.path.join(bdir, "vharness"), lines)
    if rc != 0 or len(out) != len(lines):
        raise RuntimeError("gengame failed: " + err[-500:])
    fens = []
    for o in out:
        if o not in ("none", "bad-op") and not o.startswith("err"):
            fens += o.split(" ; ")
    return fens


def board_to_fen(board, wtm, castle="-", ep="-", hmc=0, fmc=1):
    rows = []
    for y in range(7, -1, -1):
        row, e = "", 0
        for x in range(8):
            p = board[y * 8 + x]
            if p is None: e += 1
            else:
                if e: row += str(e); e = 0
                row += p
        if e: row += str(e)
        rows.append(row)
    return "/".join(rows) + (" w " if wtm else " b ") + castle + f" {ep} {hmc} {fmc}"


def _counts(rng, dense):
    """promotion-consistent piece counts for one side: returns dict type->count (without king)"""
    pawns = rng.randrange(0, 9) if dense else rng.choice([0, 0, 1, 2, 3])
    extra = 8 - pawns
    base = {"Q": 1, "R": 2, "B": 2, "N": 2}
    c = {}
    for t in "QRBN":
        c[t] = rng.randrange(0, base[t] + 1) if dense else rng.choice([0, 0, 1])
    # promotions
    if extra and rng.random() < 0.25:
        k = rng.randrange(1, extra + 1)
        for _ in range(k):
            c[rng.choice("QQQRBN")] += 1
    c["P"] = pawns
    return c


def random_placement(rng, dense=None):
    dense = rng.random() < 0.5 if dense is None else dense
    board = [None] * 64
    wk = rng.randrange(64)
    while True:
        bk = rng.randrange(64)
        if max(abs(wk % 8 - bk % 8), abs(wk // 8 - bk // 8)) > 1: break
    board[wk], board[bk] = "K", "k"
    for white in (True, False):
        for t, n in _counts(rng, dense).items():
            for _ in range(n):
                for _try in range(20):
                    s = rng.randrange(8, 56) if t == "P" else rng.randrange(64)
                    if board[s] is None:
                        board[s] = t if white else t.lower(); break
    return board


def decorate(rng, board):
    """side to move, castling flags, en-passant square: plausible but not necessarily valid (the reader normalises)"""
    wtm = rng.random() < 0.5
    castle = ""
    if board[4] == "K":
        if board[7] == "R" and rng.random() < 0.7: castle += "K"
        if board[0] == "R" and rng.random() < 0.7: castle += "Q"
    if board[60] == "k":
        if board[63] == "r" and rng.random() < 0.7: castle += "k"
        if board[56] == "r" and rng.random() < 0.7: castle += "q"
    if rng.random() < 0.03: castle = rng.choice(["KQkq", "K", "q", "Kk"])   # flags without pieces: reader must drop them
    ep = "-"
    cands = []
    for x in range(8):
        if wtm and board[32 + x] == "p" and board[40 + x] is None and board[48 + x] is None: cands.append("abcdefgh"[x] + "6")
        if not wtm and board[24 + x] == "P" and board[16 + x] is None and board[8 + x] is None: cands.append("abcdefgh"[x] + "3")
    if cands and rng.random() < 0.6: ep = rng.choice(cands)
    elif rng.random() < 0.02: ep = rng.choice(["e3", "e6", "a6", "h3", "d4"])
    return board_to_fen(board, wtm, castle or "-", ep, rng.choice([0, 0, 1, 5, 49, 98, 99, 100]), rng.randrange(1, 80))


def motif_pin(rng):
    board = random_placement(rng, dense=False)
    white = rng.random() < 0.5
    k = board.index("K" if white else "k")
    dx, dy = rng.choice([(1, 0), (-1, 0), (0, 1), (0, -1), (1, 1), (1, -1), (-1, 1), (-1, -1)])
    line = []
    x, y = k % 8 + dx, k // 8 + dy
    while 0 <= x < 8 and 0 <= y < 8:
        line.append(y * 8 + x); x += dx; y += dy
    if len(line) >= 2:
        for s in line:
            if board[s] not in ("K", "k"): board[s] = None
        i = rng.randrange(0, len(line) - 1); j = rng.randrange(i + 1, len(line))
        own = rng.choice("QRBNP")
        if own == "P" and not (8 <= line[i] < 56): own = "N"
        slider = rng.choice("QR" if dx == 0 or dy == 0 else "QB")
        if board[line[i]] is None and board[line[j]] is None:
            board[line[i]] = own if white else own.lower()
            board[line[j]] = slider.lower() if white else slider
    return board


def motif_ep_pin(rng):
    """en-passant capture that would expose the king along the rank or a diagonal"""
    board = [None] * 64
    white = rng.random() < 0.5
    y = 4 if white else 3
    xs = list(range(8)); rng.shuffle(xs)
    xp = rng.randrange(0, 7)                      # capturing pawn at xp, captured at xp+1 (or mirrored)
    a, b = (xp, xp + 1) if rng.random() < 0.5 else (xp + 1, xp)
    board[y * 8 + a] = "P" if white else "p"
    board[y * 8 + b] = "p" if white else "P"
    free = [x for x in range(8) if x not in (a, b)]
    left = [x for x in free if x < min(a, b)]; right = [x for x in free if x > max(a, b)]
    own_k, opp_k = ("K", "k") if white else ("k", "K")
    discover = rng.random() < 0.5       # False: own king pinned along the line; True: enemy king at the end (discovered check)
    placed_own = placed_opp = False
    if rng.random() < 0.65:
        if left and right:              # along the rank
            kx, rx = (rng.choice(left), rng.choice(right)) if rng.random() < 0.5 else (rng.choice(right), rng.choice(left))
            if discover:
                board[y * 8 + kx] = opp_k; placed_opp = True
                board[y * 8 + rx] = rng.choice("RQ") if white else rng.choice("rq")
            else:
                board[y * 8 + kx] = own_k; placed_own = True
                board[y * 8 + rx] = rng.choice("rq") if white else rng.choice("RQ")
    else:                               # along a diagonal through the captured pawn (b, y)
        dx, dy = rng.choice([(1, 1), (1, -1), (-1, 1), (-1, -1)])
        pts = []
        for sgn in (1, -1):
            x, yy, l = b + sgn * dx, y + sgn * dy, []
            while 0 <= x < 8 and 0 <= yy < 8:
                l.append(yy * 8 + x); x += sgn * dx; yy += sgn * dy
            pts.append(l)
        if pts[0] and pts[1]:
            ks, bs = rng.choice(pts[0]), rng.choice(pts[1])
            if board[ks] is None and board[bs] is None:
                if discover:
                    board[ks] = opp_k; placed_opp = True
                    board[bs] = rng.choice("BQ") if white else rng.choice("bq")
                else:
                    board[ks] = own_k; placed_own = True
                    board[bs] = rng.choice("bq") if white else rng.choice("BQ")
    for kk, done in ((own_k, placed_own), (opp_k, placed_opp)):
        if not done:
            for _ in range(50):
                s = rng.randrange(64)
                if board[s] is None:
                    board[s] = kk; break
    # a few random extras
    for _ in range(rng.randrange(0, 4)):
        s = rng.randrange(64)
        if board[s] is None:
            t = rng.choice("QRBNqrbn"); board[s] = t
    ep = "abcdefgh"[b] + ("6" if white else "3")
    return board_to_fen(board, white, "-", ep, 0, 10)


def motif_castle(rng):
    board = random_placement(rng, dense=rng.random() < 0.3)
    for s in (0, 1, 2, 3, 4, 5, 6, 7, 56, 57, 58, 59, 60, 61, 62, 63):
        board[s] = None
    for i, p in enumerate(board):
        if p in ("K", "k"): board[i] = None
    board[4], board[60] = "K", "k"
    for s, p in ((0, "R"), (7, "R"), (56, "r"), (63, "r")):
        if rng.random() < 0.8: board[s] = p
    # attackers aimed at the castling squares
    for _ in range(rng.randrange(0, 3)):
        tgt = rng.choice([1, 2, 3, 4, 5, 6, 57, 58, 59, 60, 61, 62])
        white_att = tgt >= 56
        t = rng.choice("RBNQ")
        tx, ty = tgt % 8, tgt // 8
        if t == "N":
            dx, dy = rng.choice([(1, 2), (2, 1), (-1, 2), (-2, 1), (1, -2), (2, -1), (-1, -2), (-2, -1)])
            x, y = tx + dx, ty + dy
        else:
            dirs = [(0, 1), (0, -1)] if t == "R" else [(1, 1), (-1, 1), (1, -1), (-1, -1)] if t == "B" else [(0, 1), (0, -1), (1, 1), (-1, 1), (1, -1), (-1, -1)]
            dx, dy = rng.choice(dirs); k = rng.randrange(1, 7)
            x, y = tx + dx * k, ty + dy * k
        if 0 <= x < 8 and 0 <= y < 8 and board[y * 8 + x] is None:
            board[y * 8 + x] = t if white_att else t.lower()
    if rng.random() < 0.3:   # pieces between king and rook
        s = rng.choice([1, 2, 3, 5, 6, 57, 58, 59, 61, 62])
        if board[s] is None: board[s] = rng.choice("NBnb")
    wtm = rng.random() < 0.5
    castle = "".join(c for c in "KQkq" if rng.random() < 0.85) or "-"
    return board_to_fen(board, wtm, castle, "-", rng.randrange(0, 20), rng.randrange(1, 40))


def motif_promo(rng):
    board = random_placement(rng, dense=False)
    white = rng.random() < 0.5
    y7, y8 = (6, 7) if white else (1, 0)
    for x in range(8):
        if board[y8 * 8 + x] in ("K", "k") or board[y7 * 8 + x] in ("K", "k"): continue
        r = rng.random()
        if r < 0.45: board[y7 * 8 + x] = "P" if white else "p"
        r = rng.random()
        if r < 0.4: board[y8 * 8 + x] = rng.choice("rnbq") if white else rng.choice("RNBQ")
        elif r < 0.8: board[y8 * 8 + x] = None
    # clear illegal pawns of the other colour on last ranks
    for x in range(8):
        for yy in (0, 7):
            if board[yy * 8 + x] in ("P", "p"): board[yy * 8 + x] = None
    return board_to_fen(board, white, "-", "-", 0, 30)


def motif_checks(rng):
    """side to move in (possibly double) check"""
    board = random_placement(rng, dense=False)
    white = rng.random() < 0.5
    k = board.index("K" if white else "k")
    kx, ky = k % 8, k // 8
    for _ in range(rng.choice([1, 2, 2])):
        t = rng.choice("NRBQP")
        if t == "N":
            dx, dy = rng.choice([(1, 2), (2, 1), (-1, 2), (-2, 1), (1, -2), (2, -1), (-1, -2), (-2, -1)]); x, y = kx + dx, ky + dy
        elif t == "P":
            dx = rng.choice([-1, 1]); x, y = kx + dx, ky + (1 if white else -1)
            if not (1 <= y <= 6): continue
        else:
            dirs = [(0, 1), (0, -1), (1, 0), (-1, 0)] if t == "R" else [(1, 1), (-1, 1), (1, -1), (-1, -1)] if t == "B" else [(0, 1), (1, 0), (1, 1), (-1, 1), (1, -1), (-1, -1), (0, -1), (-1, 0)]
            dx, dy = rng.choice(dirs); n = rng.randrange(1, 7); x, y = kx + dx * n, ky + dy * n
            # clear the line
            for i in range(1, n):
                xx, yy = kx + dx * i, ky + dy * i
                if 0 <= xx < 8 and 0 <= yy < 8 and board[yy * 8 + xx] not in ("K", "k"): board[yy * 8 + xx] = None
        if 0 <= x < 8 and 0 <= y < 8 and board[y * 8 + x] not in ("K", "k"):
            board[y * 8 + x] = t.lower() if white else t
    for x in range(8):
        for yy in (0, 7):
            if board[yy * 8 + x] in ("P", "p"): board[yy * 8 + x] = None
    return board_to_fen(board, white, "-", "-", rng.randrange(0, 60), 20)


def synthetic(rng, n):
    out = []
    for i in range(n):
        r = rng.random()
        if r < 0.30: out.append(decorate(rng, random_placement(rng)))
        elif r < 0.45: out.append(decorate(rng, motif_pin(rng)))
        elif r < 0.57: out.append(motif_ep_pin(rng))
        elif r < 0.72: out.append(motif_castle(rng))
        elif r < 0.85: out.append(motif_promo(rng))
        else: out.append(motif_checks(rng))
    return out


# ---- mate-in-one candidates of the rare move classes (C04): promotions / capture-promotions, castling, en passant,
#      discovered and double checks.  Most candidates contain no mate; callers filter with a solver.
def _cover(rng, board, white, targets, n):
    """drop up to n heavy pieces of `white` on squares attacking/near the target squares"""
    for _ in range(n):
        t = rng.choice(targets)
        tx, ty = t % 8, t // 8
        pc = rng.choice("QRRBN")
        if pc == "N":
            dx, dy = rng.choice([(1, 2), (2, 1), (-1, 2), (-2, 1), (1, -2), (2, -1), (-1, -2), (-2, -1)]); x, y = tx + dx, ty + dy
        else:
            dirs = [(0, 1), (0, -1), (1, 0), (-1, 0)] if pc == "R" else [(1, 1), (-1, 1), (1, -1), (-1, -1)] if pc == "B" else [(0, 1), (1, 0), (1, 1), (-1, 1), (1, -1), (-1, -1), (0, -1), (-1, 0)]
            dx, dy = rng.choice(dirs); k = rng.randrange(1, 7); x, y = tx + dx * k, ty + dy * k
        if 0 <= x < 8 and 0 <= y < 8 and board[y * 8 + x] is None:
            board[y * 8 + x] = pc if white else pc.lower()


def mate1_candidates(rng, n):
    out = []
    for _ in range(n):
        white = rng.random() < 0.5
        board = [None] * 64
        kind = rng.choice(["promo", "promo", "castle", "castle", "castle", "ep", "ep", "disc"])
        ok, ek = ("K", "k") if white else ("k", "K")
        last = 7 if white else 0
        fwd = 1 if white else -1
        if kind == "promo" and rng.random() < 0.35:
            # the promoted piece checks THROUGH the square the pawn just left: king behind the pawn on its file (push) or on
            # the capture diagonal (capture-promotion)
            px = rng.randrange(8); cap = rng.choice([-1, 0, 1])
            tx = px + cap
            if not 0 <= tx < 8: continue
            board[(last - fwd) * 8 + px] = "P" if white else "p"
            if cap != 0: board[last * 8 + tx] = rng.choice("rnbq") if white else rng.choice("RNBQ")
            k = rng.randrange(2, 5)
            kx, ky = tx - cap * k, last - fwd * k
            if not (0 <= kx < 8 and 0 <= ky < 8): continue
            board[ky * 8 + kx] = ek
            esc = [y * 8 + x for x in range(max(0, kx - 1), min(8, kx + 2)) for y in range(max(0, ky - 1), min(8, ky + 2))]
            _cover(rng, board, white, esc, rng.randrange(2, 5))
        elif kind == "promo":
            kx = rng.randrange(8)
            ky = last if rng.random() < 0.7 else last - fwd
            board[ky * 8 + kx] = ek
            for _ in range(rng.choice([1, 1, 2])):
                px = max(0, min(7, kx + rng.choice([-2, -1, 0, 1, 2])))
                s = (last - fwd) * 8 + px
                if board[s] is None: board[s] = "P" if white else "p"
                for cx in (px - 1, px + 1):       # something to capture while promoting
                    if 0 <= cx < 8 and board[last * 8 + cx] is None and rng.random() < 0.5:
                        board[last * 8 + cx] = rng.choice("rnbq") if white else rng.choice("RNBQ")
            esc = [y * 8 + x for x in range(max(0, kx - 1), min(8, kx + 2)) for y in range(max(0, ky - 1), min(8, ky + 2))]
            _cover(rng, board, white, esc, rng.randrange(1, 4))
        elif kind == "castle":
            home = 4 if white else 60
            board[home] = ok
            side = rng.choice(["K", "Q"])
            board[home + 3 if side == "K" else home - 4] = "R" if white else "r"
            fx = 5 if side == "K" else 3
            ekx, eky = fx + rng.choice([-1, 0, 0, 1]), (rng.choice([1, 2]) if white else rng.choice([6, 5]))
            if board[eky * 8 + ekx] is None: board[eky * 8 + ekx] = ek
            else: continue
            esc = [y * 8 + x for x in range(max(0, ekx - 1), min(8, ekx + 2)) for y in range(max(0, eky - 1), min(8, eky + 2))]
            _cover(rng, board, white, esc, rng.randrange(2, 5))
        elif kind == "ep":
            y = 4 if white else 3
            a = rng.randrange(0, 7); b = a + 1
            if rng.random() < 0.5: a, b = b, a
            board[y * 8 + a] = "P" if white else "p"; board[y * 8 + b] = "p" if white else "P"
            ekx, eky = max(0, min(7, b + rng.choice([-2, -1, 0, 1, 2]))), y + fwd * rng.choice([1, 2])
            if board[eky * 8 + ekx] is None: board[eky * 8 + ekx] = ek
            esc = [yy * 8 + x for x in range(max(0, ekx - 1), min(8, ekx + 2)) for yy in range(max(0, eky - 1), min(8, eky + 2))]
            _cover(rng, board, white, esc, rng.randrange(2, 5))
        else:   # discovered / double check: my slider, my blocker, enemy king on one line
            ks = rng.randrange(64); board[ks] = ek
            kx, ky = ks % 8, ks // 8
            dx, dy = rng.choice([(1, 0), (-1, 0), (0, 1), (0, -1), (1, 1), (1, -1), (-1, 1), (-1, -1)])
            line = []
            x, y = kx + dx, ky + dy
            while 0 <= x < 8 and 0 <= y < 8: line.append(y * 8 + x); x += dx; y += dy
            if len(line) >= 2:
                i = rng.randrange(0, len(line) - 1); j = rng.randrange(i + 1, len(line))
                bl = rng.choice("NBRP" if dx * dy == 0 else "NRP")
                if bl == "P" and not 8 <= line[i] < 56: bl = "N"
                board[line[i]] = bl if white else bl.lower()
                sl = rng.choice("QR" if dx * dy == 0 else "QB")
                board[line[j]] = sl if white else sl.lower()
            esc = [yy * 8 + x for x in range(max(0, kx - 1), min(8, kx + 2)) for yy in range(max(0, ky - 1), min(8, ky + 2))]
            _cover(rng, board, white, esc, rng.randrange(1, 4))
        # own king somewhere harmless, a few random extras
        if ok not in board:
            for _ in range(30):
                s = rng.randrange(64)
                if board[s] is None: board[s] = ok; break
        if ek not in board or ok not in board: continue
        for _ in range(rng.randrange(0, 4)):
            s = rng.randrange(8, 56)
            if board[s] is None: board[s] = rng.choice("PpNnBb")
        castle = "-"
        if kind == "castle": castle = ("KQ" if white else "kq")
        ep = "-"
        if kind == "ep": ep = "abcdefgh"[b] + ("6" if white else "3")
        out.append(board_to_fen(board, white, castle, ep, 0, 30))
    return out


def move_class(fen, mv):
    """coarse class of a UCI move in a position: promo / promo-capture / castle / ep / capture / quiet"""
    rows = fen.split()[0].split("/")
    bd = {}
    for r, row in enumerate(rows):
        x = 0
        for c in row:
            if c.isdigit(): x += int(c)
            else: bd[(x, 7 - r)] = c; x += 1
    f = (ord(mv[0]) - 97, int(mv[1]) - 1); t = (ord(mv[2]) - 97, int(mv[3]) - 1)
    pc = bd.get(f, "?"); tg = bd.get(t)
    if len(mv) == 5: return "promo-capture" if tg else "promo"
    if pc in "Kk" and abs(f[0] - t[0]) == 2: return "castle"
    if pc in "Pp" and f[0] != t[0] and tg is None: return "ep"
    return "capture" if tg else "quiet"


# ---- "forced losing recapture" baits (C04): the side to move has a check after which the only legal replies capture the
#      checking piece with a more valuable piece while the checker is protected (Rd8+ Qxd8 Bxd8; Nf7+ Qxf7 Bxf7).  No mate —
#      a quiescence search that prunes losing captures while in check would announce one.  Callers filter by shape.
def _sq(name): return "abcdefgh".index(name[0]) + 8 * (int(name[1]) - 1)


def recapture_baits(rng, n):
    out = []
    templates = [
        # (pieces, side to move white) in white-attacks orientation
        ({"g8": "k", "f7": "p", "g7": "p", "h7": "p", "c7": "q", "d1": "R", "g5": "B", "g1": "K", "f2": "P", "g2": "P", "h2": "P"}, ["d8", "e7", "f6", "d2", "d3", "d4", "d5", "d6", "d7", "e8", "f8", "h8"]),
        ({"h8": "k", "g8": "r", "g7": "p", "h7": "p", "e7": "q", "g5": "N", "c4": "B", "g1": "K", "g2": "P", "h2": "P"}, ["f7", "d5", "e6", "f8", "f6"]),
        ({"g8": "k", "f7": "p", "g7": "p", "h7": "p", "b6": "q", "e1": "R", "h4": "B", "h1": "K", "g2": "P", "h2": "P"}, ["e8", "f8", "e2", "e3", "e4", "e5", "e6", "e7", "d8", "c7", "g5", "f6", "h8"]),
        ({"e8": "k", "d8": "r", "f8": "b", "d7": "p", "f7": "p", "e7": "q", "b5": "N", "f4": "B", "g1": "K"}, ["d6", "c7", "e5"]),
    ]
    for _ in range(n):
        pcs, keep_empty = rng.choice(templates)
        board = [None] * 64
        for k, v in pcs.items(): board[_sq(k)] = v
        crit = {_sq(k) for k in keep_empty} | {_sq(k) for k in pcs}
        # random extra material away from the critical squares
        for _e in range(rng.randrange(0, 7)):
            t = rng.choice("PPPNBRpppnbr")
            sq = rng.randrange(8, 56) if t in "Pp" else rng.randrange(64)
            if sq not in crit and board[sq] is None: board[sq] = t
        white = True
        if rng.random() < 0.5:     # mirror files
            board = [board[(i // 8) * 8 + 7 - i % 8] for i in range(64)]
        if rng.random() < 0.5:     # colour flip
            board = [(lambda p: None if p is None else p.swapcase())(board[(7 - i // 8) * 8 + i % 8]) for i in range(64)]
            white = False
        out.append(board_to_fen(board, white, "-", "-", 0, 30))
    return out


def fen_board(fen):
    b = [None] * 64
    y, x = 7, 0
    for c in fen.split()[0]:
        if c == "/": y -= 1; x = 0
        elif c.isdigit(): x += int(c)
        else: b[y * 8 + x] = c; x += 1
    return b
