#!/usr/bin/env python3
"""usage: seedtest.py <property id> <patch.diff> [tier]  — apply a seeded change to /repo, run the check, revert."""
import os, subprocess, sys, time
LAB = os.environ.get("SEEDLAB")          # optional: a private pair of worktrees <lab>/repo, <lab>/verif so that /repo stays untouched
REPO = LAB + "/repo" if LAB else "/repo"
VERIF = LAB + "/verif" if LAB else "/verif"
ENV = dict(os.environ, VERIF_REPO=REPO)
prop, patch = sys.argv[1], sys.argv[2]
tier = sys.argv[3] if len(sys.argv) > 3 else "quick"
st = subprocess.run(["git", "-C", REPO, "status", "--porcelain"], capture_output=True, text=True).stdout.strip()
assert st == "", REPO + " not clean: " + st
r = subprocess.run(["git", "-C", REPO, "apply", patch], capture_output=True, text=True)
if r.returncode != 0:
    print("patch does not apply:", r.stderr); sys.exit(2)
t0 = time.time()
try:
    p = subprocess.run(["./check", prop, "--tier", tier], cwd=VERIF, env=ENV, capture_output=True, text=True)
    out = p.stdout + p.stderr
    lines = [l for l in out.split("\n") if l.startswith("VIOLATION") or "] OK " in l or l.startswith("KNOWN")]
    print(f"{prop} {patch}: rc={p.returncode} {time.time()-t0:.0f}s")
    for l in lines[:4]: print("   ", l[:300])
    v = [l for l in out.split("\n") if "violation:" in l]
    for l in v[:2]: print("    >", l[:400])
finally:
    subprocess.run(["git", "-C", REPO, "checkout", "--", "."])
    subprocess.run(["git", "-C", REPO, "clean", "-fdq", "--", "lib", "app", "test"])
