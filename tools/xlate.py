"""xlate — the "model regenerated from the source" tie, as a library for the property checks.

    xr = xlate.regenerate(ctx, ["TT"])     # translate the kernels of module TT from $VERIF_REPO's CURRENT sources
                                           # (tools/cxx2lean.py), then `lake build TexelVerif.Bridge.TT`, audit axioms
    ... run the differential ...
    xlate.report(ctx, xr)                  # VIOLATION ... no-failing-input-found naming the Bridge theorem(s), unless the
                                           # differential already produced a failing input (then only a note is added)

`regenerate` never raises on a broken tie; it returns a structured result:
    xr.ok                       every requested module translated and every Bridge theorem checked
    xr.modules[m] = {"translated": bool, "translate_error": str|None, "generated": path, "sources_changed": bool,
                     "bridge_ok": bool, "failed_theorems": [names], "errors": [first error lines],
                     "theorems": [all Bridge theorem names], "axioms_ok": bool}
Cheap when nothing changed: the clang ASTs are cached by the hash of the source tree, the translation is skipped when
(source tree, translator, kernels.json) are unchanged, lake rebuilds nothing, and the axiom audit is keyed by the
.olean of the Bridge module.
"""
import fcntl, hashlib, json, os, re, time
import cxx2lean
import vlib

HERE = os.path.dirname(os.path.abspath(__file__))
KERNELS = os.path.join(HERE, "kernels.json")
GEN_DIR = os.path.join(vlib.LEAN, "TexelVerif", "Generated")
BRIDGE_DIR = os.path.join(vlib.LEAN, "TexelVerif", "Bridge")
CACHE = os.path.join(vlib.BUILD, "xlate")


class Result:
    def __init__(self):
        self.ok = True
        self.modules = {}
        self.wall_s = 0.0

    def failed(self):
        return [m for m, r in self.modules.items() if not (r["translated"] and r["bridge_ok"] and r["axioms_ok"])]

    def theorem_count(self):
        return sum(len(r["theorems"]) for r in self.modules.values())

    def discharged_count(self):
        n = 0
        for r in self.modules.values():
            if r["translated"] and r["axioms_ok"]:
                n += len(r["theorems"]) - len(r["failed_theorems"]) if not r["bridge_ok"] else len(r["theorems"])
        return n


def _sha(path):
    return hashlib.sha1(open(path, "rb").read()).hexdigest() if os.path.exists(path) else None


def all_modules():
    return sorted(cxx2lean.load_kernels(KERNELS))


def bridge_theorems(module):
    """[(fully qualified name, first line, last line)] of the theorems of Bridge/<module>.lean."""
    p = os.path.join(BRIDGE_DIR, f"{module}.lean")
    src = vlib.strip_comments(open(p).read()).split("\n")
    res, ns = [], []
    for i, line in enumerate(src, 1):
        m = re.match(r"\s*namespace\s+(\S+)", line)
        if m:
            ns.append(m.group(1)); continue
        m = re.match(r"\s*end\s+(\S+)", line)
        if m and ns and ns[-1] == m.group(1):
            ns.pop(); continue
        m = re.match(r"\s*(?:@\[[^\]]*\]\s*)?(?:private\s+|protected\s+)?(theorem|def|lemma)\s+(\S+)", line)
        if m:
            if res:
                res[-1][2] = i - 1
            res.append([".".join(ns + [m.group(2)]), i, len(src), m.group(1)])
    return [(n, a, b) for n, a, b, k in res if k == "theorem"], [(n, a, b) for n, a, b, k in res]


def with_deps(modules):
    """Modules plus the generated modules their Bridge files import (directly or through other Bridge files)."""
    out, todo = [], list(modules)
    while todo:
        m = todo.pop(0)
        if m in out:
            continue
        out.append(m)
        bp = os.path.join(BRIDGE_DIR, f"{m}.lean")
        if os.path.exists(bp):
            for d in re.findall(r"^import\s+TexelVerif\.(?:Generated|Bridge)\.(\w+)", open(bp).read(), re.M):
                if d not in out:
                    todo.append(d)
    return out


def regenerate(ctx, modules, repo=None):
    modules = with_deps(modules)
    t0 = time.time()
    repo = repo or vlib.REPO
    os.makedirs(CACHE, exist_ok=True)
    res = Result()
    with open(os.path.join(CACHE, "lock"), "w") as lk:
        fcntl.flock(lk, fcntl.LOCK_EX)
        _regenerate(ctx, list(modules), repo, res)
    res.wall_s = round(time.time() - t0, 2)
    res.ok = not res.failed()
    if ctx is not None:
        ctx.cov["obligations"] += res.theorem_count()
        ctx.cov["discharged"] += res.discharged_count()
        for m, r in res.modules.items():
            ctx.tie(f"xlate-{m}", kind="Lean definitions regenerated from the C++ source by tools/cxx2lean.py + Bridge theorems (Generated = hand model)",
                    translated=r["translated"], bridge_ok=r["bridge_ok"], theorems=len(r["theorems"]), kernels=r.get("kernels"),
                    sources_changed=r["sources_changed"], wall_s=res.wall_s)
        ctx.cov.setdefault("trusted_base", []).append(
            "cxx2lean translator: clang-14 typed AST -> Lean (C semantics assumed: see notes/xlate.md, section 'trusted assumptions')")
        ctx.log(f"xlate {','.join(modules)}: " + ("ok" if res.ok else "BROKEN " + json.dumps({m: (res.modules[m]['translate_error'] or res.modules[m]['failed_theorems'] or res.modules[m]['errors'][:2]) for m in res.failed()})[:600])
                + f" ({res.theorem_count()} Bridge theorems, {res.wall_s}s)")
    return res


def _regenerate(ctx, modules, repo, res):
    state_p = os.path.join(CACHE, "state.json")
    state = json.load(open(state_p)) if os.path.exists(state_p) else {}
    key = hashlib.sha1((cxx2lean.tree_hash(repo) + _sha(os.path.join(HERE, "cxx2lean.py")) + _sha(KERNELS) + os.path.abspath(repo)).encode()).hexdigest()
    kern = cxx2lean.load_kernels(KERNELS)
    todo = []
    for m in modules:
        st = state.get(m, {})
        gen = os.path.join(GEN_DIR, f"{m}.lean")
        fresh = st.get("key") == key and st.get("gen_sha") == _sha(gen) and st.get("translated") is not None
        res.modules[m] = {"translated": st.get("translated", False) if fresh else False, "translate_error": st.get("translate_error") if fresh else None,
                          "generated": gen, "sources_changed": not fresh, "bridge_ok": False, "failed_theorems": [], "errors": [],
                          "theorems": [], "axioms_ok": False, "kernels": len(kern.get(m, []))}
        if not fresh:
            todo.append(m)
    if todo:
        tr = cxx2lean.translate(repo, KERNELS, GEN_DIR, todo, CACHE)
        for m in todo:
            r = res.modules[m]
            r["translated"], r["translate_error"] = tr[m]["ok"], tr[m]["error"]
            state[m] = {"key": key, "gen_sha": _sha(r["generated"]), "translated": r["translated"], "translate_error": r["translate_error"]}
        with open(state_p + ".tmp", "w") as f:
            json.dump(state, f, indent=1)
        os.replace(state_p + ".tmp", state_p)
    # Bridge proofs
    for m in modules:
        r = res.modules[m]
        bp = os.path.join(BRIDGE_DIR, f"{m}.lean")
        if not os.path.exists(bp):
            r["errors"] = [f"lean/TexelVerif/Bridge/{m}.lean does not exist"]
            continue
        thms, decls = bridge_theorems(m)
        r["theorems"] = [t[0] for t in thms]
        if not r["translated"]:
            r["failed_theorems"] = list(r["theorems"])
            r["errors"] = [r["translate_error"] or "translation failed"]
            continue
        ok, out = vlib.lake_build([f"TexelVerif.Bridge.{m}"])
        if not ok:
            errs = []
            bad = []
            for mm in re.finditer(r"error: (\S+?\.lean):(\d+):(\d+): (.*)", out):
                errs.append(f"{os.path.basename(mm.group(1))}:{mm.group(2)}: {mm.group(4)[:160]}")
                if mm.group(1).endswith(f"Bridge/{m}.lean"):
                    ln = int(mm.group(2))
                    for n, a, b in decls:
                        if a <= ln <= b and n not in bad:
                            bad.append(n)
            r["errors"] = errs[:8] or [l for l in out.split("\n") if "error" in l][:8]
            r["failed_theorems"] = bad or list(r["theorems"])
            continue
        r["bridge_ok"] = True
        # axiom audit, keyed by the compiled Bridge module
        olean = os.path.join(vlib.LEAN, ".lake", "build", "lib", "lean", "TexelVerif", "Bridge", f"{m}.olean")
        ak = (_sha(olean) or "") + ",".join(r["theorems"])
        if state.get(m, {}).get("audit_key") == ak:
            r["axioms_ok"] = True
            continue
        tmp = os.path.join(vlib.LEAN, ".lake", f"audit_bridge_{m}.lean")
        with open(tmp, "w") as f:
            f.write(f"import TexelVerif.Bridge.{m}\n" + "".join(f"#print axioms {t}\n" for t in r["theorems"]))
        rc, out = vlib.sh(["lake", "env", "lean", tmp], cwd=vlib.LEAN, timeout=600)
        seen, badax = set(), []
        for mm in re.finditer(r"'([^']+)' (?:depends on axioms: \[([^\]]*)\]|does not depend on any axioms)", out.replace("\n  ", " ").replace("\n", " ")):
            ax = set(a.strip() for a in (mm.group(2) or "").split(",") if a.strip())
            seen.add(mm.group(1))
            if not ax <= vlib.ALLOWED_AXIOMS:
                badax.append((mm.group(1), sorted(ax - vlib.ALLOWED_AXIOMS)))
        missing = [t for t in r["theorems"] if t not in seen]
        hyg = [p for p in vlib.lean_hygiene() if f"Bridge/{m}.lean" in p or "Util/" in p]
        if rc != 0 or badax or missing or hyg:
            r["errors"] = [f"axiom audit: bad={badax} missing={missing} hygiene={hyg}"]
            r["failed_theorems"] = [b[0] for b in badax] + missing
            continue
        r["axioms_ok"] = True
        state.setdefault(m, {})["audit_key"] = ak
        with open(state_p + ".tmp", "w") as f:
            json.dump(state, f, indent=1)
        os.replace(state_p + ".tmp", state_p)


def report(ctx, res, what=None):
    """Turn a broken tie into a violation (no failing input), unless the check already holds a failing input."""
    if res.ok:
        return True
    have_input = any(not v[1] for v in ctx.violations)
    for m in res.failed():
        r = res.modules[m]
        if not r["translated"]:
            msg = f"translator tie broken for module {m}: cxx2lean cannot translate the current source: {(r['translate_error'] or '')[:300]}"
        elif not r["bridge_ok"]:
            msg = (f"Bridge theorem(s) {', '.join(t.split('.')[-1] for t in r['failed_theorems'][:6])} of lean/TexelVerif/Bridge/{m}.lean no longer hold for the "
                   f"definitions regenerated from the current C++ source (the kernel's semantics changed): {'; '.join(r['errors'][:2])[:300]}")
        else:
            msg = f"axiom audit of Bridge/{m}.lean failed: {r['errors']}"
        if have_input:
            ctx.notes.append("(superseded by a failing input) " + msg)
            ctx.log("xlate: " + msg)
        else:
            ctx.violation(msg, {"kind": "bridge", "module": m, "failed_theorems": r["failed_theorems"], "errors": r["errors"],
                                "translate_error": r["translate_error"], "generated": os.path.relpath(r["generated"], vlib.VERIF),
                                "how_to_reproduce": f"python3 tools/cxx2lean.py --repo $VERIF_REPO --modules {m} && (cd lean && lake build TexelVerif.Bridge.{m})"},
                          no_input=True)
    return False


def regenerate_all(repo=None):
    """Used by ./check --setup so that `lake build TexelVerif` (root imports Bridge/*) finds the generated files."""
    res = regenerate(None, all_modules(), repo)
    try:        # the lock/wait facts of C09/C10 (Bridge/LockFacts.lean, Bridge/WaitFacts.lean import Generated/LockFacts.lean)
        import locktie
        with open(os.path.join(CACHE, "lock"), "w") as lk:
            fcntl.flock(lk, fcntl.LOCK_EX)
            g = locktie.generate(repo or vlib.REPO, GEN_DIR, CACHE)
        if not g["ok"]:
            print("setup: locktie extraction failed:", g["error"])
    except Exception as e:      # never let the set-up of the other properties depend on this
        print("setup: locktie:", e)
    return res


if __name__ == "__main__":
    import sys
    mods = sys.argv[1:] or all_modules()
    r = regenerate(None, mods)
    print(json.dumps({"ok": r.ok, "wall_s": r.wall_s, "modules": r.modules}, indent=1))
    sys.exit(0 if r.ok else 1)
