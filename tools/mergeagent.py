#!/usr/bin/env python3
"""Merge an agent branch into /verif main, resolving the expected conflicts:
 - lean/Driver.lean: union of both sides per conflict hunk; - lean/TexelVerif.lean: regenerated;
 - known_findings.json / hooks.json: JSON union."""
import json, re, subprocess, sys, os
name = sys.argv[1]
V = os.path.dirname(os.path.dirname(os.path.abspath(__file__)))
def git(*a, check=False):
    return subprocess.run(["git", "-C", V] + list(a), capture_output=True, text=True, check=check)
base = {f: git("show", f"HEAD:{f}").stdout for f in ("known_findings.json", "hooks.json")}
r = git("merge", "--no-commit", f"agent/{name}")
print(r.stdout[-800:], r.stderr[-400:])
conf = git("diff", "--name-only", "--diff-filter=U").stdout.split()
for f in conf:
    p = os.path.join(V, f)
    if f == "lean/TexelVerif.lean":
        git("checkout", "--ours", f); continue
    if f in ("known_findings.json", "hooks.json"):
        ours = json.loads(base[f]); theirs = json.loads(git("show", f"agent/{name}:{f}").stdout)
        if f == "hooks.json":
            ours["commits"] = list(dict.fromkeys(ours["commits"] + theirs["commits"]))
        else:
            for k in ("known", "fixed"):
                for e in theirs.get(k, []):
                    if e not in ours[k]: ours[k].append(e)
        json.dump(ours, open(p, "w"), indent=1); continue
    s = open(p).read()
    s = re.sub(r"<<<<<<< [^\n]*\n(.*?)=======\n(.*?)>>>>>>> [^\n]*\n", lambda m: m.group(1) + m.group(2), s, flags=re.S)
    open(p, "w").write(s)
    print("union-resolved", f)
# non-conflicting json merges may still have dropped entries: re-union
for f in ("known_findings.json", "hooks.json"):
    if f not in conf:
        try:
            ours = json.load(open(os.path.join(V, f))); theirs = json.loads(git("show", f"agent/{name}:{f}").stdout); b = json.loads(base[f])
            if f == "hooks.json": ours["commits"] = list(dict.fromkeys(b["commits"] + ours["commits"] + theirs["commits"]))
            else:
                for k in ("known", "fixed"):
                    for e in b.get(k, []) + theirs.get(k, []):
                        if e not in ours[k]: ours[k].append(e)
            json.dump(ours, open(os.path.join(V, f), "w"), indent=1)
        except Exception as e:
            print("json re-union skipped", f, e)
subprocess.run([os.path.join(V, "tools", "genroot.sh")])
print("now: review, lake build driver, git add -A && git commit")
