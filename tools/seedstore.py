#!/usr/bin/env python3
"""usage: seedstore.py <seed name> <src out dir> <check result text>  — copy a confirmed seeded change into /verif/seeded/<name>/"""
import json, os, shutil, sys
name, src, result = sys.argv[1], sys.argv[2], sys.argv[3]
dst = os.path.join("/verif/seeded", name)
os.makedirs(dst, exist_ok=True)
shutil.copy(os.path.join(src, "patch.diff"), dst)
if os.path.isdir(os.path.join(dst, "demo")): shutil.rmtree(os.path.join(dst, "demo"))
shutil.copytree(os.path.join(src, "demo"), os.path.join(dst, "demo"), ignore=shutil.ignore_patterns("_b*", "*.o", "build*", "__pycache__"))
m = json.load(open(os.path.join(src, "meta.json")))
conf = open(os.path.join(src, "confirm.txt")).read() if os.path.exists(os.path.join(src, "confirm.txt")) else "NOT CONFIRMED"
meta = {"property": m.get("property"), "summary": m.get("summary"), "needs_to_manifest": m.get("needs_to_manifest"),
        "files_touched": m.get("files_touched"), "author": "fresh sub-agent given only the property text and a scratch worktree of /repo",
        "confirmed_by_me": {"what_i_ran": "tools/seedconfirm.sh: scratch worktree of /repo HEAD; demo/run.sh on pristine (must exit 0) and with patch.diff applied (must exit non-zero); tools/baseline.py on the patched worktree (all stable_pass tests must still pass)",
                            "log": conf},
        "check_result": result}
json.dump(meta, open(os.path.join(dst, "meta.json"), "w"), indent=1)
print("stored", dst)
