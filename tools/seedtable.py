#!/usr/bin/env python3
"""Rewrites the table of DESIGN.md section 11 (between the SEEDTABLE markers) from seeded/*/meta.json."""
import json, os, re
HERE = os.path.dirname(os.path.dirname(os.path.abspath(__file__)))
def short(t, n):
    t = " ".join((t or "").replace("|", "/").split())
    return t if len(t) <= n else t[:n - 1].rsplit(" ", 1)[0] + " …"
rows = []
for d in sorted(os.listdir(os.path.join(HERE, "seeded"))):
    mp = os.path.join(HERE, "seeded", d, "meta.json")
    if not os.path.exists(mp): continue
    m = json.load(open(mp))
    files = ", ".join(os.path.basename(f) for f in (m.get("files_touched") or []))[:60]
    rows.append(f"| `{d}` ({files}) | {short(m.get('needs_to_manifest'), 170)} | {short(m.get('check_result'), 330)} |")
missed = sum(1 for r in rows if "MISSED" in r or "missed" in r)
table = ("| seed (files touched) | needs to manifest | result |\n|---|---|---|\n" + "\n".join(rows) +
         f"\n\n{len(rows)} seeded changes; {missed} were missed by the check of their property when first run and are caught after the strengthening named in the row.\n")
p = os.path.join(HERE, "DESIGN.md")
s = open(p).read()
a, b = "<!-- SEEDTABLE -->", "<!-- /SEEDTABLE -->"
if a in s:
    s = s[:s.index(a) + len(a)] + "\n" + table + s[s.index(b):]
    open(p, "w").write(s)
    print(f"table rewritten: {len(rows)} rows, {missed} first-run misses")
else:
    print(table)
