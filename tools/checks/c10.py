"""C10 — search control always terminates with exactly one result.
Lean: Props/C10.lean (invariants of the protocol model Conc/Model.lean over all interleavings: sticky notifier,
per-edge stop-ack debt, quiescence at ack, job/epoch tags, one best move per go, no deadlock).
Tie: the hooked `texel` binary (VERIF_EVENT at the synchronisation points, TEXEL_VERIF_EVENTS) is run on the
property's command scripts x Threads 1..8 with seeded random yields; every event log is replayed through the
model's `step` by the trace acceptor (`proto` line protocol of the Lean driver).  Independently of the model the
UCI-level outcome is checked: exactly one bestmove per go, exit status 0 within a wall bound, no search output
between a bestmove and the next go."""
import os, subprocess, tempfile, threading, time, json
from concurrent.futures import ThreadPoolExecutor
import vlib, locktie

WALL = float(os.environ.get("VERIF_C10_WALL", "40"))          # wall bound of one session (seconds)
FEN_MID = "r1bq1rk1/pp2bppp/2n1pn2/2pp4/3P1B2/2PBPN2/PP1N1PPP/R2QK2R w KQ - 0 8"


# ---------------------------------------------------------------------------------------------
# command scripts: lists of ("send", text) | ("sleep", seconds) | ("bm", timeout) | ("line", prefix, timeout)
# ---------------------------------------------------------------------------------------------

def prologue(threads, hash_mb=4):
    return [("send", "uci"), ("line", "uciok", 10), ("send", f"setoption name Threads value {threads}"),
            ("send", f"setoption name Hash value {hash_mb}"), ("send", "setoption name OwnBook value false"),
            ("send", "isready"), ("line", "readyok", 20)]


def sc_go_stop(r, threads):
    s = prologue(threads)
    for _ in range(r.choice([1, 2, 3])):
        s += [("send", r.choice(["position startpos", "position fen " + FEN_MID])),
              ("send", r.choice(["go infinite", "go movetime 20000", "go depth 60"])),
              ("sleep", r.choice([0.0, 0.002, 0.01, 0.05, 0.15])), ("send", "stop"), ("bm", 20)]
    return s + [("send", "quit")]


def sc_go_finish(r, threads):
    s = prologue(threads)
    for _ in range(r.choice([1, 2, 4])):
        s += [("send", r.choice(["position startpos", "position startpos moves e2e4 e7e5", "position fen " + FEN_MID])),
              ("send", r.choice(["go depth 1", "go depth 3", "go depth 5", "go depth 6", "go movetime 30", "go nodes 3000"])), ("bm", 30)]
    return s + [("send", "quit")]


def sc_ponderhit(r, threads):
    s = prologue(threads)
    for _ in range(r.choice([1, 2])):
        s += [("send", "position startpos moves e2e4"), ("send", r.choice(["go ponder wtime 2000 btime 2000", "go ponder wtime 300 btime 300 winc 10 binc 10", "go ponder movetime 50"])),
              ("sleep", r.choice([0.0, 0.005, 0.03, 0.12])), ("send", "ponderhit"), ("bm", 30)]
    return s + [("send", "quit")]


def sc_ponder_stop(r, threads):
    s = prologue(threads)
    for _ in range(r.choice([1, 2])):
        s += [("send", "position startpos moves d2d4"), ("send", r.choice(["go ponder wtime 2000 btime 2000", "go ponder depth 4", "go ponder infinite"])),
              ("sleep", r.choice([0.0, 0.004, 0.03, 0.1])), ("send", "stop"), ("bm", 20)]
    return s + [("send", "quit")]


def sc_back_to_back(r, threads):
    s = prologue(threads)
    k = r.choice([2, 3, 5])
    for i in range(k):
        s += [("send", r.choice(["position startpos", "position fen " + FEN_MID])),
              ("send", r.choice(["go depth 3", "go infinite", "go movetime 15", "go depth 5"]))]
        if r.random() < 0.3:
            s += [("sleep", r.choice([0.001, 0.01, 0.04]))]
    # every go but the last is ended by its successor; the last one by stop
    s += [("sleep", 0.02), ("send", "stop"), ("bmall", 30)]
    return s + [("send", "quit")]


def sc_threads_change(r, threads):
    s = prologue(threads)
    ts = [threads] + [r.randrange(1, 9) for _ in range(r.choice([1, 2, 3]))]
    for i, t in enumerate(ts):
        if i > 0:
            s += [("send", f"setoption name Threads value {t}")]
            if r.random() < 0.5:
                s += [("send", "isready"), ("line", "readyok", 20)]
        if r.random() < 0.3:
            s += [("send", "ucinewgame")]
        s += [("send", "position startpos"), ("send", r.choice(["go depth 4", "go movetime 20", "go infinite"])),
              ("sleep", r.choice([0.0, 0.01, 0.05])), ("send", "stop"), ("bm", 20)]
    return s + [("send", "quit")]


def sc_quit_during(r, threads):
    s = prologue(threads)
    if r.random() < 0.5:
        s += [("send", "position startpos"), ("send", "go depth 3"), ("bm", 20)]
    s += [("send", "position fen " + FEN_MID), ("send", r.choice(["go infinite", "go ponder wtime 1000 btime 1000", "go movetime 20000"])),
          ("sleep", r.choice([0.0, 0.003, 0.02, 0.1]))]
    if r.random() < 0.5:
        s += [("send", "quit")]
    else:
        s += [("eof",)]
    return s


def sc_options_during(r, threads):
    """options sent while a search is running are applied when it ends"""
    s = prologue(threads)
    s += [("send", "position startpos"), ("send", "go infinite"), ("sleep", r.choice([0.0, 0.01, 0.04])),
          ("send", f"setoption name Threads value {r.randrange(1, 9)}"), ("send", "setoption name Hash value 8"),
          ("sleep", r.choice([0.0, 0.01])), ("send", "stop"), ("bm", 20), ("send", "isready"), ("line", "readyok", 20),
          ("send", "go depth 4"), ("bm", 30)]
    return s + [("send", "quit")]


def sc_slow_waiter(r, threads):
    """many back-to-back one-ply searches: each `go` meets its predecessor running, just finishing, or just finished (run with slow
    condition-variable waiters, harness/slowwait.c); every go must still get its bestmove and the engine must stay responsive"""
    s = prologue(threads)
    for i in range(r.choice([60, 100, 140])):
        s += [("send", "position startpos"), ("send", "go depth 1")]
        if i % 2 == 0:      # the next go arrives while this search is running or just finishing
            s += [("sleep", r.random() * 0.003)]
        else:               # ... or right after its bestmove, while the engine thread still collects acknowledgements / marks the search finished
            s += [("bm", 20), ("sleep", r.random() * r.choice([0.0002, 0.001, 0.004]))]
    s += [("bmall", 20), ("send", "isready"), ("line", "readyok", 10)]
    return s + [("send", "quit")]


SCRIPTS = {"go-stop": sc_go_stop, "go-finish": sc_go_finish, "ponder-ponderhit": sc_ponderhit, "ponder-stop": sc_ponder_stop,
           "back-to-back-go": sc_back_to_back, "threads-change": sc_threads_change, "quit-during-search": sc_quit_during,
           "options-during-search": sc_options_during}


# ---------------------------------------------------------------------------------------------
# running one session
# ---------------------------------------------------------------------------------------------

class Session:
    def __init__(self, binary, script, env, want_events=True, wall=WALL, args=()):
        self.binary, self.script, self.env, self.wall, self.args = binary, script, env, wall, list(args)
        self.want_events = want_events
        self.tscale = 1.0        # factor on the answer timeouts of the script (slow instrumented builds)
        self.lines = []          # (go commands sent when the line arrived, text)
        self.sent = []           # commands sent
        self.go_sent = 0
        self.lock = threading.Lock()
        self.cv = threading.Condition(self.lock)
        self.rc = None
        self.timed_out = False
        self.stderr = ""
        self.events = None
        self.stuck_at = None

    def _reader(self, p):
        for line in p.stdout:
            with self.cv:
                self.lines.append((self.go_sent, line.rstrip("\n")))
                self.cv.notify_all()
        with self.cv:
            self.cv.notify_all()

    def _wait(self, pred, timeout):
        end = time.time() + timeout
        with self.cv:
            while not pred():
                left = end - time.time()
                if left <= 0:
                    return False
                self.cv.wait(left)
        return True

    def n_bm(self):
        return sum(1 for _, l in self.lines if l.startswith("bestmove"))

    def run(self):
        env = dict(os.environ)
        env.update(self.env)
        evf = None
        if self.want_events:
            fd, evf = tempfile.mkstemp(prefix="ev_", suffix=".log", dir=os.path.join(vlib.BUILD, "tmp"))
            os.close(fd)
            env["TEXEL_VERIF_EVENTS"] = evf
        t0 = time.time()
        p = subprocess.Popen([self.binary] + self.args, stdin=subprocess.PIPE, stdout=subprocess.PIPE, stderr=subprocess.PIPE,
                             text=True, env=env, bufsize=1)
        errbuf = []
        te = threading.Thread(target=lambda: errbuf.append(p.stderr.read()), daemon=True)
        te.start()
        tr = threading.Thread(target=self._reader, args=(p,), daemon=True)
        tr.start()
        try:
            for i, st in enumerate(self.script):
                if time.time() - t0 > self.wall:
                    self.stuck_at = i; break
                k = st[0]
                if k == "send":
                    with self.lock:
                        if st[1].startswith("go"):
                            self.go_sent += 1
                        self.sent.append(st[1])
                    try:
                        p.stdin.write(st[1] + "\n"); p.stdin.flush()
                    except (BrokenPipeError, OSError):
                        self.stuck_at = i; break
                elif k == "sleep":
                    time.sleep(st[1])
                elif k == "bm":
                    want = self.go_sent
                    if not self._wait(lambda: self.n_bm() >= want or p.poll() is not None, st[1] * self.tscale):
                        self.stuck_at = i; break
                elif k == "bmall":
                    want = self.go_sent
                    if not self._wait(lambda: self.n_bm() >= want or p.poll() is not None, st[1] * self.tscale):
                        self.stuck_at = i; break
                elif k == "line":
                    if not self._wait(lambda: any(l.startswith(st[1]) for _, l in self.lines) or p.poll() is not None, st[2] * self.tscale):
                        self.stuck_at = i; break
                elif k == "eof":
                    break
            try:
                p.stdin.close()
            except OSError:
                pass
            try:
                self.rc = p.wait(timeout=max(1.0, self.wall - (time.time() - t0)))
            except subprocess.TimeoutExpired:
                self.timed_out = True
                p.kill(); p.wait()
                self.rc = -9
        finally:
            if p.poll() is None:
                p.kill(); p.wait()
        tr.join(2); te.join(2)
        self.stderr = (errbuf[0] if errbuf else "")[-40000:]
        self.wall_s = time.time() - t0
        if evf:
            try:
                self.events = [l.rstrip("\n") for l in open(evf)]
            except OSError:
                self.events = []
            os.unlink(evf)
        return self

    # ---- the property's own predicate on the UCI-level outcome --------------------------------
    def outcome_problems(self):
        probs = []
        gos = self.go_sent
        bms = self.n_bm()
        if self.timed_out:
            probs.append(f"process still running after {self.wall:.0f} s (stuck at script step {self.stuck_at})")
        elif self.rc != 0 and not (self.rc == 66 and getattr(self, "known_tsan", False)):
            probs.append(f"exit status {self.rc}")
        if self.stuck_at is not None and not self.timed_out:
            probs.append(f"no answer at script step {self.stuck_at}: {self.script[self.stuck_at]}")
        if bms != gos:
            probs.append(f"{gos} go commands, {bms} bestmove lines")
        # no search output between a bestmove and the next go: a line that arrived while `go_sent` was still k,
        # after the k-th bestmove, must not be search output
        seen_bm = 0
        for g, l in self.lines:
            if l.startswith("bestmove"):
                seen_bm += 1
                if seen_bm > g:
                    probs.append(f"bestmove number {seen_bm} arrived when only {g} go commands had been sent")
            elif l.startswith("info ") and not l.startswith("info string"):
                if seen_bm >= g and g > 0:
                    probs.append(f"search output after bestmove {seen_bm} before the next go: {l[:60]}")
        return probs[:4]

    def replay(self):
        return {"binary": os.path.basename(self.binary), "args": self.args, "env": {k: v for k, v in self.env.items() if k.startswith("TEXEL")},
                "script": [list(s) for s in self.script]}


def accept_logs(ctx, sessions, strict=False):
    """Feed every session's event log to the trace acceptor.  Returns list of (session, verdict line or None)."""
    lines, spans = [], []
    for s in sessions:
        a = len(lines)
        lines.append("proto reset strict" if strict else "proto reset")
        lines += ["proto ev " + e for e in (s.events or [])]
        lines.append("proto end")
        spans.append((a, len(lines)))
    rc, out, err = vlib.run_lines(vlib.driver_bin(), lines)
    res = []
    if rc != 0 or len(out) != len(lines):
        ctx.violation(f"trace acceptor died (rc={rc})", {"kind": "model-crash", "stderr": err[-500:]}, no_input=True)
        return [(s, "acceptor died", 0) for s in sessions]
    for s, (a, b) in zip(sessions, spans):
        bad = None
        for i in range(a, b):
            if not out[i].startswith("ok"):
                if out[i] != "skip":
                    bad = f"event {i - a - 1} `{lines[i][9:]}`: {out[i]}"
                    s.reject_index = i - a - 1
                break
        res.append((s, bad, b - a - 2))
    return res


def make_sessions(ctx, binary, net, per_cell, thread_range, want_events=True, yields=True, scripts=None):
    r = ctx.rng
    sess = []
    for name, fn in (scripts or SCRIPTS).items():
        for t in thread_range:
            for k in range(per_cell):
                script = fn(r, t)
                env = {"TEXEL_VERIF_NET": net}
                if yields and r.random() < 0.8:
                    env["TEXEL_VERIF_YIELD"] = f"{r.randrange(1 << 30)}:{r.choice([5, 20, 60, 150])}"
                s = Session(binary, script, env, want_events=want_events)
                s.name, s.threads = name, t
                sess.append(s)
    return sess


def run_sessions(sess, par):
    os.makedirs(os.path.join(vlib.BUILD, "tmp"), exist_ok=True)
    with ThreadPoolExecutor(max_workers=par) as ex:
        list(ex.map(lambda s: s.run(), sess))
    return sess


def judge(ctx, sess, tie_name, check_accept=True, strict=False):
    """Outcome predicate + acceptor verdict for every session."""
    acc = accept_logs(ctx, sess, strict) if check_accept else [(s, None, 0) for s in sess]
    nev = 0
    for s, bad, n in acc:
        nev += n
        ctx.count(1)
        ctx.distinct((s.name, s.threads, tuple(s.sent)))
        probs = s.outcome_problems()
        if len(ctx.cov["samples"]) < 4:
            ctx.sample({"script": s.name, "threads": s.threads, "commands": s.sent[-6:], "bestmoves": s.n_bm(), "events": n, "acceptor": bad or "accepted"})
        if probs:
            ctx.violation(f"{s.name} with Threads {s.threads}: " + "; ".join(probs),
                          dict(s.replay(), kind="uci-outcome", problems=probs, acceptor=bad, output_tail=[l for _, l in s.lines[-8:]], stderr=s.stderr[-600:]))
        elif bad:
            extra = {"finding_id": "worker-destroy-vs-poll"} if (strict and "exit-not-quiet" in bad) else {}
            # Two families of rejections state the property itself on the recorded history (a result used for another search;
            # at the end: searches without best move, helpers unacknowledged, search flag set): the event log then is the failing history.
            prop_level = ("a helper result was consumed for job" in bad) or ("reject final:" in bad)
            ctx.violation(f"{s.name} with Threads {s.threads}: event log is not a run of the protocol model: {bad}",
                          dict(s.replay(), **extra, kind="correspondence", theorem_scope="Props/C10.lean, Props/C09.lean (the code left the modelled protocol)",
                               acceptor=bad, events_tail=(s.events or [])[max(0, getattr(s, "reject_index", 0) - 25):getattr(s, "reject_index", 0) + 1]), no_input=not prop_level)
    ctx.tie(tie_name, kind="trace acceptor: hook event log of the real binary replayed through Conc.step", sessions=len(sess), events=nev)
    return nev


def replay_session(ctx, rp, variant, wall=WALL, tscale=1.0):
    bdir = vlib.cxx_build(variant, ("texel", "mknet"))
    net = vlib.net_file(bdir, "material", 1)
    env = dict(rp.get("env", {})); env["TEXEL_VERIF_NET"] = net
    script = [tuple(x) for x in rp["script"]]
    s = Session(os.path.join(bdir, "texel"), script, env, wall=wall)
    s.name, s.threads, s.tscale = "replay", 0, tscale
    s.run()
    for g, l in s.lines[-12:]:
        print("   out:", l)
    print("   rc:", s.rc, "problems:", s.outcome_problems())
    return s


def run(ctx):
    quick = ctx.tier == "quick"
    if ctx.replay:
        rp = ctx.replay["replay"]
        if rp.get("kind") == "locktie":
            locktie.regenerate(ctx, "C10")
            return
        vlib.lake_build(["driver"])
        for attempt in range(1 if rp.get("kind") == "lean-build" else 5):
            s = replay_session(ctx, rp, "plain")
            judge(ctx, [s], "replay")
            if ctx.violations:
                break
        return
    vlib.lean_obligations(ctx)
    # static tie: wait / notify / write facts regenerated from the current source, Bridge/WaitFacts.lean proved over them
    lt = locktie.regenerate(ctx, "C10")
    bdir = vlib.cxx_build("plain", ("texel", "mknet"))
    net = vlib.net_file(bdir, "material", 1)
    binary = os.path.join(bdir, "texel")
    ctx.cov["rule"] = ("command scripts {go/stop, go/finish (depth, movetime, nodes), ponder/ponderhit, ponder/stop, back-to-back go, "
                       "setoption Threads between searches, options during a search, quit or EOF during search} x Threads 1..8 x seeded "
                       "random yields at the hook points; one evaluation = one engine process run to exit; distinct = distinct (script, Threads, command list)")
    ctx.assumptions += ["std::mutex / std::condition_variable / std::thread::join behave as specified (trusted)",
                        "the model's atomic wait / notify steps assume that a wait predicate changes only under the waiter's mutex: proved for the current source over lexically extracted facts (Bridge/WaitFacts.lean; limits of the lexical analysis in notes/C10.md)",
                        "the hook events are logged inside the critical section they describe, so the log order is a linearisation (notes/C10.md)",
                        "lock-free loads of the atomic flags are modelled as returning any value held between the pre-read and post-read hook events",
                        "OS scheduling plus seeded yields only samples interleavings; the theorems cover all of them for the model"]
    per_cell = 2 if quick else 8
    sess = make_sessions(ctx, binary, net, per_cell, range(1, 9))
    t0 = time.time()
    run_sessions(sess, 4 if quick else 6)
    ctx.log(f"{len(sess)} sessions in {time.time() - t0:.1f}s")
    nev = judge(ctx, sess, "protocol-acceptor")
    ctx.log(f"{nev} events replayed")
    # slow condition-variable waiters: a wait predicate changed outside its mutex loses the wake-up almost surely instead of once in a million
    shim = os.path.join(vlib.BUILD, "slowwait.so")
    cc = subprocess.run(["gcc", "-shared", "-fPIC", "-O1", "-o", shim, os.path.join(vlib.VERIF, "harness", "slowwait.c"), "-ldl"], capture_output=True, text=True)
    if cc.returncode != 0:
        ctx.violation("cannot build harness/slowwait.c: " + cc.stderr[-300:], {"kind": "harness-build"}, no_input=True)
    else:
        # when the static wait-predicate theorem is broken, look harder for the failing schedule (a lost wake-up) with this family
        boost = 3 if not lt["ok"] else 1
        sw = make_sessions(ctx, binary, net, (6 if quick else 20) * boost, [1, 3] if quick else [1, 2, 3, 5, 8], want_events=False, scripts={"slow-waiter": sc_slow_waiter})
        for x in sw:
            x.env["LD_PRELOAD"] = shim; x.env["VERIF_SLOWWAIT_US"] = "2000"
            x.env["TEXEL_VERIF_YIELD"] = f"{ctx.rng.randrange(1 << 30)}:500"
        t0 = time.time()
        run_sessions(sw, 4 if quick else 6)
        ctx.log(f"{len(sw)} slow-waiter sessions in {time.time() - t0:.1f}s")
        judge(ctx, sw, "slow-waiter-outcome", check_accept=False)
    if not quick:
        vlib.leanchecker(ctx, ["TexelVerif.Props.C10"])
