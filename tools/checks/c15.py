"""C15 — reverse move generation is complete and consistent with forward moves.
Lean: Props/C15.lean — relational spec `Pred Q (m, ui)` ("un-move of a legal move from a predecessor that counts"),
executable oracle `unMoves all Q` with `x ∈ unMoves all Q ↔ Pred Q x ∧ (mode condition)`, corollaries `complete`,
`consistent`, `noEp_covers`.
Tie: (1) property predicates on the implementation alone: for every (P, m, Q) of random legal games the played move
with P's undo information is in RevMoveGen::genMoves(Q) in both modes (`rev tri`); every listed un-move of every Q,
undone with the real unMakeMove, gives a position the FEN reader accepts unchanged, in which the real move generator
lists m, and from which makeMove + fixupEPSquare leads back to Q with the same undo information (`rev chk`);
(2) differential set equality of genMoves(Q, mode) with the proven oracle in the compiled Lean driver (`rev gen`)."""
import os, collections
import concurrent.futures as cf
import vlib, chessgen

# start positions chosen so that castling, e.p., promotions (with capture), right-losing moves occur early and often
STARTS = chessgen.SEED_FENS + [
    "r3k2r/pppppppp/8/8/8/8/PPPPPPPP/R3K2R w KQkq - 0 1",
    "r3k2r/8/8/8/8/8/8/R3K2R w KQkq - 0 1",
    "r3k2r/1P4P1/8/8/8/8/1p4p1/R3K2R w KQkq - 0 1",
    "r3k2r/pp4pp/8/2pPpP2/2PpPp2/8/PP4PP/R3K2R w KQkq e6 0 1",
    "4k3/pppppppp/8/8/8/8/PPPPPPPP/4K3 w - - 0 1",
    "4k3/p1p1p1p1/8/1P1P1P1P/1p1p1p1p/8/P1P1P1P1/4K3 w - - 0 1",
    "rn2k1nr/1P4P1/8/8/8/8/1p4p1/RN2K1NR w KQkq - 0 1",
    "1r2k1r1/P6P/8/8/8/8/p6p/1R2K1R1 b - - 0 1",
    "r3k2r/8/8/3pP3/3Pp3/8/8/R3K2R b KQkq - 0 1",
    "rnbqkbnr/ppp1p1pp/8/3pPp2/8/8/PPPP1PPP/RNBQKBNR w KQkq f6 0 3",
    "r1bqk2r/ppppbppp/2n2n2/4p3/2B1P3/5N2/PPPP1PPP/RNBQK2R w KQkq - 4 4",
    "2kr3r/ppp2ppp/8/8/8/8/PPP2PPP/2KR3R w - - 0 1",
    "QQQQk3/8/8/8/8/8/8/qqqqK3 w - - 0 1",
]


def motif_uncastle(rng):
    """positions in which the side that just moved has king and rook where castling would have put them, with the
    squares that must be empty / unattacked for the un-castling filled or attacked at random"""
    board = chessgen.random_placement(rng, dense=rng.random() < 0.4)
    white = rng.random() < 0.5                     # the side that (maybe) just castled
    base = 0 if white else 56
    K, R = ("K", "R") if white else ("k", "r")
    for i, p in enumerate(board):
        if p == K or (base <= i < base + 8 and p not in ("K", "k")): board[i] = None
    short = rng.random() < 0.5
    ksq, rsq = (base + 6, base + 5) if short else (base + 2, base + 3)
    for s in (ksq, rsq):
        if board[s] in ("K", "k"): return None
    board[ksq], board[rsq] = K, R
    must_empty = [base + 4, base + 7] if short else [base + 0, base + 1, base + 4]
    other = [base + i for i in range(8) if base + i not in (ksq, rsq) and base + i not in must_empty]
    for s in must_empty + other:
        if board[s] is None and rng.random() < (0.18 if s in must_empty else 0.25):
            board[s] = rng.choice("QRBNqrbn") if s in must_empty else rng.choice("RBNrbn")
    # enemy attackers aimed at the king's path (e1/f1 or e1/d1), sometimes
    for _ in range(rng.choice([0, 0, 1, 1, 2])):
        tgt = rng.choice([base + 4, rsq, ksq])
        t = rng.choice("RBNQ")
        tx, ty = tgt % 8, tgt // 8
        if t == "N":
            dx, dy = rng.choice([(1, 2), (2, 1), (-1, 2), (-2, 1), (1, -2), (2, -1), (-1, -2), (-2, -1)]); x, y = tx + dx, ty + dy
        else:
            fwd = 1 if white else -1
            dirs = [(0, fwd)] if t == "R" else [(1, fwd), (-1, fwd)] if t == "B" else [(0, fwd), (1, fwd), (-1, fwd)]
            dx, dy = rng.choice(dirs); k = rng.randrange(1, 7); x, y = tx + dx * k, ty + dy * k
        if 0 <= x < 8 and 0 <= y < 8 and board[y * 8 + x] is None:
            board[y * 8 + x] = t.lower() if white else t
    for x in range(8):
        for yy in (0, 7):
            if board[yy * 8 + x] in ("P", "p"): board[yy * 8 + x] = None
    # castling flags of the other side, consistent with its home squares
    ob = 56 if white else 0
    oK, oR = ("k", "r") if white else ("K", "R")
    cs = ""
    if board[ob + 4] == oK:
        if board[ob + 7] == oR and rng.random() < 0.6: cs += "k" if white else "K"
        if board[ob + 0] == oR and rng.random() < 0.6: cs += "q" if white else "Q"
    cs = "".join(sorted(cs, key="KQkq".index)) or "-"
    return chessgen.board_to_fen(board, not white, cs, "-", rng.randrange(0, 30), rng.randrange(1, 60))


# positions with an e.p. square whose double-push origin square is occupied: accepted by the FEN reader, unreachable;
# before `fix: RevMoveGen::genMoves must not un-move the double push …` the double push was listed for them
EP_ORIGIN_PROBES = ["4k3/8/8/8/3pP3/8/4N3/4K3 b - e3 0 1", "rnbqkbnr/ppp1pppp/8/8/3pP3/8/PPPPNPPP/RNBQKB1R b KQkq e3 0 3",
                    "rnbqkb1r/ppppnppp/8/3Pp3/8/8/PPP1PPPP/RNBQKBNR w KQkq e6 0 3"]


def motif_ep_origin(rng):
    """e.p. square present and capturable, origin square of the double push occupied (70 %) or empty"""
    board = chessgen.random_placement(rng, dense=rng.random() < 0.5)
    wtm = rng.random() < 0.5                     # side to move in Q; the other side has just double-pushed
    x = rng.randrange(8)
    y_p, y_e, y_o = (4, 5, 6) if wtm else (3, 2, 1)
    for yy in (y_p, y_e, y_o):
        if board[yy * 8 + x] in ("K", "k"): return chessgen.START
    board[y_p * 8 + x] = "p" if wtm else "P"
    board[y_e * 8 + x] = None
    board[y_o * 8 + x] = rng.choice("nbrqNBRQpP" if not wtm else "nbrqNBRQpp") if rng.random() < 0.7 else None
    ax = x + rng.choice([-1, 1])
    if 0 <= ax < 8 and board[y_p * 8 + ax] not in ("K", "k"):
        board[y_p * 8 + ax] = "P" if wtm else "p"
    for xx in range(8):
        for yy in (0, 7):
            if board[yy * 8 + xx] in ("P", "p"): board[yy * 8 + xx] = None
    return chessgen.board_to_fen(board, wtm, "-", "abcdefgh"[x] + str(y_e + 1), 0, 20)


def motif_ep_two_capturers(rng):
    """e.p. square with enemy pawns on BOTH sides of the double-pushed pawn, one of them pinned on its file (its e.p. capture is
    illegal, the other one's is legal): the e.p. square is valid only because of the second capturer"""
    board = [None] * 64
    wtm = rng.random() < 0.5                     # side to move in Q = the capturing side
    x = rng.randrange(1, 7)
    y_p, y_e = (4, 5) if wtm else (3, 2)
    P, p, K, k = ("P", "p", "K", "k") if wtm else ("p", "P", "k", "K")
    board[y_p * 8 + x] = p
    board[y_p * 8 + x - 1] = P; board[y_p * 8 + x + 1] = P
    px = x + rng.choice([-1, 1])                 # the pinned capturer's file
    below = list(range(0, y_p)) if wtm else list(range(y_p + 1, 8))      # own king behind the pawn, enemy rook / queen in front
    above = list(range(y_p + 1, 8)) if wtm else list(range(0, y_p))
    ky, ry = rng.choice(below), rng.choice(above)
    board[ky * 8 + px] = K
    board[ry * 8 + px] = rng.choice("rq") if wtm else rng.choice("RQ")
    free = [q for q in range(64) if board[q] is None and q % 8 != px and q != y_e * 8 + x and q != (y_e + (1 if wtm else -1)) * 8 + x]
    kq = rng.choice([q for q in free if abs(q % 8 - px) > 1 or abs(q // 8 - ky) > 1])
    board[kq] = k
    for _ in range(rng.randrange(0, 6)):
        q = rng.choice(free)
        if board[q] is None and 8 <= q < 56: board[q] = rng.choice("nbNBpP")
        elif board[q] is None: board[q] = rng.choice("nbNB")
    return chessgen.board_to_fen(board, wtm, "-", "abcdefgh"[x] + str(y_e + 1), 0, 20)


def par_lines(binary, lines, nproc=None, chunk=400):
    """run `lines` through `binary`, split over processes; returns (ok, outputs, stderr)"""
    n = max(1, min(nproc or min(vlib.NCPU, 12), len(lines) // chunk + 1))
    parts = [lines[i::n] for i in range(n)]
    with cf.ThreadPoolExecutor(n) as ex:
        res = list(ex.map(lambda p: vlib.run_lines(binary, p) if p else (0, [], ""), parts))
    out = [None] * len(lines)
    for i, (rc, o, e) in enumerate(res):
        if rc != 0 or len(o) != len(parts[i]):
            k = min(len(o), len(parts[i]) - 1)
            return False, (parts[i][k] if parts[i] else ""), e
        out[i::n] = o
    return True, out, ""


def gen_triples(ctx, vh, n_games, max_plies):
    r = ctx.rng
    lines = []
    for g in range(n_games):
        st = r.choice(STARTS) if r.random() < 0.7 else chessgen.START
        lines.append(f"rev game {r.getrandbits(48)} {r.randrange(6, max_plies + 1)} {st}")
    ok, out, err = par_lines(vh, lines, chunk=50)
    if not ok:
        raise RuntimeError("rev game failed on `" + out + "`: " + err[-300:])
    tri = []
    for o in out:
        parts = o.split(" ; ")
        prev = parts[0]
        for p in parts[1:]:
            mv, fen = p.split(" ", 1)
            tri.append((prev, mv, fen))
            prev = fen
    return tri


def key_of(fen):
    return fen.rsplit(" ", 2)[0]


def diff_sets(a, b):
    sa, sb = set(a.split()[1:]), set(b.split()[1:])
    return sorted(sa - sb), sorted(sb - sa)


def check_positions(ctx, vh, fens, modes, name):
    """consistency predicate on the implementation + set equality with the oracle, for each Q and mode"""
    stats = collections.Counter()
    for mode in modes:
        chk = [f"rev chk {mode} {f}" for f in fens]
        ok, out, err = par_lines(vh, chk)
        if not ok:
            ctx.violation(f"harness died in RevMoveGen on `{out}`", {"kind": "impl-crash", "input": [out], "stderr": err}); return stats
        nb = 0
        for l, o in zip(chk, out):
            ctx.count()
            if o.startswith("ok"):
                stats[f"unmoves_checked_mode{mode}"] += int(o.split("=")[1])
            elif o.startswith("fail"):
                nb += 1
                if nb <= 2:
                    ctx.violation(f"un-move listed by RevMoveGen::genMoves(includeAllEpSquares={mode}) is not consistent: {o}",
                                  {"kind": "property-predicate", "predicate": "consistent", "input": [l], "impl_output": o})
        gl = [f"rev gen {mode} {f}" for f in fens]
        ok, o1, err = par_lines(vh, gl)
        if not ok:
            ctx.violation(f"harness died in RevMoveGen on `{o1}`", {"kind": "impl-crash", "input": [o1], "stderr": err}); return stats
        ok, o2, err = par_lines(vlib.driver_bin(), gl, chunk=60)
        if not ok:
            ctx.violation("Lean driver died in the un-move oracle", {"kind": "model-crash", "line": o2, "stderr": err[-500:]}, no_input=True); return stats
        ctx.tie(f"{name}-mode{mode}", kind="differential set equality: RevMoveGen::genMoves vs proven oracle Chess.unMoves (compiled Lean)", positions=len(gl))
        nm = 0
        for l, a, b in zip(gl, o1, o2):
            ctx.count()
            stats[f"oracle_unmoves_mode{mode}"] += max(0, len(b.split()) - 1)
            if a != b:
                nm += 1
                if nm <= 2:
                    missing, extra = diff_sets(b, a) if a.startswith("n=") and b.startswith("n=") else ([], [])
                    if missing:
                        ctx.violation(f"genMoves(includeAllEpSquares={mode}) omits legal predecessor(s) {missing[:4]} of `{l[10:]}`",
                                      {"kind": "property-predicate", "predicate": "complete (spec un-moves missing from the implementation's list)",
                                       "input": [l], "missing": missing, "extra": extra})
                    elif extra:
                        ctx.violation(f"genMoves(includeAllEpSquares={mode}) lists un-move(s) {extra[:4]} of `{l[10:]}` that no counted predecessor has",
                                      {"kind": "property-predicate", "predicate": "consistent / contract on which predecessors count (Chess.wfB)",
                                       "input": [l], "extra": extra})
                    else:
                        ctx.violation(f"model and implementation disagree on `{l}`: impl `{a[:80]}` model `{b[:80]}`",
                                      {"kind": "correspondence", "tie": name, "input": [l], "impl": a[:500], "model": b[:500]}, no_input=True)
        if mode == 1:
            # tie of the model's `unmake` to Position::unMakeMove: predecessor FEN of sampled un-moves
            pl = []
            for f, a in zip(fens, o1):
                toks = a.split()[1:]
                special = [t for t in toks if not t.endswith(":-") or len(t.split(":")[0]) == 5 or t[:4] in ("e1g1", "e1c1", "e8g8", "e8c8")]
                pick = (ctx.rng.sample(toks, 2) if len(toks) > 2 else toks) + (ctx.rng.sample(special, 3) if len(special) > 3 else special)
                for t in dict.fromkeys(pick):
                    pl.append(f"rev pre {t} {f}")
            ok1, p1, err = par_lines(vh, pl)
            ok2, p2, err2 = par_lines(vlib.driver_bin(), pl)
            if not (ok1 and ok2):
                ctx.violation("`rev pre` died", {"kind": "impl-crash" if not ok1 else "model-crash", "stderr": (err + err2)[-500:]}, no_input=True)
            else:
                ctx.count(len(pl))
                ctx.tie(f"{name}-unmake", kind="differential: Position::unMakeMove vs Chess.unmake (predecessor FEN of sampled un-moves)", lines=len(pl))
                stats["unmake_compared"] += len(pl)
                for l, a, b in zip(pl, p1, p2):
                    if a != b:
                        ctx.violation(f"unMakeMove and its model disagree on `{l}`: impl `{a}` model `{b}`",
                                      {"kind": "correspondence", "tie": name + "-unmake", "theorem_scope": "Chess.unmake (unmake_restores) no longer models Position::unMakeMove",
                                       "input": [l], "impl": a, "model": b}, no_input=True)
                        break
    return stats


def run(ctx):
    quick = ctx.tier == "quick"
    bdir = vlib.cxx_build("plain", ("vharness",))
    vh = os.path.join(bdir, "vharness")
    if ctx.replay:
        rp = ctx.replay["replay"]
        vlib.lake_build(["driver"])
        lines = rp.get("input", [])
        ctx.count(len(lines)); ctx.distinct("r1"); ctx.distinct("r2")
        rc, o1, _ = vlib.run_lines(vh, lines)
        rc2, o2, _ = vlib.run_lines(vlib.driver_bin(), lines)
        for l, a, b in zip(lines, o1, o2):
            print(l, "\n  impl :", a[:600], "\n  model:", b[:600] if l.startswith("rev gen") else "(implementation-only predicate)")
            if l.startswith("rev gen") and a != b:
                mi, ex = diff_sets(b, a)
                print("  spec-only:", mi, "\n  impl-only:", ex)
                ctx.violation("replay: implementation list still differs from the oracle", rp)
            elif not l.startswith("rev gen") and not a.startswith("ok"):
                ctx.violation("replay: predicate still fails", rp)
        return
    vlib.lean_obligations(ctx)
    ctx.assumptions += ["the rules of chess are those of lean/TexelVerif/Chess/Spec.lean (trusted text; tied to the real generator by C01)",
                        "predecessors that count = Chess.wfB: accepted unchanged by the FEN reader, origin of a double push empty, piece counts reachable by promotions (the positions knownInvalid does not reject)",
                        "Q itself is a position reached in a legal game or accepted by the FEN reader"]
    # 1. triples from random games: completeness predicate on the implementation
    n_games, plies = (420, 60) if quick else (36000, 70)
    tri = gen_triples(ctx, vh, n_games, plies)
    tl = [f"rev tri {m} {p}" for p, m, q in tri]
    ok, out, err = par_lines(vh, tl)
    if not ok:
        ctx.violation(f"harness died on `{out}`", {"kind": "impl-crash", "input": [out], "stderr": err}); return
    kinds = collections.Counter()
    nb = 0
    for (p, m, q), l, o in zip(tri, tl, out):
        ctx.count(); ctx.distinct((key_of(p), m))
        if o.startswith("ok"):
            for k in o.split()[1][5:].split("+"): kinds[k] += 1
        else:
            nb += 1
            if nb <= 3:
                ctx.violation(f"played move {m} from `{p}` is not among the un-moves of the position it leads to: {o}",
                              {"kind": "property-predicate", "predicate": "complete", "input": [l], "impl_output": o})
    ctx.cov["triples"] = len(tri)
    ctx.cov["move_kinds"] = dict(sorted(kinds.items()))
    ctx.log(f"{len(tri)} (P,m,Q) triples; move kinds: {dict(sorted(kinds.items()))}")
    ctx.sample({"op": tl[0], "impl": out[0]}); ctx.sample({"op": tl[-1], "impl": out[-1]})
    ctx.tie("triples", kind="completeness predicate evaluated on the implementation (both modes)", triples=len(tri))
    # 2. every Q: consistency predicate on the implementation + set equality with the oracle, both modes
    qs = list({key_of(q): q for _, _, q in tri}.values())     # distinct board+side+castling+ep
    st = check_positions(ctx, vh, qs, (1, 0), "game-positions")
    # 3. synthetic positions (not necessarily reachable): promoted pieces, e.p. shapes, castling flags
    syn = [f for f in chessgen.synthetic(ctx.rng, 1500 if quick else 60000)]
    syn += [f for f in (motif_uncastle(ctx.rng) for _ in range(1200 if quick else 40000)) if f]
    syn += [motif_ep_origin(ctx.rng) for _ in range(300 if quick else 6000)] + EP_ORIGIN_PROBES
    syn += [motif_ep_two_capturers(ctx.rng) for _ in range(300 if quick else 6000)]
    ok, o, err = par_lines(vh, [f"chess fen {f}" for f in syn])
    acc = [x[3:] for x in o if x.startswith("ok ")] if ok else []
    acc = list({key_of(q): q for q in acc}.values())
    st2 = check_positions(ctx, vh, acc, (1, 0), "synthetic-positions")
    ctx.cov["position_stats"] = {"game_positions": len(qs), "synthetic_positions": len(acc),
                                 "game": dict(st), "synthetic": dict(st2),
                                 "game_positions_with_ep": sum(1 for q in qs if q.split()[3] != "-"),
                                 "game_positions_with_castling_rights": sum(1 for q in qs if q.split()[2] != "-")}
    ctx.log(f"positions: {ctx.cov['position_stats']}")
    for q in qs + acc: ctx.distinct(key_of(q))
    ctx.cov["rule"] = ("triples (P, m, Q) = all plies of random legal games from the initial position and seeded starts (castling-ready, e.p.-ready, promotion races), "
                       "move choice weighted towards castling, e.p. captures, promotions (with capture), double pushes, captures and right-losing king/rook moves (distribution in move_kinds); "
                       "positions Q = every position reached + synthetic placements accepted by the FEN reader; per Q and mode: consistency predicate on every listed un-move, set equality with the oracle; "
                       "distinct = distinct (P, m) and distinct Q (board+side+castling+ep)")
    if not quick:
        vlib.leanchecker(ctx, ["TexelVerif.Props.C15"])
