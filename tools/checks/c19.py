"""C19 — book-builder graph scores stay at their defined fixed point.
Lean: Props/C19.lean (every book operation of the repaired algorithm preserves `FixedPoint`; witness for the
unrepaired one).  Tie: random operation histories on the real BookBuild::Book (driven through the declared test-friend
class) against the executable Lean model, all node fields compared after every operation.  Independently of the model
the check evaluates the defining equations of bookbuild.hpp (negamax, both expansion costs, both path errors, shortest
depth, mutual parent/child links) on the implementation's dumped node fields: that predicate yields the failing input.

Two passes: `bookgen ...` lines (nodes addressed by creation index, chess moves by number) are elaborated by the C++
harness into explicit `book ...` lines (hash keys, compressed moves and the parent/child links the chess rules give);
those lines are then run through both the C++ harness and the Lean driver."""
import os
import vlib

INVALID = -32765
IGNORE = -32766
INT_MAX = 2147483647
MATE0 = 32000


def negate(s):
    if s == IGNORE or s == INVALID: return s
    if s > MATE0 // 2: return -(s - 1)
    if s < -(MATE0 // 2): return -(s + 1)
    return -s


class N:
    __slots__ = ("key", "depth", "mv", "search", "time", "nm", "ew", "eb", "pw", "pb", "pend", "P", "C")


def parse_links(tok):
    body = tok[2:]
    if not body: return []
    out = []
    for it in body.split(","):
        m, k = it.split("-")
        out.append((int(m), int(k, 16)))
    return out


def parse_rec(rec):
    f = rec.split()
    n = N()
    n.key = int(f[0], 16)
    n.depth, n.mv, n.search, n.time, n.nm, n.ew, n.eb, n.pw, n.pb = (int(x) for x in f[1:10])
    n.pend = f[10] == "1"
    n.P = parse_links(f[11]); n.C = parse_links(f[12])
    return n


def parse_reply(o):
    """-> (kind, n, [N]) or None if the reply is not a state reply."""
    parts = o.split(" | ")
    h = parts[0].split()
    if len(h) != 3 or h[0] not in ("ok", "dump") or not h[1].startswith("n=") or not h[2].startswith("c="):
        return None
    recs = [parse_rec(r) for r in parts[1:]]
    if len(recs) != int(h[2][2:]): return None
    return h[0], int(h[1][2:]), recs


class Costs:
    def __init__(self, d, o, t): self.depth, self.own, self.other = d, o, t


def exp_cost_child(costs, x, nm, c, white):
    move_err = 1000 if nm == INVALID else nm - negate(c.nm)
    wtm = x.depth % 2 == 0
    cost = c.ew if white else c.eb
    if cost != IGNORE and cost != INVALID:
        cost += costs.depth + move_err * (costs.own if wtm == white else costs.other)
    return cost


def expected_scores(costs, nodes, x):
    """(negamax, expansion cost white, expansion cost black) that the equations of bookbuild.hpp define for x."""
    ch = sorted(x.C)
    kids = [nodes[k] for _, k in ch]
    cover = [nodes[k] for m, k in ch if m == x.mv]
    nm = x.search
    if cover and cover[0].nm != INVALID: nm = IGNORE
    if nm != INVALID:
        for c in kids: nm = max(nm, negate(c.nm))
    res = [nm]
    for white in (True, False):
        ec = IGNORE
        if not x.pend:
            if x.search == INVALID: ec = INVALID
            elif x.search != IGNORE:
                if cover: ec = -10000
                else:
                    wtm = x.depth % 2 == 0
                    ec = (nm - x.search) * (costs.own if wtm == white else costs.other)
        if any((c.ew if white else c.eb) == INVALID for c in kids): ec = INVALID
        for c in kids:
            cec = c.ew if white else c.eb
            if ec != INVALID and cec != IGNORE:
                cost = exp_cost_child(costs, x, nm, c, white)
                if ec == IGNORE or ec > cost: ec = cost
        res.append(ec)
    return tuple(res)


def expected_path_errors(nodes, x):
    if x.depth == 0: return (0, 0)
    pw = pb = INT_MAX
    for _, k in x.P:
        p = nodes[k]
        if p.pw == INVALID or p.pb == INVALID: continue
        if x.nm == INVALID or p.nm == INVALID: continue
        delta = p.nm - negate(x.nm)
        ew, eb = p.pw, p.pb
        if x.depth % 2 != 0: ew += delta
        else: eb += delta
        pw = min(pw, ew); pb = min(pb, eb)
    if pw == INT_MAX or pb == INT_MAX: return (INVALID, INVALID)
    return (pw, pb)


def node_problems(costs, nodes, root, x):
    """Defining equations of node x evaluated on the dumped fields.  Returns list of messages."""
    bad = []
    k = vlib_hex(x.key)
    moves = [m for m, _ in x.C]
    if len(set(moves)) != len(moves): bad.append(f"node {k}: two children for one move")
    for m, c in x.C:
        if c not in nodes or (m, x.key) not in nodes[c].P: bad.append(f"node {k}: child link {m}->{vlib_hex(c)} has no matching parent link")
    for m, p in x.P:
        if p not in nodes or (m, x.key) not in nodes[p].C: bad.append(f"node {k}: parent link {m}<-{vlib_hex(p)} has no matching child link")
    if bad: return bad
    if x.key == root:
        if x.depth != 0: bad.append(f"root depth {x.depth}")
    else:
        if not x.P: bad.append(f"node {k}: no parent")
        else:
            d = 1 + min(nodes[p].depth for _, p in x.P)
            if x.depth != d: bad.append(f"node {k}: depth {x.depth}, shortest parent depth + 1 = {d}")
            if any((nodes[p].depth - x.depth) % 2 == 0 for _, p in x.P): bad.append(f"node {k}: a parent at the same depth parity")
    nm, ew, eb = expected_scores(costs, nodes, x)
    if x.nm != nm: bad.append(f"node {k}: negaMaxScore {x.nm}, defining equation gives {nm}")
    if x.ew != ew: bad.append(f"node {k}: expansionCostWhite {x.ew}, defining equation gives {ew}")
    if x.eb != eb: bad.append(f"node {k}: expansionCostBlack {x.eb}, defining equation gives {eb}")
    pw, pb = expected_path_errors(nodes, x)
    if (x.pw, x.pb) != (pw, pb): bad.append(f"node {k}: pathError white/black ({x.pw},{x.pb}), defining equation gives ({pw},{pb})")
    for v in (x.nm, x.ew, x.eb, x.pw, x.pb):
        if not -2**31 <= v < 2**31: bad.append(f"node {k}: value {v} outside int")
    return bad


def vlib_hex(k): return hex(k)


def bfs_depths(nodes, root):
    dist = {root: 0}
    frontier = [root]
    while frontier:
        nxt = []
        for k in frontier:
            for _, c in nodes[k].C:
                if c not in dist:
                    dist[c] = dist[k] + 1; nxt.append(c)
        frontier = nxt
    return dist


def acyclic(nodes):
    indeg = {k: len(set(p for _, p in n.P)) for k, n in nodes.items()}
    st = [k for k, d in indeg.items() if d == 0]
    seen = 0
    while st:
        k = st.pop(); seen += 1
        for c in set(c for _, c in nodes[k].C):
            indeg[c] -= 1
            if indeg[c] == 0: st.append(c)
    return seen == len(nodes)


class Tracker:
    """Reconstructs the implementation's book from the per-operation change lists and evaluates the property."""

    def __init__(self):
        self.nodes, self.costs, self.root = {}, None, None

    def apply(self, line, reply):
        """Returns list of problems found after this operation (empty = fine), or None if reply is not a state."""
        f = line.split()
        pr = parse_reply(reply)
        if pr is None: return None
        kind, n, recs = pr
        if f[1] == "new":
            self.nodes = {}
            self.costs = Costs(int(f[2]), int(f[3]), int(f[4]))
            self.root = recs[0].key if recs else None
        for r in recs: self.nodes[r.key] = r
        if len(self.nodes) != n: return [f"node count {n} but {len(self.nodes)} nodes reported"]
        if f[1] == "reload":
            if any(x.pend for x in self.nodes.values()): return ["pending mark survived a reload"]
        if kind == "dump" or f[1] in ("new", "reload"):
            return self.full()
        touch = set()
        for r in recs:
            touch.add(r.key)
            touch.update(k for _, k in r.P if k in self.nodes)
            touch.update(k for _, k in r.C if k in self.nodes)
        if f[1] in ("set", "pend", "unpend", "upd"): touch.add(int(f[2], 16))
        bad = []
        for k in sorted(touch):
            bad += node_problems(self.costs, self.nodes, self.root, self.nodes[k])
            if len(bad) > 5: break
        return bad

    def full(self):
        bad = []
        for k in sorted(self.nodes):
            bad += node_problems(self.costs, self.nodes, self.root, self.nodes[k])
            if len(bad) > 5: return bad
        if not bad:
            dist = bfs_depths(self.nodes, self.root)
            for k, x in self.nodes.items():
                if dist.get(k) != x.depth:
                    bad.append(f"node {hex(k)}: depth {x.depth} but shortest distance from the root is {dist.get(k)}"); break
            if not acyclic(self.nodes): bad.append("the book graph has a cycle")
        return bad


# ---------------------------------------------------------------------------------------------------
# generation
# ---------------------------------------------------------------------------------------------------

def rnd_score(r):
    x = r.random()
    if x < 0.50: return r.randrange(-12, 13) * 5
    if x < 0.60: return r.randrange(-300, 301)
    if x < 0.66: return 0
    if x < 0.74: return r.choice([1, -1]) * (MATE0 - r.randrange(1, 40))
    if x < 0.78: return r.choice([1, -1]) * r.randrange(15990, 16012)
    if x < 0.88: return INVALID
    if x < 0.94: return IGNORE
    if x < 0.96: return r.choice([32767, -32768, -32767, 32000, -32000, -32764])
    return r.randrange(-3000, 3001)


def rnd_node(r):
    x = r.random()
    if x < 0.35: return r.randrange(65536)
    if x < 0.75: return 65535 - int(r.random() ** 2 * 20000)     # recent nodes: deeper lines
    return int(r.random() ** 3 * 65536)                          # near the root


def gen_session(r, nops, style):
    costs = r.choice([(100, 200, 50), (100, 200, 50), (1, 1, 1), (0, 0, 0), (37, 5, 900), (100, 50, 200)])
    lines = [f"bookgen new {costs[0]} {costs[1]} {costs[2]}"]
    pool = r.choice([1, 1, 2, 2, 3, 0])
    p_add = {"grow": 0.75, "mix": 0.45, "score": 0.25}[style]
    for _ in range(nops):
        x = r.random()
        if x < p_add:
            lines.append(f"bookgen add {rnd_node(r)} {r.randrange(1000)} {pool if r.random() < 0.9 else 0} {1 if r.random() < 0.5 else 0}")
        elif x < p_add + (0.93 - p_add) * 0.8:
            lines.append(f"bookgen set {rnd_node(r)} {r.randrange(1000)} {r.choice([0, 1, 1, 2, 2, 2])} {rnd_score(r)} {r.choice([0, 1, 1000, 4711, 4294967295])}")
        elif x < 0.93:
            if r.random() < 0.5: lines.append(f"bookgen pend {rnd_node(r)}")
            else: lines.append(f"bookgen unpend {r.randrange(65536)}")
        elif x < 0.96:
            lines.append(f"bookgen import {r.choice([2, 4, 6, 8, 30])} {r.randrange(1, 6)} {r.randrange(1, 12)} {r.getrandbits(48)} {pool}")
        elif x < 0.975:
            lines.append("bookgen reload")
        elif x < 0.99:
            lines.append(f"bookgen upd {rnd_node(r)}")
        else:
            lines.append("bookgen dump")
    lines.append("bookgen dump")
    return lines


ROOT = "0x956edbaa61877b1d"
A_, B_, C_ = "0x99652bf428f8337d", "0xb4e89a6e063a0033", "0x300e44187299952a"
WITNESS = [  # corpus entry: the 4-node history of DESIGN.md §9 (R -> A (e2e4), B (d2d4); A -> C (e7e5))
    f"book new 100 200 50 {ROOT}",
    f"book add {ROOT} e2e4 {A_} P 1804-{ROOT} C -",
    f"book add {ROOT} d2d4 {B_} P 1739-{ROOT} C -",
    f"book add {A_} e7e5 {C_} P 2356-{A_} C -",
    f"book set {ROOT} 1350 0 1000",
    f"book set {B_} 2942 -50 1000",
    f"book set {A_} 2942 -10 1000",
    f"book set {C_} 1350 10 1000",
    f"book set {C_} 1350 -30 1000",      # A.negaMax -10 -> 30, R.negaMax stays 50: A's path error must become 80
    "book dump",
    f"book upd {A_}",
    "book reload",
    "book dump",
]

MALFORMED = [  # every one of these must be answered `bad-op` by both sides and leave the book untouched
    "book", "book frob", "book new 1 2", "book new -1 2 3 0x1", "book new 1 2 200000 0x1", "book set 0x1 0 0 0",
    f"book set {ROOT} 70000 0 0", f"book set {ROOT} 0 40000 0", f"book set {ROOT} 0 -32769 0", f"book set {ROOT} 0 0 -1",
    f"book set {ROOT} 0 0 4294967296", f"book set {ROOT} x 0 0", f"book set {ROOT} 0 0", f"book set {ROOT} 0 0 0 0",
    f"book add {ROOT} e2e4 {ROOT} P - C -", f"book add 0x5 e2e4 0x6 P - C -", f"book add {ROOT} e2e4 0x6 Q - C -",
    f"book add {ROOT} e2e4", "book pend 0x5", "book unpend", "book upd zz", "book dump 1", "book reload now",
    "book import 2000 e2e4", "book import 4 e2e4 ; a b c", "book import x e2e4", "book nop nop", "book set 0x 0 0 0",
]


_CYC = ["g1f3", "g8f6", "f3g1", "f6g8"]
_L1 = (_CYC * 27)[:106]
_L2 = _L1[:98] + ["b1c3", "f6g8", "c3b1", "b8c6", "f3g1", "c6b8", "g1f3", "g8f6"]
CORPUS_GEN = [  # corpus entry 2: one game with 106 reversible plies (+ a variation): Position::bookHash() saturates the half-move
    "bookgen new 100 200 50",   # clock at 100, so without the clock guard in Book::addToBook ply 104 aliases ply 100 and the graph gets a cycle
    "bookgen importline 300 " + ",".join(_L1) + "/" + ",".join(_L2),
    "bookgen set 65535 1 1 -20 5", "bookgen set 30000 1 2 35 5", "bookgen set 0 1 2 10 5",
    "bookgen reload", "bookgen dump",
]


def elaborate(ctx, gen_lines):
    bdir = vlib.cxx_build("plain", ("vharness",))
    rc, out, err = vlib.run_lines(os.path.join(bdir, "vharness"), gen_lines)
    if rc != 0 or len(out) != len(gen_lines):
        ctx.violation(f"implementation harness died while elaborating operations (rc={rc}) after {len(out)} of {len(gen_lines)}",
                      {"kind": "impl-crash", "tie": "elaborate", "rc": rc, "stderr": err, "input": gen_lines[max(0, len(out) - 200):len(out) + 1]})
        return None
    return out


def check_impl(lines, out, sessions):
    """Property predicate on the implementation's replies.  Returns list of (line index, [messages])."""
    res = []
    for (s, e) in sessions:
        tr = Tracker()
        for i in range(s, min(e, len(out))):
            if out[i] == "bad-op" and lines[i] in MALFORMED: continue
            bad = tr.apply(lines[i], out[i])
            if bad is None:
                res.append((i, [f"implementation reply is not a state: {out[i][:120]}"])); break
            if bad:
                res.append((i, bad)); break
    return res


def impl_fails(bdir, cand):
    """Does the implementation alone violate the predicate on this (self-contained) session?  -> (bool, index)"""
    rc, out, err = vlib.run_lines(os.path.join(bdir, "vharness"), cand)
    if rc != 0 or len(out) != len(cand): return False, None
    if any(parse_reply(o) is None for o in out): return False, None     # candidate is not a valid history any more
    bad = check_impl(cand, out, [(0, len(cand))])
    return (True, bad[0][0]) if bad else (False, None)


def shrink(bdir, sess, budget=250):
    """Greedy delta debugging on a failing session (list of explicit `book` lines, first line `book new`)."""
    ok, idx = impl_fails(bdir, sess)
    if not ok: return sess
    cur = sess[:idx + 1]
    chunk = max(1, len(cur) // 4)
    trials = 0
    while chunk >= 1 and trials < budget:
        i, progressed = 1, False
        while i < len(cur) and trials < budget:
            cand = cur[:i] + cur[i + chunk:]
            trials += 1
            ok, idx = impl_fails(bdir, cand)
            if ok:
                cur = cand[:idx + 1]; progressed = True
            else:
                i += chunk
        if not progressed or chunk > 1: chunk //= 2
    return cur


def run_block(ctx, name, lines, sessions, do_shrink=True):
    out1, out2, mis = vlib.diff_lines(ctx, name, lines, "plain", sessions=sessions)
    ctx.count(len(lines))
    for l in lines: ctx.distinct(l)
    if len(out1) != len(lines): return None
    bad = check_impl(lines, out1, sessions)
    bdir = os.path.join(vlib.BUILD, "plain")
    for i, msgs in bad[:3]:
        sess = vlib.session_of(lines, sessions, i)
        small = shrink(bdir, sess) if do_shrink else sess
        ctx.violation(f"{name}: after `{lines[i][:100]}`: " + "; ".join(msgs[:3]),
                      {"kind": "property-predicate", "tie": name, "input": small, "unshrunk_length": len(sess),
                       "impl_output": out1[i][:2000], "problems": msgs})
    for i, (l, o) in enumerate(zip(lines, out1)):
        if l in MALFORMED and o != "bad-op":
            ctx.violation(f"{name}: malformed operation `{l}` was not rejected: {o[:100]}", {"kind": "malformed", "input": vlib.session_of(lines, sessions, i)})
    if mis is not None and not bad:
        ctx.violation(f"{name}: model and implementation disagree on `{lines[mis][:100]}`",
                      {"kind": "correspondence", "tie": name, "theorem_scope": "Props/C19.lean (model no longer corresponds to the code)",
                       "input": vlib.session_of(lines, sessions, mis), "impl": out1[mis][:3000], "model": out2[mis][:3000]}, no_input=True)
    return out1


def run_records(ctx, quick):
    """BookNode::serialize / deSerialize: differential + round trip evaluated on the implementation's outputs."""
    r = ctx.rng
    n = 400 if quick else 20000
    recs = []
    for _ in range(n):
        key = r.choice([0, 1, (1 << 64) - 1, r.getrandbits(64), r.getrandbits(8)])
        cm = r.choice([0, 65535, r.randrange(65536)])
        sc = r.choice([-32768, 32767, -1, 0, INVALID, IGNORE, r.randrange(-32768, 32768)])
        tm = r.choice([0, 1, 4294967295, r.getrandbits(32)])
        recs.append((key, cm, sc, tm))
    ser = [f"bookrec ser {hex(k)} {c} {s_} {t}" for k, c, s_, t in recs]
    bdir = vlib.cxx_build("plain", ("vharness",))
    rc, out, err = vlib.run_lines(os.path.join(bdir, "vharness"), ser)
    if rc != 0 or len(out) != len(ser):
        ctx.violation("harness died on bookrec ser", {"kind": "impl-crash", "input": ser[:len(out) + 1][-5:], "stderr": err}); return
    deser = [f"bookrec deser {o}" for o in out if len(o) == 32]
    rnd = ["bookrec deser " + "".join(r.choice("0123456789abcdef") for _ in range(32)) for _ in range(n // 2)]
    bad_in = ["bookrec deser 00", "bookrec deser " + "g" * 32, "bookrec ser 1 2 3", "bookrec ser 1 70000 0 0", "bookrec ser 1 0 40000 0", "bookrec"]
    lines = ser + deser + rnd + bad_in
    out1, out2, mis = vlib.diff_lines(ctx, "record-kernels", lines)
    ctx.count(len(lines))
    if len(out1) != len(lines): return
    for (k, c, s_, t), o in zip(recs, out1[len(ser):len(ser) + len(deser)]):
        if o != f"{hex(k)} {c} {s_} {t}":
            ctx.violation(f"record round trip: wrote ({hex(k)},{c},{s_},{t}), read back `{o}`",
                          {"kind": "property-predicate", "tie": "record-kernels", "input": [f"bookrec ser {hex(k)} {c} {s_} {t}"], "impl_output": o})
            break
    if mis is not None and not ctx.violations:
        ctx.violation(f"record-kernels: model and implementation disagree on `{lines[mis]}`: impl `{out1[mis]}` model `{out2[mis]}`",
                      {"kind": "correspondence", "tie": "record-kernels", "theorem_scope": "Props/C19.lean record_roundtrip", "input": [lines[mis]]}, no_input=True)


def plan_for(r, tier):
    if tier == "quick":
        return ([("mix", r.randrange(30, 200)) for _ in range(500)] + [("score", r.randrange(40, 300)) for _ in range(300)] +
                [("grow", r.randrange(200, 500)) for _ in range(30)])
    return ([("mix", r.randrange(30, 300)) for _ in range(6000)] + [("score", r.randrange(40, 400)) for _ in range(4000)] +
            [("grow", r.randrange(300, 1200)) for _ in range(200)] + [("grow", r.randrange(3000, 6000)) for _ in range(6)])


def run(ctx):
    quick = ctx.tier == "quick"
    r = ctx.rng
    if ctx.replay:
        rp = ctx.replay["replay"]
        lines = rp.get("input", [])
        vlib.lake_build(["driver"])
        out1, out2, mis = vlib.diff_lines(ctx, "replay", lines)
        tr = Tracker()
        for i, l in enumerate(lines):
            a = out1[i] if i < len(out1) else "<none>"
            b = out2[i] if i < len(out2) else "<none>"
            print(f"{l[:160]}\n   impl : {a[:400]}\n   model: {b[:400]}")
            bad = tr.apply(l, a) if i < len(out1) else None
            if bad:
                for m in bad: print("   PROPERTY: " + m)
                ctx.violation("replay: " + "; ".join(bad[:3]), rp)
                break
        ctx.count(len(lines)); ctx.distinct("replay"); ctx.distinct("replay2")
        if mis is not None and not ctx.violations:
            ctx.violation("replay still disagrees", rp, no_input=True)
        return
    vlib.lean_obligations(ctx)
    ctx.cov["rule"] = ("random operation histories on one Book per session: add a position under an existing node (move pools and a "
                       "preference that make transpositions, extra parents, existing children and unequal-length transpositions frequent), "
                       "set search result (small/tied scores, mate scores, win/lose threshold, INVALID, IGNORE, S16 limits; best move empty / "
                       "any legal / an existing child's move), pending marks, game-tree import, write+read, explicit updateScores; all changed "
                       "node fields compared with the Lean model after every operation and the defining equations evaluated on the "
                       "implementation's fields; corpus: the 4-node witness; a malformed stream; distinct = distinct explicit operation lines")
    ctx.assumptions += ["book graph is acyclic (bookHash includes the half-move clock; cycles need >= 100 reversible plies)",
                        "the parent/child links of a new position are taken from the implementation's chess rules (AddOk hypotheses of addPos_preserves_fixedpoint; "
                        "the harness checks the declared links against what addPosToBook linked, the predicate checks parity/acyclicity/consistency on the dumps)",
                        "no int overflow in costs (checked on the dumped values)"]
    # corpus + malformed stream
    mal = list(WITNESS[:4])
    for m in MALFORMED:
        mal += [m, f"book set {r.choice([ROOT, A_, B_, C_])} {r.choice([0, 1350, 2356])} {rnd_score(r)} 7"]
    mal.append("book dump")
    lines = WITNESS + mal
    run_block(ctx, "corpus-and-malformed", lines, [(0, len(WITNESS)), (len(WITNESS), len(lines))])
    c2 = elaborate(ctx, CORPUS_GEN)
    if c2 is None: return
    if any(not l.startswith("book ") for l in c2):
        ctx.violation("elaboration of the corpus import failed", {"kind": "elaborate", "input": CORPUS_GEN, "output": [l[:80] for l in c2]}, no_input=True)
        return
    run_block(ctx, "corpus-import-beyond-clock-100", c2, [(0, len(c2))], do_shrink=False)
    run_records(ctx, quick)
    # random histories
    gen_lines, gs = [], []
    for style, nops in plan_for(r, ctx.tier):
        s = len(gen_lines)
        gen_lines += gen_session(r, nops, style)
        gs.append((s, len(gen_lines)))
    lines = elaborate(ctx, gen_lines)
    if lines is None: return
    bad_el = [i for i, l in enumerate(lines) if not l.startswith("book ")]
    if bad_el:
        ctx.violation(f"elaboration failed on `{gen_lines[bad_el[0]]}`: {lines[bad_el[0]]}", {"kind": "elaborate", "input": gen_lines[:bad_el[0] + 1][-50:]}, no_input=True)
        return
    adds = [l for l in lines if l.startswith("book add")]
    nimp = sum(l.count(" ; ") for l in lines if l.startswith("book import"))
    multi = sum(1 for l in adds if "," in l.split(" P ")[1].split(" C ")[0])
    withc = sum(1 for l in adds if not l.endswith(" C -"))
    ctx.tie("book-histories", sessions=len(gs), positions_added=len(adds) + nimp, adds_with_several_parents=multi, adds_with_existing_children=withc)
    ctx.sample({"session_start": [l[:120] for l in lines[:4]]})
    out1 = run_block(ctx, "book-histories", lines, gs)
    if out1:
        sizes = [int(o.split()[1][2:]) for o in out1 if o.startswith("dump")]
        ctx.tie("book-histories", largest_book=max(sizes) if sizes else 0)
    if not quick:
        # memory-safety run of the implementation alone under ASan+UBSan on a slice of the histories
        k = gs[min(len(gs) - 1, 400)][1]
        bdir = vlib.cxx_build("asan", ("vharness",))
        rc, out, err = vlib.run_lines(os.path.join(bdir, "vharness"), lines[:k])
        ctx.tie("asan", kind="implementation alone under ASan+UBSan", lines=k, rc=rc)
        if rc != 0 or out != out1[:k]:
            ctx.violation(f"ASan/UBSan run of the implementation failed or differs (rc={rc})", {"kind": "impl-crash", "variant": "asan", "stderr": err, "input": vlib.session_of(lines, gs, min(len(out), k - 1))})
        vlib.leanchecker(ctx, ["TexelVerif.Props.C19"])
