"""C04 — announced mates are real.
Lean: Props/C04.lean (claim calculus rules; soundness of win / no-win certificate checkers; mate-in-one oracle).
Tie: every `score mate N` of the real engine on positions with short forced mates is checked against the specification:
an untrusted solver (harness) produces a strategy tree or a refutation tree and the proven checkers in the compiled Lean
driver verify it; mate-in-one positions must give `mate 1` and a mating move at every completed depth."""
import os, concurrent.futures as cf
import vlib, uci, chessgen, xlate

SOLVE_BUDGET = 300000


def sparse_endgames(rng, n):
    """few-men positions where short mates are common"""
    out = []
    mats = ["Q", "R", "QR", "RR", "QQ", "QB", "RB", "RN", "Qr", "Rr", "Qn", "QRr", "RRq", "BN", "Qp", "RP", "QPp", "RPp"]
    for _ in range(n):
        board = [None] * 64
        m = rng.choice(mats)
        stm_white = rng.random() < 0.5
        # strong side = white with probability 1/2
        strong_white = rng.random() < 0.5
        wk = rng.randrange(64)
        # weak king near an edge/corner often
        bk = rng.choice([0, 7, 56, 63] + [rng.randrange(64) for _ in range(3)] + [rng.choice([1, 8, 6, 15, 48, 57, 55, 62])])
        if bk == wk: continue
        sk, wk2 = ("K", "k") if strong_white else ("k", "K")
        board[wk] = sk; board[bk] = wk2
        ok = True
        for ch in m:
            s = rng.randrange(64)
            if board[s] is not None or (ch in "Pp" and not 8 <= s < 56): ok = False; break
            pc = ch.upper() if (ch.isupper() == strong_white) else ch.lower()
            board[s] = pc
        if ok:
            out.append(chessgen.board_to_fen(board, stm_white, "-", "-", rng.choice([0, 3, 20]), 40))
    return out


# ---- roots that drive the search into its guarded pruning sites (late-move pruning / futility, null move) -------------------------
def threat_positions(rng, n):
    """defender (to move): king behind a partial pawn shelter, one to three pieces, pawns; attacker: king + pieces aimed at the squares
    around the defender's king.  Candidates for "almost every move is mated, one quiet move saves"."""
    out = []
    for _ in range(n):
        white = rng.random() < 0.5
        board = [None] * 64
        sk, ok = ("K", "k") if white else ("k", "K")
        ky = rng.choice([0, 0, 0, 1]) if white else rng.choice([7, 7, 7, 6])
        kx = rng.randrange(8)
        board[ky * 8 + kx] = sk
        fwd = 1 if white else -1
        for dx in (-1, 0, 1):
            x, y = kx + dx, ky + fwd
            if 0 <= x < 8 and 1 <= y <= 6 and rng.random() < 0.6: board[y * 8 + x] = "P" if white else "p"
        for _ in range(rng.randrange(1, 4)):
            sq = rng.randrange(64)
            if board[sq] is None: board[sq] = (rng.choice("NBRNBQ") if white else rng.choice("nbrnbq"))
        for _ in range(rng.randrange(0, 3)):
            sq = rng.randrange(8, 56)
            if board[sq] is None: board[sq] = "P" if white else "p"
        esc = [y * 8 + x for x in range(max(0, kx - 1), min(8, kx + 2)) for y in range(max(0, ky - 1), min(8, ky + 2))]
        chessgen._cover(rng, board, not white, esc, rng.randrange(2, 5))
        for _ in range(30):
            sq = rng.randrange(64)
            if board[sq] is None: board[sq] = ok; break
        for _ in range(rng.randrange(0, 3)):
            sq = rng.randrange(8, 56)
            if board[sq] is None: board[sq] = "p" if white else "P"
        out.append(chessgen.board_to_fen(board, white, "-", "-", 0, 30))
    return out


def zug_positions(rng, n):
    """attacker (to move): king + one or two pieces close to a defending king on the edge, pawns blocked by enemy pawns (so that the
    null move is allowed but a tempo move may be missing).  Candidates for "passing would mate faster than any move"."""
    out = []
    for _ in range(n):
        white = rng.random() < 0.5
        board = [None] * 64
        sk, ok = ("K", "k") if white else ("k", "K")
        ex, ey = rng.choice([(0, 0), (7, 0), (0, 7), (7, 7), (rng.randrange(8), rng.choice([0, 7])), (rng.choice([0, 7]), rng.randrange(8))])
        board[ey * 8 + ex] = ok
        def near(d):
            for _ in range(20):
                x, y = ex + rng.randrange(-d, d + 1), ey + rng.randrange(-d, d + 1)
                if 0 <= x < 8 and 0 <= y < 8 and board[y * 8 + x] is None: return y * 8 + x
            return None
        sq = near(2)
        if sq is None: continue
        board[sq] = sk
        for pc in rng.choice(["NN", "NN", "NB", "N", "B", "R", "Q", "BB"]):
            sq = near(3)
            if sq is not None: board[sq] = pc if white else pc.lower()
        for _ in range(rng.choice([1, 1, 2])):
            x, y = rng.randrange(8), rng.randrange(1, 6)
            lo, hi = y * 8 + x, (y + 1) * 8 + x
            if board[lo] is None and board[hi] is None: board[lo], board[hi] = "P", "p"
        if rng.random() < 0.4:
            x, y = ex, ey - (1 if white else -1)
            if 1 <= y <= 6 and board[y * 8 + x] is None: board[y * 8 + x] = "P" if white else "p"
        out.append(chessgen.board_to_fen(board, white, "-", "-", 0, 40))
    return out


def guarded_site_sessions(ctx, vh, quick):
    """Engine sessions whose interior nodes sit in the situations the pruning guards of negaScout exist for (Bridge/SearchGuards):
    (a) *late quiet escape*: the side to move has a piece and a pawn (late-move pruning allowed), is mated within one move after almost
        every move, and its one or two saving moves are quiet; searched from predecessors at depth 2..5, so that the position is a
        zero-window node of depth 1..4 — where late-move pruning / futility skip late quiet moves;
    (b) *zugzwang*: after a pass the opponent would be mated within 1..2 moves whatever it plays, and the side to move has a piece and a
        pawn (null move allowed); preferred when it has no equally fast mate itself; searched from predecessors at depth 6..9, partly
        after a search that leaves the passed position in the hash table.
    The selection uses the untrusted solver of the harness; what is judged is only what the real search then claims (audit_interior)."""
    r = ctx.rng
    def valid(c):
        fo = vlib.run_lines(vh, [f"chess fen {f}" for f in c])[1]
        return list(dict.fromkeys(o[3:] for o in fo if o.startswith("ok ")))
    def preds(fens):
        out = vlib.run_lines(vh, [f"mate pred {f}" for f in fens])[1]
        return [[x.strip() for x in o[5:].split("|") if x.strip()] if o.startswith("pred") else [] for o in out]
    nets = [("material", 1), ("small", 2), ("big", 3)]
    sessions, st = [], {"late_escape_positions": 0, "zugzwang_positions": 0, "zugzwang_without_own_mate": 0, "roots": 0}
    # (a)
    c = valid(threat_positions(r, 14000 if quick else 80000))
    es = vlib.run_lines(vh, [f"mate esc 1 20000 {f}" for f in c])[1]
    hits = []
    for f, e in zip(c, es):
        t = e.split()
        if len(t) >= 6 and t[0] == "esc" and t[4] == "1" and int(t[2]) >= 5 and 1 <= int(t[3]) <= 2 and all(m.endswith("q") for m in t[6:]): hits.append(f)
    hits = hits[:40 if quick else 250]
    st["late_escape_positions"] = len(hits)
    jobs = []
    for f, ps in zip(hits, preds(hits)):
        r.shuffle(ps)
        for root in ps[:3] + [f]:
            st["roots"] += 1
            jobs += [(root, f"go depth {d}" + ("!" if r.random() < 0.7 else "")) for d in (2, 3, 4, 5)]
    for i in range(0, len(jobs), 40): sessions.append((nets[(i // 40) % 3], {} if (i // 40) % 4 else {"Hash": 1}, jobs[i:i + 40]))
    # (b)
    c = valid(zug_positions(r, 30000 if quick else 150000))
    hits, strict = [], set()
    for m in (1, 2):
        zs = vlib.run_lines(vh, [f"mate zug {m} 20000 {f}" for f in c])[1]
        for f, z in zip(c, zs):
            if z in ("zug 1 0 1", "zug 1 1 1"): hits.append(f)
            if z == "zug 1 0 1": strict.add(f)
    hits = list(dict.fromkeys(hits))
    hits.sort(key=lambda f: f not in strict)          # those without an equally fast own mate first
    hits = hits[:110 if quick else 500]
    st["zugzwang_positions"], st["zugzwang_without_own_mate"] = len(hits), sum(1 for f in hits if f in strict)
    def passed(f):
        t = f.split(); t[1] = "b" if t[1] == "w" else "w"; t[3] = "-"; t[4] = "0"; return " ".join(t)
    pr, pq = preds(hits), preds([passed(f) for f in hits])
    batch, nb = [], 0
    for f, rs, qs in zip(hits, pr, pq):
        r.shuffle(rs); r.shuffle(qs)
        jobs = []
        if f in strict and qs: jobs += [(qs[0], "go depth 5"), (qs[0], "go depth 7")]      # leaves the passed position in the hash table
        for root in rs[:2 if quick else 3]:
            st["roots"] += 1
            jobs += [(root, f"go depth {d}") for d in r.sample([6, 7, 8, 9], 2 if quick else 3)]
        if jobs:
            jobs[0] = (jobs[0][0], jobs[0][1] + "!")       # each position starts from an empty hash table; several positions share an engine
            batch += jobs
        if len(batch) >= 36:
            sessions.append((nets[nb % 3], {}, batch)); batch = []; nb += 1
    if batch: sessions.append((nets[nb % 3], {}, batch))
    ctx.cov["guarded_site_roots"] = st
    return sessions


CLAIM_PLIES = 5      # interior claims audited up to this distance (5 plies = mate in 3); set per tier in run()
_claim_seq = [0]


def engine_job(args):
    net, opts, jobs = args
    recs = []
    _claim_seq[0] += 1
    cfile = os.path.join(vlib.BUILD, f"claims-{os.getpid()}-{_claim_seq[0]}-{abs(hash((str(net), str(opts), str(jobs[:1]))))}.txt")
    if os.path.exists(cfile): os.remove(cfile)
    eng = uci.Engine("plain", net[0], net[1], env={"TEXEL_VERIF_POSGUARD": "1", "TEXEL_VERIF_CLAIMS": f"{cfile},{CLAIM_PLIES},60000"})
    try:
        return _engine_job(eng, net, opts, jobs, recs)
    finally:
        eng.kill()
        if os.path.exists(cfile):
            with open(cfile) as fh: cl = [l.split(" ", 2) for l in fh.read().split("\n")[:-1] if l.count(" ") >= 7]   # [:-1]: drop an unterminated last line
            os.remove(cfile)
            if recs: recs[0]["claims"] = [(a, int(b), c) for a, b, c in cl]
            if recs: recs[0]["session"] = {"net": list(net), "opts": opts, "jobs": [list(j) for j in jobs]}


def _engine_job(eng, net, opts, jobs, recs):
    try:
        eng.handshake()
        for k, v in opts.items(): eng.setoption(k, v)
        eng.isready()
        for fen, go in jobs:
            eng.send("setoption name Clear Hash") if go.endswith("!") else None
            unfinished = False
            try:
                out = eng.go(f"position fen {fen}", go.rstrip("!"), timeout=120)
            except uci.EngineDied as e:
                recs.append({"fen": fen, "go": go, "opts": opts, "error": str(e)[:300]}); return recs
            except TimeoutError as e:
                # a deep search that does not finish in time is not a C04 matter (C05/C06 judge answering): stop it and audit what it announced
                out = list(getattr(e, "lines", []))
                try:
                    eng.send("stop"); out += eng.read_until(lambda l: l.startswith("bestmove"), 60)
                except (uci.EngineDied, TimeoutError) as e2:
                    recs.append({"fen": fen, "go": go, "opts": opts, "error": "no answer to stop after a search that ran over 120 s: " + str(e2)[:200]}); return recs
                unfinished = True
            recs.append({"fen": fen, "go": go.rstrip("!"), "opts": opts, "net": net, "out": out, "unfinished": unfinished})
        eng.quit()
    finally:
        eng.kill()
    return recs


def bait_filter(fens):
    """roots having a checking move after which every legal reply captures the checker with a more valuable piece (shape test by the Lean model)"""
    drv = vlib.driver_bin()
    val = {"p": 1, "n": 3, "b": 3, "r": 5, "q": 9, "k": 100}
    rc, lg, _ = vlib.run_lines(drv, [f"chess legal {f}" for f in fens])
    q, owner = [], []
    for f, l in zip(fens, lg):
        t = l.split()
        if not t or t[0] != "0": continue
        for m in t[1:]:
            q.append(f"chess line {f} {m}"); owner.append((f, m))
    rc, ch, _ = vlib.run_lines(drv, q)
    q2, own2 = [], []
    for (f, m), c in zip(owner, ch):
        if c.startswith("ok") and "chk=1" in c and (" legal=1 " in c + " " or " legal=2 " in c + " "):
            q2.append("chess legal " + " ".join(c.split()[2:8])); own2.append((f, m, " ".join(c.split()[2:8])))
    rc, ev, _ = vlib.run_lines(drv, q2) if q2 else (0, [], "")
    good = {}
    for (f, m, child), e in zip(own2, ev):
        b = chessgen.fen_board(child)
        sq = lambda s: "abcdefgh".index(s[0]) + 8 * (int(s[1]) - 1)
        checker = b[sq(m[2:4])]
        evs = e.split()[1:]
        if checker and evs and all(x[2:4] == m[2:4] and val[b[sq(x[0:2])].lower()] > val[checker.lower()] and b[sq(x[0:2])].lower() != "k" for x in evs):
            good.setdefault(f, m)
    return list(good.items())


def run(ctx):
    quick = ctx.tier == "quick"
    r = ctx.rng
    # first: Props/C04 imports Bridge/SearchGuards, which imports the guards / clamps regenerated from the CURRENT search.cpp
    xr = xlate.regenerate(ctx, ["SearchGuards"])
    vlib.lean_obligations(ctx)
    ctx.assumptions += ["full playing strength (Strength 1000); synthetic evaluation networks",
                        "guards, clamps and terminal scores of negaScout / quiesce are regenerated from the source and proved to meet the side conditions of the "
                        "claim-calculus rules (Bridge/SearchGuards); the data flow between the sites and the remaining return paths are by reading (DESIGN.md Appendix A)",
                        "static evaluations are not mate scores (|eval| + margin <= MATE0/2): hypothesis of the razoring / futility / reverse-futility site theorems",
                        "mate claims with N > 3 outside the certified tablebase classes are not audited (counted as unverified)"]
    bdir = vlib.cxx_build("plain", ("vharness", "texel", "mknet"))
    vh = os.path.join(bdir, "vharness")
    if ctx.replay:
        rp = ctx.replay["replay"]
        if "session" in rp:
            se = rp["session"]
            recs = engine_job((tuple(se["net"]), se["opts"], [tuple(j) for j in se["jobs"]]))
        else:
            recs = engine_job((tuple(rp.get("net", ("material", 1))), rp.get("opts", {}), [(rp["fen"], rp["go"])]))
        for x in recs: print(x.get("out", x)[-4:] if "out" in x else x)
        audit(ctx, vh, recs, set())
        cl = rp.get("claim")       # interior claims are [kind, plies, fen]; root claims carry the `info` line (judged by audit())
        audit_interior(ctx, vh, recs, 10**9, 10**9, also=cl if isinstance(cl, (list, tuple)) and len(cl) == 3 else None)
        ctx.count(1); ctx.distinct("a"); ctx.distinct("b")
        xlate.report(ctx, xr)
        return
    # ---- candidate positions and classification by the (untrusted) solver
    ncand = 2500 if quick else 30000
    cands = sparse_endgames(r, ncand // 2) + chessgen.synthetic(r, ncand // 4) + chessgen.games(ctx, 10 if quick else 200, 200)[-ncand // 4:]
    rc, fo, _ = vlib.run_lines(vh, [f"chess fen {f}" for f in cands])
    cands = list(dict.fromkeys(o[3:] for o in fo if o.startswith("ok ")))
    rc, m1, _ = vlib.run_lines(vh, [f"mate mate1 {f}" for f in cands])
    rc2, m1l, _ = vlib.run_lines(vlib.driver_bin(), [f"mate mate1 {f}" for f in cands])
    ctx.count(len(cands))
    for f, a, b in zip(cands, m1, m1l):
        if a != b:
            ctx.violation(f"mate-in-one oracle: harness solver says {a}, Lean specification says {b} on `{f}`", {"kind": "correspondence", "input": [f]}, no_input=True); break
    mate1 = [f for f, b in zip(cands, m1l) if b == "1"]
    # mate-in-one positions of the rare move classes (promotion, capture-promotion, castling, en passant, discovered check)
    rare = chessgen.mate1_candidates(r, 30000 if quick else 200000)
    rc, fo2, _ = vlib.run_lines(vh, [f"chess fen {f}" for f in rare])
    rare = list(dict.fromkeys(o[3:] for o in fo2 if o.startswith("ok ")))
    # classification by the Lean specification (not by the engine's own move generator), in parallel
    import concurrent.futures as _cf
    nchunk = max(1, min(vlib.NCPU, 8))
    parts = [rare[i::nchunk] for i in range(nchunk)]
    with _cf.ThreadPoolExecutor(nchunk) as ex:
        outs = list(ex.map(lambda pt: vlib.run_lines(vlib.driver_bin(), [f"mate mate1mv {f}" for f in pt])[1], parts))
    byclass = {}
    for pt, ot in zip(parts, outs):
        for f, mv in zip(pt, ot):
            if mv and not mv.startswith("err") and mv != "bad-op":
                for m in mv.split()[:1]:
                    byclass.setdefault(chessgen.move_class(f, m), []).append(f)
    rare_sel = []
    for cls, fl in sorted(byclass.items()):
        r.shuffle(fl); rare_sel += fl[:(14 if quick else 100) if cls not in ("quiet", "capture") else (4 if quick else 30)]
    ctx.cov["mate1_classes"] = {k: len(v) for k, v in sorted(byclass.items())}
    ctx.log(f"classified {len(rare)} rare-class candidates")
    mate1 = rare_sel + mate1
    rest = [f for f, b in zip(cands, m1l) if b == "0"]
    sub = rest[:450 if quick else 15000]
    import concurrent.futures as _cf2
    nch = 8
    with _cf2.ThreadPoolExecutor(nch) as ex:       # the solver is single-threaded: split the classification over processes
        outs = list(ex.map(lambda pt: vlib.run_lines(vh, [f"mate solve 3 {SOLVE_BUDGET // 3} {f}" for f in pt])[1], [sub[i::nch] for i in range(nch)]))
    sol = [None] * len(sub)
    for i, o in enumerate(outs): sol[i::nch] = o
    rest = sub
    mates23 = [f for f, s in zip(rest, sol) if s.startswith("win ")]
    nomate = [f for f, s in zip(rest, sol) if s.startswith("nowin ")]
    # longer forced mates with an exact oracle: pawnless <= 4-man positions won in 4..12 moves
    few = [f for f in rest if sum(1 for c in f.split()[0] if c.isalpha()) <= 4 and not any(c in "Pp" for c in f.split()[0])]
    rc, dvl, _ = vlib.run_lines(vh, [f"dtm of {f}" for f in few])
    longm = [f for f, v in zip(few, dvl) if v.startswith("win") and 4 <= int(v.split()[1]) <= 12]
    r.shuffle(longm); longm = longm[:24 if quick else 400]
    ctx.cov["long_mate_roots"] = len(longm)
    r.shuffle(mates23); r.shuffle(nomate)
    n1, n23, n0 = (60, 60, 25) if quick else (800, 800, 250)
    mate1, mates23, nomate = mate1[:n1 + len(rare_sel)], mates23[:n23], nomate[:n0]
    ctx.cov["position_classes"] = {"candidates": len(cands), "mate_in_1": len(mate1), "mate_in_2_or_3": len(mates23), "no_mate_within_3": len(nomate)}
    # ---- engine runs
    nets = [("material", 1), ("small", 2), ("big", 3)]
    for k, sd in nets: vlib.net_file(bdir, k, sd)
    optsets = [{}, {"Hash": 1}, {"Threads": 2}, {"Threads": 4, "Hash": 4}, {"UseNullMove": "false"}, {"Threads": 3, "UseNullMove": "false", "Hash": 64}]
    jobs_by_set = {i: [] for i in range(len(optsets))}
    m1_jobs = set()
    for f in mate1:
        i = r.randrange(len(optsets))
        for d in (1, 2, 3, 5) if quick else (1, 2, 3, 4, 5, 7):
            jobs_by_set[i].append((f, f"go depth {d}!")); m1_jobs.add((f, f"go depth {d}"))
    for f in longm:
        i = r.randrange(len(optsets))
        for d in r.sample([7, 8, 9, 10, 11, 12] if quick else [8, 9, 10, 11, 12, 13], 2 if quick else 3):
            jobs_by_set[i].append((f, f"go depth {d}" + ("!" if r.random() < 0.5 else "")))
    # baits: a check answered only by capturing the checker with a more valuable piece — no mate, whatever a pruned quiescence thinks
    bc = chessgen.recapture_baits(r, 400 if quick else 5000)
    rc, fo3, _ = vlib.run_lines(vh, [f"chess fen {f}" for f in bc])
    baits = bait_filter(list(dict.fromkeys(o[3:] for o in fo3 if o.startswith("ok "))))
    r.shuffle(baits); baits = baits[:40 if quick else 500]
    ctx.cov["recapture_baits"] = len(baits)
    for f, m in baits:
        i = r.randrange(len(optsets))
        for d in r.sample([1, 2, 3, 4, 5, 6], 3):
            jobs_by_set[i].append((f, f"go depth {d}" + ("!" if r.random() < 0.5 else "")))
    for f in mates23 + nomate:
        i = r.randrange(len(optsets))
        men = sum(1 for c in f.split()[0] if c.isalpha())
        depths = [2, 3, 4, 5, 6, 7, 8, 10, 12, 14] if men <= 5 else [2, 3, 4, 5, 6, 7, 8] if men <= 10 else [2, 3, 4, 5, 6]
        for d in r.sample(depths, 2 if quick else 3):
            jobs_by_set[i].append((f, f"go depth {d}" + ("!" if r.random() < 0.5 else "")))
    sessions = []
    for i, o in enumerate(optsets):
        js = jobs_by_set[i]
        for c in range(0, len(js), 30):
            sessions.append((nets[(i + c) % len(nets)], o, js[c:c + 30]))
    gs = guarded_site_sessions(ctx, vh, quick)
    ctx.log(f"guarded-site roots: {ctx.cov['guarded_site_roots']} -> {sum(len(x[2]) for x in gs)} searches in {len(gs)} sessions")
    sessions += gs
    ctx.log(f"{sum(len(s[2]) for s in sessions)} searches in {len(sessions)} sessions")
    with cf.ThreadPoolExecutor(max(2, vlib.NCPU // 2)) as ex:
        recs = [x for rs in ex.map(engine_job, sessions) for x in rs]
    ctx.log("searches done")
    audit(ctx, vh, recs, m1_jobs)
    audit_interior(ctx, vh, recs, 40000 if quick else 400000, 5000 if quick else 60000)
    ctx.cov["rule"] = ("positions: sparse endgames (K+Q/R/minor vs K(+piece/pawn), weak king near the edge), synthetic motifs, late positions of random games; classified by the solver into mate-in-1 / mate-in-2..3 / "
                       "no mate within 3 (all three classes searched); x depth 1..14 x {Hash 1..64, Threads 1..4, UseNullMove on/off} x 3 nets, with and without a cleared hash; every `score mate N` "
                       "(exact or lowerbound, N>0; final exact N<0) audited by Lean-verified certificates; plus roots aimed at the guarded pruning sites (late quiet escapes for late-move pruning / futility, "
                       "zugzwang positions for the null move), whose interior mate claims are audited; distinct = distinct (position, go, options)")
    xlate.report(ctx, xr)       # a broken guard tie is reported without input unless the audits above produced a failing input
    if not quick:
        vlib.leanchecker(ctx, ["TexelVerif.Props.C04", "TexelVerif.Bridge.SearchGuards"])


def audit(ctx, vh, recs, m1_jobs):
    stats = {"searches": 0, "positive_mate_claims": 0, "negative_mate_claims": 0, "claims_verified_by_certificate": 0, "claims_unverified_N_gt_3": 0,
             "solver_unknown": 0, "mate1_roots": 0, "bestmove_keeps_mate_checked": 0, "claims_verified_by_dtm": 0}
    claims = {}   # (fen, kind, N) -> example record
    post = []     # (fen, bestmove, N, rec): after bestmove the opponent must be lost within N-1
    for rec in recs:
        if "error" in rec:
            ctx.violation(f"engine failed: {rec['error']}", {"kind": "engine-failure", "fen": rec["fen"], "go": rec["go"], "opts": rec["opts"]}); continue
        ctx.count(); ctx.distinct((rec["fen"], rec["go"], str(rec["opts"]), str(rec.get("net"))))
        stats["searches"] += 1
        stats["searches_stopped_after_120s"] = stats.get("searches_stopped_after_120s", 0) + (1 if rec.get("unfinished") else 0)
        pg = [l for l in rec["out"] if "verif posguard" in l]
        if pg:
            ctx.violation(f"a search node did not restore the position during `{rec['go']}` on `{rec['fen']}`: {pg[0][:160]}",
                          {"kind": "property-predicate", "fen": rec["fen"], "go": rec["go"], "opts": rec["opts"], "net": rec.get("net"), "report": pg[0]})
        last = None
        for line in rec["out"]:
            if line.startswith("info") and " score mate " in line and " pv" in line:
                d = uci.parse_info(line)
                n = d.get("score")
                if n is None: continue
                if n > 0 and d.get("bound") != "upperbound":
                    claims.setdefault((rec["fen"], "win", n), (rec, line)); stats["positive_mate_claims"] += 1
                last = d
            elif line.startswith("info") and " score " in line and " pv" in line:
                last = uci.parse_info(line)
        bm = uci.parse_bestmove(rec["out"][-1])
        if last is not None and last.get("score_kind") == "mate" and "bound" not in last:
            n = last["score"]
            if n < 0 and rec.get("unfinished"):
                pass                 # the property speaks of losing scores of searches that completed their last iteration
            elif n < 0:
                claims.setdefault((rec["fen"], "lose", -n), (rec, last["raw"])); stats["negative_mate_claims"] += 1
            elif n > 0 and bm["best"] and bm["best"] != "0000":
                post.append((rec["fen"], bm["best"], n, rec))
        if (rec["fen"], rec["go"]) in m1_jobs:
            stats["mate1_roots"] += 1
            ok = last is not None and last.get("score_kind") == "mate" and last.get("score") == 1 and "bound" not in last
            if not ok:
                ctx.violation(f"a mate in one exists in `{rec['fen']}` but `{rec['go']}` ended with `{last['raw'] if last else None}`",
                              {"kind": "property-predicate", "fen": rec["fen"], "go": rec["go"], "opts": rec["opts"], "net": rec.get("net")})
            post.append((rec["fen"], bm["best"], 1, rec))
    # ---- certificates for the root claims
    keys = [k for k in claims if k[2] <= 3]
    # claims with N > 3: exact distance to mate from the (C12-certified) tablebase generator when the root is a pawnless <= 4-man position
    big = [k for k in claims if k[2] > 3]
    stats["claims_verified_by_dtm"] = 0
    if big:
        rc, dv, _ = vlib.run_lines(vh, [f"dtm of {k[0]}" for k in big])
        unver = 0
        for (f, kind, n), v in zip(big, dv):
            rec, line = claims[(f, kind, n)]
            base = {"kind": "property-predicate", "fen": f, "go": rec["go"], "opts": rec["opts"], "net": rec.get("net"), "claim": line, "dtm": v}
            if v in ("none", "bad-op") or v.startswith("err") or v == "gen-failed": unver += 1; continue
            want = "win" if kind == "win" else "loss"
            if v.startswith(want) and int(v.split()[1]) <= n: stats["claims_verified_by_dtm"] += 1
            else: ctx.violation(f"announced mate is not real: `{line}` on `{f}` but the exact value is `{v}`", base)
        stats["claims_unverified_N_gt_3"] = unver
    else:
        stats["claims_unverified_N_gt_3"] = 0
    sl = [(f"mate solve {n} {SOLVE_BUDGET} {f}" if kind == "win" else f"mate lose {n} {SOLVE_BUDGET} {f}") for (f, kind, n) in keys]
    rc, sol, _ = vlib.run_lines(vh, sl) if sl else (0, [], "")
    q, qm = [], []
    for (f, kind, n), s in zip(keys, sol):
        rec, line = claims[(f, kind, n)]
        base = {"kind": "property-predicate", "fen": f, "go": rec["go"], "opts": rec["opts"], "net": rec.get("net"), "claim": line}
        if kind == "win":
            if s.startswith("win "): q.append(f"mate wincert {n} {f} {s[4:]}"); qm.append(("ok", base))
            elif s.startswith("nowin "): q.append(f"mate nowincert {n} {f} {s[6:]}"); qm.append(("refute", base))
            else: stats["solver_unknown"] += 1
        else:
            if s.startswith("lose "): q.append(f"mate losecert {n} {f} {s[5:]}"); qm.append(("ok", base))
            elif s.startswith("notlose "):
                mv = s.split()[1]
                q.append(("AFTER", f, mv, n, s.split(" ", 2)[2])); qm.append(("refute", base))
            elif s == "nomoves": ctx.violation(f"`mate -{n}` announced in a position without legal moves: {line}", base)
            else: stats["solver_unknown"] += 1
    # ---- the best move must keep the mate: after it, the opponent is mated now (N=1) or loses within N-1
    pk = list(dict.fromkeys((f, mv, n) for f, mv, n, _ in post if n <= 3))
    prec = {(f, mv, n): rec for f, mv, n, rec in post}
    if pk:
        rc, after, _ = vlib.run_lines(vlib.driver_bin(), [f"chess line {f} {mv}" for f, mv, n in pk])
        sl2, idx = [], []
        for (f, mv, n), a in zip(pk, after):
            rec = prec[(f, mv, n)]
            base = {"kind": "property-predicate", "fen": f, "go": rec["go"], "opts": rec["opts"], "net": rec.get("net"), "bestmove": mv, "mate": n}
            if not a.startswith("ok"):
                ctx.violation(f"best move {mv} with score mate {n} is illegal in `{f}`", base); continue
            stats["bestmove_keeps_mate_checked"] += 1
            t = a.split()
            fen2 = " ".join(t[2:8])
            mated = "legal=0" in a and "chk=1" in a
            if n == 1:
                if not mated:
                    ctx.violation(f"score mate 1 but the best move {mv} does not checkmate in `{f}`", base)
            elif not mated:
                sl2.append(f"mate lose {n - 1} {SOLVE_BUDGET} {fen2}"); idx.append((fen2, n - 1, base))
        rc, sol2, _ = vlib.run_lines(vh, sl2) if sl2 else (0, [], "")
        for (fen2, n1, base), s in zip(idx, sol2):
            if s.startswith("lose "): q.append(f"mate losecert {n1} {fen2} {s[5:]}"); qm.append(("ok", base))
            elif s.startswith("notlose "): q.append(("AFTER", fen2, s.split()[1], n1, s.split(" ", 2)[2])); qm.append(("refute-best", base))
            elif s == "nomoves": ctx.violation(f"after best move {base['bestmove']} (score mate {base['mate']}) the position `{fen2}` is stalemate", base)
            else: stats["solver_unknown"] += 1
    # resolve AFTER entries (need the position after a move)
    aft = [x for x in q if isinstance(x, tuple)]
    if aft:
        rc, res, _ = vlib.run_lines(vlib.driver_bin(), [f"chess line {f} {mv}" for _, f, mv, n, c in aft])
        m = {}
        for (_, f, mv, n, c), a in zip(aft, res):
            m[(f, mv)] = " ".join(a.split()[2:8]) if a.startswith("ok") else None
        q = [(f"mate nowincert {x[3]} {m[(x[1], x[2])]} {x[4]}" if isinstance(x, tuple) else x) for x in q]
    if q:
        rc, ver, err = vlib.run_lines(vlib.driver_bin(), q)
        if rc != 0 or len(ver) != len(q):
            ctx.violation("Lean driver died verifying mate certificates", {"kind": "model-crash", "stderr": err[-300:]}, no_input=True); return
        for line, (kind, base), v in zip(q, qm, ver):
            if kind == "ok":
                if v == "ok": stats["claims_verified_by_certificate"] += 1
                else: ctx.violation(f"solver's certificate rejected by the Lean checker ({v}) — solver and specification disagree on `{base['fen']}`", {**base, "kind": "correspondence", "cert": line[:2000]}, no_input=True)
            else:
                if v == "ok":
                    what = "announced mate is not real" if kind == "refute" else "best move does not keep the announced mate"
                    ctx.violation(f"{what}: `{base.get('claim', base.get('bestmove'))}` on `{base['fen']}` ({base['go']}, {base['opts']}); refutation certificate verified in Lean", {**base, "refutation": line[:3000]})
                else:
                    ctx.violation(f"solver refutes the claim but its refutation certificate was rejected by the Lean checker ({v}) on `{base['fen']}`", {**base, "kind": "correspondence"}, no_input=True)
    for k, v in stats.items():
        ctx.cov.setdefault("audit_stats", {})[k] = ctx.cov.get("audit_stats", {}).get(k, 0) + v
    ctx.tie("mate-claim-audit", kind="`score mate N` claims of the real engine verified through Lean-checked certificates", certificates=len(q))
    for rec in recs[:2]:
        if "out" in rec: ctx.sample({"fen": rec["fen"], "go": rec["go"], "opts": rec["opts"], "tail": rec["out"][-2:]})


def audit_interior(ctx, vh, recs, cap_trivial, cap_deep, also=None):
    """every mate claim returned by an interior negaScout node (TEXEL_VERIF_CLAIMS hook): `win k` = the side to move mates within k
    plies, `lose k` = it is mated within k plies.  k <= 1 by the Lean oracles directly, longer ones through certificates."""
    r = ctx.rng
    seen, triv, deep, nraw = set(), [], [], 0
    for rec in recs:
        for kind, k, fen in rec.get("claims", []):
            nraw += 1
            key = (" ".join(fen.split()[:4]), kind, k)
            if key in seen: continue
            seen.add(key)
            n = (k + 1) // 2 if kind == "win" else k // 2
            item = (kind, k, n, fen, rec.get("session"))
            if (kind == "win" and k <= 0) or k < 0:
                ctx.violation(f"a search node returned the impossible mate claim `{kind} {k}` on `{fen}`", {"kind": "property-predicate", "claim": [kind, k, fen], "session": rec.get("session")})
            elif (kind == "win" and n == 1) or (kind == "lose" and n == 0): triv.append(item)
            else: deep.append(item)
    r.shuffle(triv); r.shuffle(deep)
    dist = {}
    for it in triv + deep: dist[f"{it[0]} {it[1]}"] = dist.get(f"{it[0]} {it[1]}", 0) + 1
    st = ctx.cov.setdefault("interior_claims", {"logged": 0, "distinct": 0, "by_kind_plies": {}, "verified_by_oracle": 0, "verified_by_certificate": 0, "solver_unknown": 0, "not_sampled": 0})
    st["logged"] += nraw; st["distinct"] += len(triv) + len(deep)
    for k2, v in dist.items(): st["by_kind_plies"][k2] = st["by_kind_plies"].get(k2, 0) + v
    st["not_sampled"] += max(0, len(triv) - cap_trivial) + max(0, len(deep) - cap_deep)
    if also:       # replay: the recorded claim itself is judged even when this run does not reproduce it
        kind, k, fen = also
        n = (k + 1) // 2 if kind == "win" else k // 2
        (triv if (kind == "win" and n == 1) or (kind == "lose" and n == 0) else deep).insert(0, (kind, k, n, fen, None))
    triv, deep = triv[:cap_trivial], deep[:cap_deep]
    drv = vlib.driver_bin()
    nch = max(1, min(vlib.NCPU, 8))
    def par(binary, lines):
        if not lines: return []
        parts = [lines[i::nch] for i in range(nch)]
        with cf.ThreadPoolExecutor(nch) as ex:
            outs = list(ex.map(lambda pt: vlib.run_lines(binary, pt)[1] if pt else [], parts))
        res = [None] * len(lines)
        for i, o in enumerate(outs):
            if len(o) != len(parts[i]): o = (o + ["died"] * len(parts[i]))[:len(parts[i])]
            res[i::nch] = o
        return res
    # ---- mate in one / mated now: exact Lean oracles
    wins1 = [it for it in triv if it[0] == "win"]; lose0 = [it for it in triv if it[0] == "lose"]
    for it, v in zip(wins1, par(drv, [f"mate mate1 {it[3]}" for it in wins1])):
        ctx.count(); ctx.distinct(("claim",) + it[:2] + (it[3],))
        if v == "1": st["verified_by_oracle"] += 1
        else: ctx.violation(f"a search node claimed a mate within {it[1]} ply for the side to move on `{it[3]}` but no move mates (Lean oracle: {v})",
                            {"kind": "property-predicate", "claim": list(it[:2]) + [it[3]], "session": it[4]})
    for it, v in zip(lose0, par(drv, [f"chess line {it[3]}" for it in lose0])):
        ctx.count(); ctx.distinct(("claim",) + it[:2] + (it[3],))
        if v.startswith("ok") and "legal=0" in v and "chk=1" in v: st["verified_by_oracle"] += 1
        else: ctx.violation(f"a search node claimed `mated now` on `{it[3]}` but the side to move is not checkmated ({v[-16:]})",
                            {"kind": "property-predicate", "claim": list(it[:2]) + [it[3]], "session": it[4]})
    # ---- longer claims: solver strategy / refutation, verified by the proven checkers
    sol = par(vh, [(f"mate solve {it[2]} {SOLVE_BUDGET} {it[3]}" if it[0] == "win" else f"mate lose {it[2]} {SOLVE_BUDGET} {it[3]}") for it in deep])
    q, qm, aft = [], [], []
    for it, s in zip(deep, sol):
        kind, k, n, fen, sess = it
        ctx.count(); ctx.distinct(("claim", kind, k, fen))
        base = {"kind": "property-predicate", "claim": [kind, k, fen], "session": sess}
        if kind == "win":
            if s.startswith("win "): q.append(f"mate wincert {n} {fen} {s[4:]}"); qm.append(("ok", base))
            elif s.startswith("nowin "): q.append(f"mate nowincert {n} {fen} {s[6:]}"); qm.append(("refute", base))
            else: st["solver_unknown"] += 1
        else:
            if s.startswith("lose "): q.append(f"mate losecert {n} {fen} {s[5:]}"); qm.append(("ok", base))
            elif s.startswith("notlose "): aft.append((len(q), fen, s.split()[1], n, s.split(" ", 2)[2])); q.append(None); qm.append(("refute", base))
            elif s == "nomoves": ctx.violation(f"a search node claimed `mated within {k} plies` on `{fen}`, which has no legal move and is not mate", base)
            else: st["solver_unknown"] += 1
    if aft:
        res = par(drv, [f"chess line {f} {mv}" for _, f, mv, n, c in aft])
        for (i, f, mv, n, c), a in zip(aft, res):
            q[i] = f"mate nowincert {n} {' '.join(a.split()[2:8])} {c}" if a.startswith("ok") else "mate bad"
    ver = par(drv, q)
    for line, (kind, base), v in zip(q, qm, ver):
        if kind == "ok":
            if v == "ok": st["verified_by_certificate"] += 1
            else: ctx.violation(f"solver's certificate rejected by the Lean checker ({v}) on `{base['claim'][2]}`", {**base, "kind": "correspondence", "cert": line[:2000]}, no_input=True)
        elif v == "ok":
            c = base["claim"]
            ctx.violation(f"a search node returned the mate claim `{c[0]} within {c[1]} plies` on `{c[2]}` and it is false (refutation certificate verified in Lean)", {**base, "refutation": line[:3000]})
        else:
            ctx.violation(f"solver refutes an interior claim but its refutation was rejected by the Lean checker ({v}) on `{base['claim'][2]}`", {**base, "kind": "correspondence"}, no_input=True)
    ctx.tie("interior-mate-claims", kind="every mate claim returned by a negaScout node of the real searches (hook TEXEL_VERIF_CLAIMS), i.e. the run-time instances of `Sound` of the claim calculus, "
            "verified by the Lean mate-in-one / checkmate oracles and by Lean-checked certificates", claims=len(triv) + len(deep))
