"""C09 — multi-threaded operation is free of data races.
Lean: Props/C09.lean (on top of the protocol model of C10: table of shared locations with their protection
discipline, access sets per model step, theorem `drf`: no two enabled steps of different threads have
conflicting unprotected non-atomic accesses; uses the quiescence facts of C10).
Tie: (1) the hooked event logs of the TSan build are accepted by the model (the run follows the model's skeleton);
(2) static tie (tools/locktie.py + Bridge/LockFacts.lean): lock sets, atomic types and the member list of the thread-layer classes
are extracted from the current source and the table's discipline is proved over them (`lock_discipline_guarded`,
`atomics_are_atomic`, `access_table_complete`); (3) dynamic support for what a lexical analysis cannot see: ThreadSanitizer builds of `texel` (the C10 command
scripts, Threads 2..8, hooks inert and hooks on) and of `texelutil proofgame -f` (2..16 workers): any TSan
report is a violation with the session as replay."""
import os, re, subprocess, time
from concurrent.futures import ThreadPoolExecutor
import vlib, locktie
from checks import c10

TSAN_ENV = {"TSAN_OPTIONS": "halt_on_error=0 exitcode=66 report_signal_unsafe=0 history_size=4 second_deadlock_stack=1"}

# the instrumented binary is 5-15x slower and the machine may be shared: scale the answer timeouts of the C10 scripts
TS_SCALE = float(os.environ.get("VERIF_C09_TSCALE", "6"))
TS_WALL = float(os.environ.get("VERIF_C09_WALL", "400"))

# positions for `proofgame -f` (legal opening / early middle-game positions: the filter finds proof games or gives up)
FENS = [
    "rnbqkbnr/pppppppp/8/8/4P3/8/PPPP1PPP/RNBQKBNR b KQkq - 0 1",
    "rnbqkbnr/pppp1ppp/8/4p3/4P3/5N2/PPPP1PPP/RNBQKB1R b KQkq - 1 2",
    "r1bqkbnr/1ppp1ppp/p1n5/1B2p3/4P3/5N2/PPPP1PPP/RNBQK2R w KQkq - 0 4",
    "rnbqkb1r/pp2pppp/3p1n2/8/3NP3/8/PPP2PPP/RNBQKB1R w KQkq - 1 5",
    "rnbqkb1r/ppp1pppp/5n2/3p4/3P4/5N2/PPP1PPPP/RNBQKB1R w KQkq - 2 3",
    "r1bqk1nr/pppp1ppp/2n5/2b1p3/2B1P3/5N2/PPPP1PPP/RNBQK2R w KQkq - 4 4",
    "rnbqk2r/pppp1ppp/4pn2/8/1bPP4/2N5/PP2PPPP/R1BQKBNR w KQkq - 2 4",
    "rnbq1rk1/ppp1ppbp/3p1np1/8/2PPP3/2N2N2/PP3PPP/R1BQKB1R w KQ - 1 6",
    "r1bqkb1r/pppp1ppp/2n2n2/4p3/2B1P3/5N2/PPPP1PPP/RNBQK2R w KQkq - 4 4",
    "rnbqkbnr/pp1ppppp/8/2p5/4P3/8/PPPP1PPP/RNBQKBNR w KQkq - 0 2",
    "rnbqkbnr/ppp2ppp/4p3/3p4/3PP3/8/PPP2PPP/RNBQKBNR w KQkq - 0 3",
    "rnbqkbnr/pp2pppp/2p5/3p4/3PP3/8/PPP2PPP/RNBQKBNR w KQkq - 0 3",
    "rnbqkb1r/pppppp1p/5np1/8/2PP4/8/PP2PPPP/RNBQKBNR w KQkq - 0 3",
    "r1bqkbnr/pppp1ppp/2n5/4p3/3PP3/5N2/PPP2PPP/RNBQKB1R b KQkq - 0 3",
    "rnbqkbnr/ppp1pppp/8/3p4/2PP4/8/PP2PPPP/RNBQKBNR b KQkq - 0 2",
    "rnbqkb1r/pppp1ppp/5n2/4p3/4P3/2N5/PPPP1PPP/R1BQKBNR w KQkq - 2 3",
    "rnbqkbnr/pppp1ppp/8/8/4Pp2/8/PPPP2PP/RNBQKBNR w KQkq - 0 3",
    "rnbqkb1r/1p2pppp/p2p1n2/8/3NP3/2N5/PPP2PPP/R1BQKB1R w KQkq - 0 6",
    "r1bq1rk1/2p1bppp/p1np1n2/1p2p3/4P3/1BP2N2/PP1P1PPP/RNBQR1K1 w - - 0 9",
    "rnbqk1nr/ppp2ppp/4p3/3p4/1b1PP3/2N5/PPP2PPP/R1BQKBNR w KQkq - 2 4",
    "rnbqkbnr/pppppppp/8/8/8/8/PPPPPPPP/RNBQKBNR w KQkq - 0 1",
    "rnbqkbnr/pppppppp/8/8/8/5N2/PPPPPPPP/RNBQKB1R b KQkq - 1 1",
    "r3k2r/pppq1ppp/2npbn2/2b1p3/2B1P3/2NPBN2/PPPQ1PPP/R3K2R w KQkq - 6 8",
]

TSAN_RE = re.compile(r"WARNING: ThreadSanitizer: ([^\n]*)")


def tsan_reports(stderr):
    return TSAN_RE.findall(stderr or "")


def known_finding_id(stderr):
    """Classify a TSan report that matches a recorded finding (known_findings.json)."""
    reps = (stderr or "").split("WARNING: ThreadSanitizer")[1:]
    if reps and all("Communicator::poll" in r and ("Communicator::~Communicator" in r or "Communicator::removeChild" in r) for r in reps):
        return "worker-destroy-vs-poll"
    return None


def run_proofgame(binary, workers, fens, extra=(), timeout=900):
    env = dict(os.environ); env.update(TSAN_ENV)
    t0 = time.time()
    try:
        p = subprocess.run([binary, "-j", str(workers), "proofgame", "-f"] + list(extra), input="\n".join(fens) + "\n",
                           stdout=subprocess.PIPE, stderr=subprocess.PIPE, text=True, errors="replace", env=env, timeout=timeout)
        rc, out, err = p.returncode, p.stdout, p.stderr
    except subprocess.TimeoutExpired as e:
        rc, out, err = -9, (e.stdout or b"").decode(errors="replace") if isinstance(e.stdout, bytes) else (e.stdout or ""), \
            (e.stderr or b"").decode(errors="replace") if isinstance(e.stderr, bytes) else (e.stderr or "")
    return {"workers": workers, "rc": rc, "out": out, "err": err, "wall": time.time() - t0, "fens": fens, "extra": list(extra)}


def judge_proofgame(ctx, res):
    reps = tsan_reports(res["err"])
    verdicts = [l for l in res["out"].split("\n") if re.search(r" (legal|illegal|unknown):", l) or l.strip().endswith("legal") or "proof:" in l]
    ctx.count(1)
    ctx.distinct(("proofgame", res["workers"], tuple(res["fens"])))
    replay = {"kind": "tsan-proofgame", "binary": "texelutil", "args": ["-j", str(res["workers"]), "proofgame", "-f"] + res["extra"], "stdin": res["fens"]}
    if reps:
        ctx.violation(f"proofgame -f with {res['workers']} workers: ThreadSanitizer: {reps[0]}",
                      dict(replay, reports=reps[:5], stderr_tail=res["err"][-3000:]))
    elif res["rc"] != 0:
        ctx.violation(f"proofgame -f with {res['workers']} workers: exit status {res['rc']} after {res['wall']:.0f} s",
                      dict(replay, stderr_tail=res["err"][-1500:]))
    return len(verdicts)


def judge_tsan_sessions(ctx, sess, label):
    for s in sess:
        reps = tsan_reports(s.stderr)
        if reps:
            rp = dict(s.replay(), kind="tsan-session", variant="tsan", reports=reps[:5], stderr_tail=s.stderr[-6000:])
            fid = known_finding_id(s.stderr)
            if fid:
                rp["finding_id"] = fid
                s.known_tsan = True
            ctx.violation(f"{label}: {s.name} with Threads {s.threads}: ThreadSanitizer: {reps[0]}", rp)


def run(ctx):
    quick = ctx.tier == "quick"
    if ctx.replay:
        rp = ctx.replay["replay"]
        if rp.get("kind") == "locktie":
            locktie.regenerate(ctx, "C09")
            return
        bdir = vlib.cxx_build("tsan", ("texel", "texelutil", "mknet"))
        vlib.lake_build(["driver"])
        if rp.get("kind") == "tsan-proofgame":
            for attempt in range(3):
                res = run_proofgame(os.path.join(bdir, "texelutil"), int(rp["args"][1]), rp["stdin"], rp["args"][4:])
                print(res["err"][-2500:])
                judge_proofgame(ctx, res)
                if ctx.violations: break
        else:
            for attempt in range(5):
                s = c10.replay_session(ctx, dict(rp, env=dict(rp.get("env", {}), **TSAN_ENV)), "tsan", wall=TS_WALL, tscale=TS_SCALE)
                print(s.stderr[-2500:])
                judge_tsan_sessions(ctx, [s], "replay")
                c10.judge(ctx, [s], "replay", check_accept=bool(s.events))
                if ctx.violations: break
        return
    vlib.lean_obligations(ctx)
    # static tie: lock / atomic / completeness facts regenerated from the current source, Bridge/LockFacts.lean proved over them
    # (a broken theorem is reported there with the offending sites; the TSan runs below may add a failing session)
    locktie.regenerate(ctx, "C09")
    bdir = vlib.cxx_build("tsan", ("texel", "texelutil", "mknet"))
    net = vlib.net_file(vlib.cxx_build("plain", ("mknet",)), "material", 1)
    texel = os.path.join(bdir, "texel")
    ctx.cov["rule"] = ("TSan build: C10 command scripts x Threads 2..8 (hooks inert: no event log, no yields; and hooks on with seeded yields, "
                       "logs replayed through the model); `texelutil -j N proofgame -f` on a list of opening positions for N in 2..16; "
                       "one evaluation = one process run to exit; any ThreadSanitizer report is a violation")
    ctx.assumptions += ["the table of shared locations (Conc/Access.lean, Conc/LockTable.lean) is complete for the data members of the six thread-layer classes (theorem access_table_complete over the extracted member list); globals and objects reached through pointers are validated dynamically (TSan) only",
                        "lock sets are lexical (locktie): which thread runs a function / that set-up and quiesced phases exclude other threads is the trusted function list of Conc/LockTable.lean, supported by the model (G3.s1, quiescent_at_ack) and TSan",
                        "ThreadSanitizer's happens-before analysis covers only the interleavings that occurred in these runs",
                        "relaxed std::atomic accesses (transposition table slots, time limits, node counters) are race-free by definition",
                        "std::mutex / std::condition_variable / std::thread::join behave as specified (trusted)"]
    # (1) engine sessions, hooks inert
    per = 1 if quick else 4
    scripts = c10.SCRIPTS if not quick else {k: v for k, v in c10.SCRIPTS.items()}
    plain = c10.make_sessions(ctx, texel, net, per, range(2, 9), want_events=False, yields=False, scripts=scripts)
    for s in plain:
        s.env.update(TSAN_ENV); s.wall = TS_WALL; s.tscale = TS_SCALE
    # (2) engine sessions, hooks on (event log + yields), accepted by the model
    hooked = c10.make_sessions(ctx, texel, net, 1 if quick else 2, (2, 3, 5, 8) if quick else range(2, 9), want_events=True, yields=True,
                               scripts={k: c10.SCRIPTS[k] for k in (("go-stop", "threads-change", "quit-during-search") if quick else c10.SCRIPTS)})
    for s in hooked:
        s.env.update(TSAN_ENV); s.wall = TS_WALL; s.tscale = TS_SCALE
    t0 = time.time()
    c10.run_sessions(plain + hooked, 4)
    ctx.log(f"{len(plain)} + {len(hooked)} TSan engine sessions in {time.time() - t0:.1f}s")
    judge_tsan_sessions(ctx, plain + hooked, "texel (TSan)")
    c10.judge(ctx, plain, "tsan-sessions-hooks-inert", check_accept=False)
    nev = c10.judge(ctx, hooked, "tsan-sessions-accepted", strict=True)
    ctx.log(f"{nev} events of the TSan build replayed through the model")
    # (3) the utility tool's worker pool
    r = ctx.rng
    workers = [2, 3, 5, 8, 16] if quick else list(range(2, 17))
    util = os.path.join(bdir, "texelutil")
    jobs = []
    for w in workers:
        fens = r.sample(FENS, 10 if quick else len(FENS))
        extra = ["-rnd", str(r.randrange(1, 1 << 30))] if r.random() < 0.5 else []
        jobs.append((w, fens, extra))
    t0 = time.time()
    with ThreadPoolExecutor(max_workers=2) as ex:
        results = list(ex.map(lambda j: run_proofgame(util, j[0], j[1], j[2]), jobs))
    nver = sum(judge_proofgame(ctx, res) for res in results)
    ctx.tie("tsan-proofgame", kind="ThreadSanitizer run of texelutil proofgame -f", runs=len(results), verdict_lines=nver,
            workers=workers)
    ctx.log(f"{len(results)} proofgame -f runs ({nver} verdict lines) in {time.time() - t0:.1f}s")
    if len(ctx.cov["samples"]) < 6 and results:
        ctx.sample({"proofgame_workers": results[0]["workers"], "rc": results[0]["rc"], "output_tail": results[0]["out"].split("\n")[-4:]})
    if not quick:
        vlib.leanchecker(ctx, ["TexelVerif.Props.C09"])
