"""C20 — the rank-constraint solver (CspSolver) decides satisfiability exactly.
Lean: Props/C20.lean (solve sound / complete / iff for every preference assignment, total with a proved fuel bound,
bit-set primitive specs, no-int-overflow side conditions).
Tie: differential of the real CspSolver / BitSet<64,-16> against the compiled Lean model, one whole solver life per
line (verdict, returned assignment, getNumNodes(), domains after arc consistency), and the property's own predicate
evaluated on the implementation's output by an independent Python oracle (exhaustive DFS for small systems, arc
consistency + minimal assignment -- exact for difference constraints -- for the rest)."""
import hashlib, itertools, os, random, subprocess, time
from multiprocessing import Pool
import vlib

LO, HI = -16, 47
C_MAX, M_MAX = 2147483600, 2147483630
INT_MIN, INT_MAX = -2 ** 31, 2 ** 31 - 1
MAXCONS = 192
BS_NAME = {0: "small", 1: "large", 2: "mid-small", 3: "mid-large"}


# ------------------------------------------------------------------------------------------------
# Independent reading of the API: what a call sequence means (sets of integers, no bit tricks)
# ------------------------------------------------------------------------------------------------

def interp(calls):
    """-> ("err", kind, index) | ("ok", doms: list[set], cons: list[(x, y, c)] meaning x <= y + c, prefs)"""
    doms, cons, prefs = [], [], []
    for i, c in enumerate(calls):
        op = c[0]
        if op == "V":
            _, p, lo, hi = c
            if not (LO <= lo <= HI and LO <= hi <= HI): return ("err", "range", i)
            doms.append(set(range(lo, hi + 1))); prefs.append(p)
        elif op in "EO":
            v = c[1]
            if v >= len(doms): return ("err", "var", i)
            doms[v] = {x for x in doms[v] if x % 2 == (0 if op == "E" else 1)}
        elif op == "m":
            _, v, m = c
            if v >= len(doms): return ("err", "var", i)
            if m > HI: return ("err", "window", i)
            doms[v] = {x for x in doms[v] if x >= m}
        elif op == "M":
            _, v, m = c
            if v >= len(doms): return ("err", "var", i)
            if m > M_MAX: return ("err", "overflow", i)
            if m < LO - 1: return ("err", "window", i)
            doms[v] = {x for x in doms[v] if x <= m}
        else:
            _, a, b, k = c
            if a >= len(doms) or b >= len(doms): return ("err", "var", i)
            if abs(k) > C_MAX: return ("err", "overflow", i)
            if op in "LQ": cons.append((a, b, k))
            if op in "GQ": cons.append((b, a, -k))
    return ("ok", doms, cons, prefs)


def arc(doms, cons):
    """Arc consistency to the global fixpoint (naive sweep).  Returns pruned domains or None if one empties."""
    d = [set(s) for s in doms]
    changed = True
    while changed:
        changed = False
        for (x, y, c) in cons:
            if not d[x] or not d[y]: return None
            mx = max(d[y]) + c
            nx = {v for v in d[x] if v <= mx}
            if nx != d[x]: d[x] = nx; changed = True
            if not d[x]: return None
            mn = min(d[x]) - c
            ny = {v for v in d[y] if v >= mn}
            if ny != d[y]: d[y] = ny; changed = True
            if not d[y]: return None
    return d


def holds(vals, doms, cons):
    return len(vals) == len(doms) and all(v in s for v, s in zip(vals, doms)) and all(vals[x] <= vals[y] + c for (x, y, c) in cons)


def oracle(doms, cons):
    """Exact decision for difference constraints with arbitrary unary domains: x <= y + c is min-closed, so after
    arc consistency the vector of minima is a solution.  Returns a verified witness or None (= unsatisfiable)."""
    if any(not s for s in doms): return None
    d = arc(doms, cons)
    if d is None: return None
    w = [min(s) for s in d]
    if not holds(w, doms, cons): raise AssertionError("oracle self-check failed")
    return w


def brute(doms, cons, limit):
    """Exhaustive enumeration (no pruning other than checking constraints as soon as both ends are assigned).
    Returns (list of per-variable sets of values that occur in a solution) or None if the space exceeds `limit`."""
    n = len(doms)
    size = 1
    for s in doms:
        size *= max(1, len(s))
        if size > limit: return None
    by_last = [[] for _ in range(n)]
    for (x, y, c) in cons: by_last[max(x, y)].append((x, y, c))
    occ = [set() for _ in range(n)]
    vals = [0] * n
    order = [sorted(s) for s in doms]

    def rec(k):
        if k == n:
            for i in range(n): occ[i].add(vals[i])
            return
        for v in order[k]:
            vals[k] = v
            if all(vals[x] <= vals[y] + c for (x, y, c) in by_last[k]): rec(k + 1)
    rec(0)
    return occ


def search_doms(doms, cons):
    """Domains the real search will enumerate, in variable order, as far as they matter for a bound on the number of
    solveRecursive calls.  With an empty domain somewhere the C++ arc consistency gives no guarantee (it reads the
    bound -1 from an empty set), and the search enumerates every earlier variable before it reaches the empty one:
    use the initial domains up to and including the first empty one."""
    if not doms: return []
    if not all(doms):
        k = next(i for i, s in enumerate(doms) if not s)
        return [set(s) for s in doms[:k + 1]]
    # self-loops are left out: the C++ work list does not re-queue a constraint on itself, so `v <= v - 3` is
    # propagated once only and the search does the rest
    d = arc(doms, [c for c in cons if c[0] != c[1]])
    return [] if d is None else d


def est_nodes(doms, cons, cap):
    """Upper bound on the number of solveRecursive calls: prefix products of the domain sizes."""
    tot, prod = 0, 1
    for s in search_doms(doms, cons):
        tot += prod
        prod *= len(s)
        if tot > cap: return tot
    return tot


# ------------------------------------------------------------------------------------------------
# Generators
# ------------------------------------------------------------------------------------------------

def fmt(calls):
    return "csp" + "".join(" " + " ".join(str(x) for x in c) for c in calls)


def rand_range(r):
    k = r.random()
    if k < 0.25: return (1, 6)
    if k < 0.40: return (r.randrange(0, 4), r.randrange(4, 8))
    if k < 0.50: y = r.randrange(0, 8); return (y, y)
    if k < 0.58: return (-6, 13)
    if k < 0.70:   # window edges
        return r.choice([(LO, r.randrange(LO, LO + 5)), (r.randrange(HI - 4, HI + 1), HI), (LO, HI), (LO + 1, HI - 1),
                         (r.randrange(LO, LO + 3), r.randrange(HI - 2, HI + 1))])
    if k < 0.76:   # empty initial domain
        a = r.randrange(LO + 1, HI + 1); return (a, r.randrange(LO, a))
    a, b = r.randrange(LO, HI + 1), r.randrange(LO, HI + 1)
    return (min(a, b), max(a, b))


def rand_offs(r):
    k = r.random()
    if k < 0.55: return r.randrange(-3, 4)
    if k < 0.80: return r.randrange(-10, 11)
    if k < 0.93: return r.choice([-1, 1]) * r.randrange(20, 70)   # pushes bounds over the window edges
    return r.choice([63, -63, 64, -64, 62, -62, 1000, -1000, C_MAX, -C_MAX, 10 ** 9, -10 ** 9])


def gen_random(r, node_cap, many_cons=False):
    n = r.randrange(1, 11)
    calls = [("V", r.randrange(4)) + rand_range(r) for _ in range(n)]
    # mode: planted = built around a hidden assignment (solvable), near = planted with a few constraints pushed
    # past it (borderline, mostly decided by the search), free = independent random constraints (mostly unsolvable)
    mode = r.choice(["planted", "planted", "near", "near", "free"]) if not many_cons else r.choice(["planted", "planted", "near"])
    val = [r.randrange(c[2], c[3] + 1) if c[2] <= c[3] else None for c in calls]
    if any(v is None for v in val) and r.random() < 0.7:
        calls = [c if c[2] <= c[3] else ("V", c[1], c[3], c[2]) for c in calls]
        val = [r.randrange(c[2], c[3] + 1) for c in calls]
    if any(v is None for v in val): mode = "free"
    spoil = r.randrange(1, 3) if mode == "near" else 0

    def slack():
        k = r.random()
        return 0 if k < 0.5 else r.randrange(1, 4) if k < 0.85 else r.randrange(4, 40)

    def offs_for(op, a, b):
        if mode == "free": return rand_offs(r) if not many_cons else r.randrange(-2, 6)
        d = val[a] - val[b]
        return d + slack() if op == "L" else d - slack() if op == "G" else d

    extra = []
    for v in range(n):
        if mode == "free":
            if r.random() < 0.2: extra.append((r.choice("EO"), v))
            if r.random() < 0.2: extra.append(("m", v, r.choice([r.randrange(LO - 3, HI + 1), r.randrange(0, 8)])))
            if r.random() < 0.2: extra.append(("M", v, r.choice([r.randrange(LO - 1, HI + 4), r.randrange(0, 8)])))
        else:
            if r.random() < 0.3: extra.append(("E" if val[v] % 2 == 0 else "O", v))
            if r.random() < 0.2: extra.append(("m", v, val[v] - slack()))
            if r.random() < 0.2: extra.append(("M", v, val[v] + slack()))
    ncons = r.randrange(0, 26) if not many_cons else r.choice([60, 64, 65, 100, 128, 129, 150, 191, 192])
    made = 0
    shape = r.random()
    if shape < 0.2 and n >= 2:      # a cycle v0 <= v1 + c0, v1 <= v2 + c1, ..., vk <= v0 + ck
        k = r.randrange(2, n + 1)
        vs = r.sample(range(n), k)
        for i in range(k):
            op = "L" if r.random() < 0.7 else "G"
            a, b = vs[i], vs[(i + 1) % k]
            extra.append((op, a, b, r.randrange(-2, 3) if mode == "free" else offs_for(op, a, b))); made += 1
    elif shape < 0.3:               # chain of strict inequalities (pawns on one file)
        vs = list(range(n))
        if mode == "free": r.shuffle(vs)
        else: vs.sort(key=lambda v: (val[v], r.random()))
        for a, b in zip(vs, vs[1:]):
            extra.append(("L", a, b, -1 if mode == "free" or val[a] < val[b] else 0)); made += 1
    while made < ncons:
        op = r.choice("LLGGQ")
        a, b = r.randrange(n), r.randrange(n)
        if r.random() < 0.05: b = a   # self-loop
        if many_cons and op == "Q" and made + 2 > ncons: op = "L"
        extra.append((op, a, b, offs_for(op, a, b)))
        made += 2 if op == "Q" else 1
    if r.random() < 0.04:             # a self-loop that no value satisfies: found by one pruning pass or by the search only
        v = r.randrange(n); k = r.randrange(1, 4)
        extra.append(("L", v, v, -k) if r.random() < 0.5 else ("G", v, v, k))
    for _ in range(spoil):            # push one constraint / tightening just past the hidden assignment
        idx = [i for i, e in enumerate(extra) if e[0] in "LGmM"]
        if not idx: break
        i = r.choice(idx); e = extra[i]; k = r.randrange(1, 4)
        if e[0] == "L": extra[i] = ("L", e[1], e[2], val[e[1]] - val[e[2]] - k)
        elif e[0] == "G": extra[i] = ("G", e[1], e[2], val[e[1]] - val[e[2]] + k)
        elif e[0] == "m": extra[i] = ("m", e[1], min(HI, val[e[1]] + k))
        else: extra[i] = ("M", e[1], val[e[1]] - k)
    r.shuffle(extra)
    # a share of the tightenings/constraints is interleaved with the addVariable calls (only legal positions)
    if r.random() < 0.3:
        out, pending = [], list(extra)
        for v in range(n):
            out.append(calls[v])
            keep = []
            for e in pending:
                ok = all(x <= v for x in (e[1:2] if e[0] in "EOmM" else e[1:3]))
                if ok and r.random() < 0.5: out.append(e)
                else: keep.append(e)
            pending = keep
        calls = out + pending
    else:
        calls = calls + extra
    return shrink_to_cap(r, calls, node_cap)


def shrink_to_cap(r, calls, node_cap):
    """Keep the search tree of the real solver small (it has no node limit): tighten ranges until the bound holds."""
    for _ in range(200):
        s = interp(calls)
        if s[0] != "ok": return calls
        _, doms, cons, _ = s
        if est_nodes(doms, cons, node_cap) <= node_cap: return calls
        d = search_doms(doms, cons)
        v = max(range(len(d)), key=lambda i: len(d[i]))
        vs = sorted(d[v])
        if len(vs) <= 1: return calls
        cut = vs[r.randrange(1, len(vs))]
        calls = calls + [("m", v, cut) if r.random() < 0.5 else ("M", v, cut - 1)]
    return calls


def gen_thrash(r, node_cap):
    """Systems on which the real search has to work.  Arc consistency is complete for difference constraints (if no
    domain empties, the vector of minima is a solution), so the search only backtracks (a) behind a self-loop, which the
    work list does not re-queue on itself, (b) behind an empty initial domain that no constraint touches, (c) when the
    value preferences steer it away from the minima / maxima (alternating SMALL / LARGE along a chain)."""
    k = r.randrange(1, 6)
    calls, val = [], []
    for _ in range(k):
        lo = r.randrange(LO, HI - 8); hi = lo + r.randrange(1, 9)
        calls.append(("V", r.randrange(4), lo, hi)); val.append(r.randrange(lo, hi + 1))
    for _ in range(r.randrange(0, 2 * k)):
        a, b = r.randrange(k), r.randrange(k)
        if a == b: continue
        op = r.choice("LG")
        d = val[a] - val[b]
        calls.append((op, a, b, d + r.randrange(0, 4) if op == "L" else d - r.randrange(0, 4)))
    g = r.random()
    lo = r.randrange(LO, HI - 12); hi = lo + r.randrange(4, 12)
    x = k
    if g < 0.4:       # a self-loop no value satisfies, on a domain too wide for one pruning pass
        calls += [("V", r.randrange(4), lo, hi), ("L", x, x, -1) if r.random() < 0.5 else ("G", x, x, 1)]
    elif g < 0.6:     # an empty domain behind the free variables
        calls += [("V", r.randrange(4), hi, lo)] if r.random() < 0.5 else [("V", r.randrange(4), lo, hi), ("m", x, hi), ("M", x, hi - 1)]
    else:             # zig-zag: chain v0 < v1 < ... with alternating / random preferences (solvable, needs backtracking)
        m = r.randrange(3, 7)
        lo = r.randrange(LO, HI - m - 6); hi = lo + m + r.randrange(0, 5)
        calls = []
        for i in range(m):
            calls.append(("V", r.choice([i % 2, 1 - i % 2, r.randrange(4), 3 if i % 2 else 2]), lo, hi))
        order = list(range(m))
        if r.random() < 0.5: r.shuffle(order)
        for a, b in zip(order, order[1:]):
            calls.append(("L", a, b, -1) if r.random() < 0.7 else ("G", b, a, 1))
        if r.random() < 0.3: calls.append((r.choice("EO"), r.randrange(m)))
    return shrink_to_cap(r, calls, node_cap)


def gen_contract(r):
    """Call sequences that violate the contract of the building API (assert / out-of-array / int overflow)."""
    n = r.randrange(1, 5)
    calls = [("V", r.randrange(4), 1, 6) for _ in range(n)]
    bad = r.choice([
        ("V", 0, r.choice([-17, -100, INT_MIN, 48, 64]), 6), ("V", 1, 1, r.choice([48, 49, 1000, INT_MAX, -17])),
        ("E", n), ("O", n + 3), ("m", n, 3), ("M", INT_MAX, 3),
        ("m", 0, r.choice([48, 49, 100, INT_MAX])), ("M", 0, r.choice([-18, -19, -1000, INT_MIN])),
        ("M", 0, r.choice([M_MAX + 1, INT_MAX])), ("M", 0, r.choice([M_MAX, -17, 48, 10 ** 6])), ("m", 0, r.choice([47, -17, INT_MIN])),
        ("L", 0, n, 0), ("G", n, 0, 0), ("Q", n + 1, n + 1, 0),
        (r.choice("LGQ"), 0, n - 1, r.choice([C_MAX + 1, -C_MAX - 1, INT_MAX, INT_MIN])),
        (r.choice("LGQ"), 0, n - 1, r.choice([C_MAX, -C_MAX])),
    ])
    pos = r.randrange(n, n + 2)
    tail = [("L", r.randrange(n), r.randrange(n), r.randrange(-2, 3)) for _ in range(r.randrange(0, 4))]
    calls = calls[:pos] + [bad] + tail
    if r.random() < 0.15:   # more than 192 constraints
        two = [("V", 0, 1, 6), ("V", 1, 1, 6)]
        calls = two + ([("L", 0, 1, 1)] * r.choice([193, 200]) if r.random() < 0.5 else [("Q", 0, 1, 0)] * 97)
    return calls


SMALL, LARGE, MID_SMALL, MID_LARGE = 0, 1, 2, 3


def gen_kernel(r, node_cap):
    """Systems shaped like those ExtProofKernel::findExtKernel builds: one variable per pawn rank and move,
    monotone chains per pawn, strict order inside a file, capture equalities, bishop-colour parity, promotion
    ranks, goal-position bounds."""
    calls, pawns, cols = [], [], [[] for _ in range(8)]
    nv = [0]

    def addvar(p, lo=1, hi=6):
        calls.append(("V", p, lo, hi)); nv[0] += 1; return nv[0] - 1

    def pawn_addvar(pw, var, ineq=True):
        pw["vars"].append(var)
        if ineq and len(pw["vars"]) >= 2:
            calls.append(("G" if pw["w"] else "L", pw["vars"][-1], pw["vars"][-2], 0))

    def col_ineqs(col):
        for i in range(1, len(col)):
            calls.append(("L", pawns[col[i - 1]]["vars"][-1], pawns[col[i]]["vars"][-1], -1))

    std = r.random() < 0.6
    for x in range(8):
        if std:
            ys = [(1, True)] * (r.random() < 0.8) + [(6, False)] * (r.random() < 0.8)
        else:
            k = r.randrange(0, 4)
            yy = sorted(r.sample(range(1, 7), k))
            nw = r.randrange(0, k + 1)
            ys = [(y, i < nw) for i, y in enumerate(yy)]
        for (y, w) in ys:
            idx = len(pawns)
            pawns.append({"w": w, "vars": []})
            pawn_addvar(pawns[idx], addvar(SMALL if w else LARGE, y, y))
            cols[x].append(idx)
    for _ in range(r.randrange(0, 7)):
        xs = [x for x in range(8) if cols[x]]
        if not xs: break
        x = r.choice(xs)
        kind = r.random()
        fi = r.randrange(len(cols[x]))
        pidx = cols[x][fi]; pw = pawns[pidx]; white = pw["w"]
        if kind < 0.2:      # piece takes pawn
            yv = pw["vars"][-1]
            calls.append(("m", yv, 1)); calls.append(("M", yv, 6))
            cols[x].pop(fi)
            continue
        fromY = addvar(MID_SMALL if white else MID_LARGE)
        pawn_addvar(pw, fromY)
        col_ineqs(cols[x])
        cols[x].pop(fi)
        if kind < 0.35:     # pawn capture with promotion
            y = 6 if white else 1
            calls.append(("m", fromY, y)); calls.append(("M", fromY, y))
            continue
        tox = x + 1 if x == 0 else x - 1 if x == 7 else x + r.choice([-1, 1])
        toY = addvar(SMALL if white else LARGE)
        pawn_addvar(pw, toY, False)
        calls.append(("Q", toY, fromY, 1 if white else -1))
        for qi in cols[tox]:     # movePawns
            q = pawns[qi]
            pawn_addvar(q, addvar(SMALL if q["w"] else LARGE, -6, 13))
        if cols[tox] and r.random() < 0.5:   # pawn takes pawn
            ti = r.randrange(len(cols[tox]))
            calls.append(("Q", pawns[cols[tox][ti]]["vars"][-1], toY, 0))
            cols[tox][ti] = pidx
        else:                                # pawn takes piece
            cols[tox].insert(r.randrange(len(cols[tox]) + 1), pidx)
            if r.random() < 0.4: calls.append((r.choice("EO"), toY))
        col_ineqs(cols[tox])
    for x in range(8):
        for pi in cols[x]:
            if r.random() < 0.5:
                calls.append(("M" if pawns[pi]["w"] else "m", pawns[pi]["vars"][-1], r.randrange(1, 7)))
    return shrink_to_cap(r, calls, node_cap)


def pref_variants(r, calls):
    """The same system under different preference assignments (satisfiability must not depend on them)."""
    out = []
    for mode in (0, 1, 2, 3, "rnd", "rnd"):
        out.append([(c[0], (r.randrange(4) if mode == "rnd" else mode)) + tuple(c[2:]) if c[0] == "V" else c for c in calls])
    return out


# ------------------------------------------------------------------------------------------------
# bit-set primitives: boundary grid and independent oracle on Python sets
# ------------------------------------------------------------------------------------------------

def word_of(s): return sum(1 << (v - LO) for v in s)
def set_of(w): return {i + LO for i in range(64) if (w >> i) & 1}


def bs_expected(op, w, args):
    s = set_of(w)
    inwin = lambda v: LO <= v <= HI
    if op == "setrange":
        lo, hi = args
        if hi > M_MAX or lo > HI or hi < LO - 1: return "err"
        return hex(word_of({v for v in range(LO, HI + 1) if lo <= v <= hi}))
    if op == "odd": return hex(word_of({v for v in s if v % 2 == 0}))     # removeOdd keeps the even values
    if op == "even": return hex(word_of({v for v in s if v % 2 == 1}))
    if op == "smaller": return "err" if args[0] > HI else hex(word_of({v for v in s if v >= args[0]}))
    if op == "larger": return "err" if args[0] > M_MAX or args[0] < LO - 1 else hex(word_of({v for v in s if v <= args[0]}))
    if op == "min": return str(min(s)) if s else "-1"
    if op == "max": return str(max(s)) if s else "-1"
    if op == "empty": return "1" if not s else "0"
    if op == "count": return str(len(s))
    if op == "get": return ("1" if args[0] in s else "0") if inwin(args[0]) else "err"
    if op == "set": return hex(word_of(s | {args[0]})) if inwin(args[0]) else "err"
    if op == "clear": return hex(word_of(s - {args[0]})) if inwin(args[0]) else "err"
    if op in ("pick", "order"):
        p = args[0]
        def pick(s):
            if not s: return -1
            if p == 0: return min(s)
            if p == 1: return max(s)
            if p == 2:
                for b in (3, 2, 1):
                    if b in s: return b
                return min(s)
            for b in (4, 5, 6):
                if b in s: return b
            return max(s)
        if op == "pick": return str(pick(s))
        out, s = "", set(s)
        while s:
            v = pick(s); s.discard(v); out += f" {v}"
        return out
    return None


def gen_bitset(r, quick):
    words = {0, (1 << 64) - 1, 0x5555555555555555, 0xAAAAAAAAAAAAAAAA, 1, 1 << 63, (1 << 63) | 1, 0xFFFF, 0xFFFF << 48,
             word_of(range(1, 7)), word_of(range(0, 8)), word_of({1, 2, 3}), word_of({4, 5, 6}), word_of({-1}), word_of({-1, 0}),
             word_of({3}), word_of({4}), word_of({0, 7})}
    words |= {1 << i for i in range(64)}
    words |= {(1 << i) | (1 << j) for i in (0, 1, 15, 16, 17, 31, 32, 33, 62, 63) for j in (0, 1, 19, 20, 22, 47, 62, 63)}
    words |= {r.getrandbits(64) for _ in range(40 if quick else 400)}
    words |= {r.getrandbits(64) & r.getrandbits(64) & r.getrandbits(64) for _ in range(40 if quick else 400)}
    words = sorted(words)
    grid = list(range(LO - 4, HI + 6))
    extremes = [INT_MIN, INT_MIN + 1, -C_MAX, -1000, -64, -33, 63, 64, 100, 1000, M_MAX - 1, M_MAX, M_MAX + 1, INT_MAX - 1, INT_MAX]
    lines, meta = [], []

    def add(op, w, *args):
        lines.append(f"bs {op} {hex(w)}" + "".join(f" {a}" for a in args)); meta.append((op, w, args))
    for w in words:
        for op in ("odd", "even", "min", "max", "empty", "count"): add(op, w)
        for p in range(4): add("pick", w, p); add("order", w, p)
        for a in grid + extremes:
            for op in ("smaller", "larger", "get", "set", "clear"):
                if quick and a in extremes and r.random() < 0.5: continue
                add(op, w, a)
    for lo in grid + extremes:
        for hi in grid + extremes:
            add("setrange", 0, lo, hi)
    return lines, meta


# ------------------------------------------------------------------------------------------------
# Evaluation
# ------------------------------------------------------------------------------------------------

def h64(s):
    return int.from_bytes(hashlib.blake2b(s.encode(), digest_size=8).digest(), "big")


def parse_reply(o):
    """-> dict(kind=sat|unsat-arc|unsat-search|err|other, nodes, vals, doms)"""
    t = o.split()
    try:
        if t[:2] == ["unsat", "arc"] and len(t) == 2: return {"kind": "unsat-arc"}
        if t and t[0] == "err": return {"kind": "err", "what": t[1:]}
        if t[:2] == ["unsat", "search"]:
            k = t.index(";")
            return {"kind": "unsat-search", "nodes": int(t[2]), "doms": [set_of(int(x, 16)) for x in t[k + 1:]]}
        if t and t[0] == "sat":
            k = t.index(";")
            return {"kind": "sat", "nodes": int(t[1]), "vals": [int(x) for x in t[2:k]], "doms": [set_of(int(x, 16)) for x in t[k + 1:]]}
    except (ValueError, IndexError):
        pass
    return {"kind": "other"}


def check_system(calls, o, brute_limit):
    """The property's predicate on the implementation's reply `o` for the call sequence `calls`.
    Returns (list of failure messages, nontrivial?)."""
    s = interp(calls)
    rep = parse_reply(o)
    bad = []
    if s[0] == "err":
        if rep["kind"] != "err":
            bad.append(f"call {s[2]} violates the API contract ({s[1]}) but the harness went on and replied `{o[:60]}`")
        return bad, False
    _, doms, cons, prefs = s
    n = len(doms)
    if n > 0 and len(cons) > MAXCONS:
        if rep["kind"] != "err": bad.append(f"{len(cons)} constraints (> {MAXCONS}) but reply `{o[:60]}`")
        return bad, False
    if rep["kind"] in ("err", "other"):
        bad.append(f"system inside the supported limits, reply `{o[:80]}`")
        return bad, False
    w = oracle(doms, cons)
    occ = brute(doms, cons, brute_limit)
    if occ is not None and (w is not None) != all(occ):
        raise AssertionError(f"the two oracles disagree on {fmt(calls)}")
    if rep["kind"] == "sat":
        vals = rep["vals"]
        if len(vals) != n:
            bad.append(f"solvable, but {len(vals)} values returned for {n} variables")
        else:
            for v in range(n):
                if vals[v] not in doms[v]:
                    bad.append(f"returned assignment {vals}: value {vals[v]} of variable {v} is outside its domain"); break
            for (x, y, c) in cons:
                if vals[x] > vals[y] + c:
                    bad.append(f"returned assignment {vals} violates v{x} <= v{y} + {c}"); break
        if w is None and not bad:
            bad.append("solver says solvable, exhaustive oracle finds no assignment (and the returned one passed?!)")
    else:
        if w is not None:
            bad.append(f"solver says unsolvable, but the assignment {w} satisfies every domain and constraint")
    if "doms" in rep and n > 0:
        ad = rep["doms"]
        if len(ad) != n: bad.append("wrong number of domains after arc consistency")
        else:
            for v in range(n):
                if not ad[v] <= doms[v]:
                    bad.append(f"arc consistency added values {sorted(ad[v] - doms[v])} to variable {v}"); break
            sols = occ if occ is not None else None
            if sols is None and w is not None:
                d = arc(doms, cons)
                sols = [{min(x), max(x)} for x in d]      # vectors of minima and of maxima are both solutions
            if sols is not None and all(sols):
                for v in range(n):
                    if not sols[v] <= ad[v]:
                        bad.append(f"arc consistency removed value(s) {sorted(sols[v] - ad[v])} of variable {v} that occur in a solution"); break
    nontrivial = len(cons) > 0
    return bad, nontrivial


def worker(job):
    """One chunk: generate, run both sides, evaluate.  Runs in a pool process."""
    seed, kind, count, node_cap, brute_limit, variant, bins = job
    r = random.Random(seed)
    systems, groups = [], []
    while len(systems) < count:
        if kind == "random": c = gen_random(r, node_cap)
        elif kind == "manycons": c = gen_random(r, node_cap, many_cons=True)
        elif kind == "kernel": c = gen_kernel(r, node_cap)
        elif kind == "thrash": c = gen_thrash(r, node_cap)
        elif kind == "contract": c = gen_contract(r) if len(systems) % 50 else []     # [] = solve() on a solver without variables
        elif kind == "prefs":
            base = gen_random(r, node_cap) if r.random() < 0.6 else gen_kernel(r, node_cap)
            vs = pref_variants(r, base)
            groups.append((len(systems), len(systems) + len(vs)))
            systems += vs
            continue
        systems.append(c)
    lines = [fmt(c) for c in systems]
    if kind == "contract":
        lines += ["csp V", "csp V 0 1", "csp X 1", "csp V 4 1 6", "csp V 0 1 6 E", "csp V 0 1 6 E -1", "csp V 0 1 6 L 0 0",
                  "csp V 0 1 6 L 0 0 1.5", "csp V 0 1 6 m 0 99999999999", "csp V 0 1 6 m 0 2147483648", "csp V 0 0x1 6",
                  "csp V 0 1 6 L 0 0 +1", "csp V 0 1 6 L 0 0 1_0", "csp v 0 1 6", "bs", "bs min", "bs min 12", "bs frob 0x1",
                  "bs get 0x1", "bs get 0x1 1 2", "bs pick 0x1 4", "bs pick 0x1 -1", "bs min 0x10000000000000000"]
        systems += [None] * (len(lines) - len(systems))
    res = {"kind": kind, "n": len(lines), "viol": [], "hist": {}, "distinct": set(), "sample": None, "nodes": 0}
    budget = 60 + count * max(node_cap, 100) // 20000      # generous: the generators bound every search tree by node_cap
    for which, b in (("implementation", bins[0]), ("model", bins[1])):
        try:
            r = vlib.run_lines(b, lines, timeout=budget)
        except subprocess.TimeoutExpired:
            # find one line that does not come back (each correct search tree has at most node_cap nodes)
            slow, t0 = None, time.time()
            for l in lines:
                if time.time() - t0 > 120: break
                try: vlib.run_lines(b, [l], timeout=10)
                except subprocess.TimeoutExpired: slow = l; break
            res["viol"].append(("timeout", f"the {which} does not answer within 10 s on a system whose search tree is bounded by {node_cap} nodes "
                                f"when arc consistency and search are as modelled", [slow] if slow else lines[:3], "", True))
            return res
        if which == "implementation": rc1, out1, err1 = r
        else: rc2, out2, err2 = r
    if rc1 != 0 or len(out1) != len(lines):
        k = min(len(out1), len(lines) - 1)
        res["viol"].append(("impl-crash", f"implementation harness died (rc={rc1}) after {len(out1)} of {len(lines)} lines", [lines[k]], err1[-1500:], False))
        return res
    if rc2 != 0 or len(out2) != len(lines):
        res["viol"].append(("model-crash", f"Lean driver died (rc={rc2})", [], err2[-800:], True))
        return res
    res["sample"] = {"op": lines[0][:300], "impl": out1[0][:300]}
    for i, (c, o) in enumerate(zip(systems, out1)):
        if c is None:
            if o != "bad-op": res["viol"].append(("malformed", f"malformed line accepted: `{lines[i]}` -> `{o}`", [lines[i]], o, False))
            bad = []
        else:
            try:
                bad, nt = check_system(c, o, brute_limit)
            except AssertionError as e:      # the Python oracles contradict themselves: a bug of the check, not of the solver
                res["viol"].append(("oracle", f"internal: {e}", [lines[i]], o, True)); bad, nt = [], False
            if nt: res["distinct"].add(h64(lines[i]))
            rep = parse_reply(o)
            res["hist"][rep["kind"]] = res["hist"].get(rep["kind"], 0) + 1
            res["nodes"] += rep.get("nodes", 0)
        for msg in bad[:1]:
            if sum(1 for v in res["viol"] if v[0] == "property-predicate") < 5:
                res["viol"].append(("property-predicate", msg, [lines[i]], o, False))
        if o != out2[i] and not bad and sum(1 for v in res["viol"] if v[0] == "correspondence") < 3:
            res["viol"].append(("correspondence", f"model and implementation disagree: impl `{o[:200]}` model `{out2[i][:200]}`", [lines[i]], o, True))
    for (a, b) in groups:
        verdicts = {parse_reply(o)["kind"].split("-")[0] for o in out1[a:b]}
        if len(verdicts) > 1:
            res["viol"].append(("property-predicate", f"satisfiability depends on the value-preference order: {sorted(verdicts)}", lines[a:b], out1[a:b], False))
    return res


def run_bitset(ctx, quick):
    lines, meta = gen_bitset(ctx.rng, quick)
    out1, out2, mis = vlib.diff_lines(ctx, "bitset-primitives", lines, "plain")
    ctx.count(len(lines))
    for l, m in zip(lines, meta):
        if m[1] != 0 or m[0] == "setrange": ctx.distinct(h64(l))
    ctx.sample({"op": lines[5], "impl": out1[5] if len(out1) > 5 else None})
    if len(out1) != len(lines): return
    nbad = 0
    for l, (op, w, args), o in zip(lines, meta, out1):
        e = bs_expected(op, w, args)
        if e is not None and e != o:
            nbad += 1
            if nbad <= 3:
                ctx.violation(f"BitSet<64,-16> `{l}` gave `{o}`, the set-level specification gives `{e}`",
                              {"kind": "property-predicate", "tie": "bitset-primitives", "input": [l], "impl_output": o, "expected": e})
    if mis is not None and nbad == 0:
        ctx.violation(f"bitset-primitives: model and implementation disagree on `{lines[mis]}`: impl `{out1[mis]}` model `{out2[mis]}`",
                      {"kind": "correspondence", "tie": "bitset-primitives", "theorem_scope": "Props/C20.lean bitset_ops_spec (model no longer corresponds to bitSet.hpp)",
                       "input": [lines[mis]], "impl": out1[mis], "model": out2[mis]}, no_input=True)
    ctx.tie("bitset-primitives", exhaustive_args=f"every argument in [{LO - 4},{HI + 5}] + int extremes, {len(set(m[1] for m in meta))} words incl. every single bit")


def run(ctx):
    quick = ctx.tier == "quick"
    bdir = vlib.cxx_build("plain", ("vharness",))
    bins = (os.path.join(bdir, "vharness"), vlib.driver_bin())
    if ctx.replay:
        rp = ctx.replay["replay"]
        lines = rp.get("input", [])
        vlib.lake_build(["driver"])
        out1, out2, mis = vlib.diff_lines(ctx, "replay", lines)
        failed = mis is not None
        for l, a, b in zip(lines, out1, out2):
            print(f"{l}\n   impl : {a}\n   model: {b}")
            if l.startswith("csp"):
                calls = parse_line(l)
                if calls is not None:
                    bad, _ = check_system(calls, a, 200000)
                    for m in bad: print("   PREDICATE FAILS:", m); failed = True
            elif l.startswith("bs"):
                t = l.split()
                try:
                    e = bs_expected(t[1], int(t[2], 16), tuple(int(x) for x in t[3:]))
                    if e is not None and e != a: print("   PREDICATE FAILS: specification gives", e); failed = True
                except (ValueError, IndexError): pass
        if len(lines) > 1 and all(l.startswith("csp") for l in lines):
            vs = {parse_reply(o)["kind"].split("-")[0] for o in out1}
            if len(vs) > 1: print("   PREDICATE FAILS: verdict depends on the preference order", vs); failed = True
        ctx.count(len(lines)); ctx.distinct("replay"); ctx.distinct("replay2")
        if failed: ctx.violation("replay still fails", rp, no_input=bool(ctx.replay.get("no_failing_input_found")))
        return
    vlib.lean_obligations(ctx)
    ctx.cov["rule"] = ("one line = one whole CspSolver life (building calls + solve). random: 1..10 variables, ranges inside [-16,47] (rank-like, window-edge, empty, "
                       "fixed), parity, min/max tightenings, 0..25 constraints LE/GE/EQ with small / window-crossing / huge offsets, cycles, chains, self-loops, "
                       "interleaved call order; thrash: self-loops / empty domains behind free variables and zig-zag preference chains (the search must backtrack); manycons: 60..192 constraints; kernel: systems shaped like ExtProofKernel::findExtKernel; prefs: the same system under "
                       "6 preference assignments; contract: calls outside the API contract and malformed lines; bitset: BitSet<64,-16> primitives on a boundary grid. "
                       "distinct_nontrivial = distinct lines among: systems inside the limits with at least one constraint; bit-set operations on a non-empty set")
    ctx.assumptions += ["int is 32 bits (offset limit cMax = 2^31-48 keeps every int expression of the solver in range; proved for the model: Props.C20.no_int_overflow)",
                        "the work list BitSet<192> is modelled as a list of booleans (tied by the differential incl. 60..192-constraint systems, not by proof)",
                        "the harness pre-checks (assert / array-index / overflow conditions) are read off the C++ by hand; the harness reads private members via #define private public",
                        "BitUtil::firstBit/lastBit/bitCount are tied to the model's lowest/highest/card by the exhaustive single-bit + boundary differential only"]
    run_bitset(ctx, quick)
    if quick:
        plan = [("random", 50, 400, 1500), ("thrash", 4, 100, 3000), ("kernel", 8, 300, 1500), ("prefs", 8, 50, 1000), ("manycons", 3, 150, 800), ("contract", 2, 300, 0)]
        brute_limit, procs = 3000, 4
    else:
        plan = [("random", 480, 2500, 20000), ("thrash", 48, 500, 30000), ("kernel", 120, 1500, 20000), ("prefs", 60, 300, 5000), ("manycons", 24, 500, 5000), ("contract", 12, 1500, 0)]
        brute_limit, procs = 30000, 12
    jobs = []
    for kind, chunks, count, cap in plan:
        for _ in range(chunks):
            jobs.append((ctx.rng.getrandbits(60), kind, count, cap, brute_limit, "plain", bins))
    if not quick:   # a sanitizer pass over a share of the same generators
        adir = vlib.cxx_build("asan", ("vharness",))
        abins = (os.path.join(adir, "vharness"), vlib.driver_bin())
        for kind, chunks, count, cap in plan:
            for _ in range(max(1, chunks // 8)):
                jobs.append((ctx.rng.getrandbits(60), kind, count, min(cap, 3000), brute_limit, "asan", abins))
    hist, nodes, total, allviol = {}, 0, {}, []
    with Pool(procs) as pool:
        for res in pool.imap_unordered(worker, jobs):
            ctx.count(res["n"]); total[res["kind"]] = total.get(res["kind"], 0) + res["n"]
            for h in res["distinct"]: ctx.distinct(h)
            nodes += res["nodes"]
            for k, v in res["hist"].items(): hist[k] = hist.get(k, 0) + v
            if res["sample"] and total[res["kind"]] == res["n"]: ctx.sample(res["sample"])
            allviol += [(res["kind"],) + v for v in res["viol"]]
    # failing inputs (property predicate) first, then pure model/implementation disagreements
    allviol.sort(key=lambda v: (v[5], v[1] != "property-predicate"))
    for (kind, vk, msg, inp, o, no_input) in allviol[:6]:
        rp = {"kind": vk, "tie": "csp-" + kind, "input": inp, "impl_output": o}
        if vk == "correspondence":
            rp["theorem_scope"] = "Props/C20.lean solve_sound/solve_complete (the model they are about no longer corresponds to cspsolver.cpp)"
        ctx.violation(msg, rp, no_input=no_input)
    if allviol:
        hv = {}
        for v in allviol: hv[v[1]] = hv.get(v[1], 0) + 1
        ctx.log(f"violations by kind (at most 6 recorded): {hv}")
    for k, v in total.items():
        ctx.tie("csp-" + k, kind="differential (C++ harness vs compiled Lean model) + independent Python oracle on the implementation's replies", lines=v)
    ctx.tie("csp-verdicts", histogram=hist, search_nodes_total=nodes)
    ctx.log(f"systems {total} verdicts {hist} nodes {nodes}")
    if not quick:
        vlib.leanchecker(ctx, ["TexelVerif.Props.C20"])


def parse_line(l):
    t = l.split()[1:]
    calls, i = [], 0
    ar = {"V": 3, "E": 1, "O": 1, "m": 2, "M": 2, "L": 3, "G": 3, "Q": 3}
    try:
        while i < len(t):
            k = ar[t[i]]
            calls.append((t[i],) + tuple(int(x) for x in t[i + 1:i + 1 + k])); i += 1 + k
    except (KeyError, ValueError):
        return None
    return calls
