"""C08 — transposition table never returns mixed or out-of-range data.
Lean: Props/C08.lean (index range for all sizes/keys, field layout, xor validation, ply shift, TB region).
Tie: differential of the real TranspositionTable against the executable Lean model on index grids,
entry kernels and insert/probe/clear/generation histories; direct evaluation of the property's predicates on
the implementation's own outputs; multi-thread hammer as support for the relaxed-atomic abstraction."""
import os
import vlib
import xlate

TB_ENTRIES = 5 * 1024 * 1024 // 16


def gen_index_grid(ctx, quick):
    r = ctx.rng
    lines, meta = [], []
    sizes = [mb * (1 << 20) // 16 for mb in range(1, 65)]
    sizes += [s - TB_ENTRIES for s in sizes if s * 16 >= 7 * (1 << 20)]
    sizes += [512, 516, 520, 1000, 1020, 1024, 4092, 65532, 65536, 65540, 32 * 1024, (1 << 20) + 4, 3 * (1 << 18) + 8]
    sizes += [max(512, r.randrange(512, 1 << 26) & ~3) for _ in range(40 if quick else 400)]
    tops = sorted(set([0, 1, 2, 0x7fff, 0x8000, 0xfffe, 0xffff] + [r.randrange(1 << 16) for _ in range(200 if quick else 3000)]))
    lines.append("tt new 512"); meta.append(None)
    for n in sizes:
        lines.append(f"tt used {n}"); meta.append(("used", n))
        for t in tops:
            for low in (0, 3, (1 << 48) - 1, r.randrange(1 << 48)):
                key = (t << 48) | low
                lines.append(f"tt idx {hex(key)}"); meta.append(("idx", n, key))
    return lines, meta


def gen_kernels(ctx, quick):
    r = ctx.rng
    lines, meta = [], []
    fields = [(0, 16), (16, 16), (32, 9), (41, 1), (42, 4), (46, 2), (48, 16)]
    for _ in range(3000 if quick else 60000):
        d = r.getrandbits(64)
        f, s = r.choice(fields) if r.random() < 0.7 else (lambda s: (r.randrange(0, 65 - s), s))(r.randrange(1, 33))
        v = r.getrandbits(32) if r.random() < 0.5 else r.getrandbits(s)
        lines.append(f"tt setbits {hex(d)} {f} {s} {v}"); meta.append(("setbits", d, f, s, v))
        lines.append(f"tt getbits {hex(d)} {f} {s}"); meta.append(("getbits", d, f, s))
    scores = set(range(-32767, -31000)) | set(range(31000, 32768)) | set(range(-16100, -15900)) | set(range(15900, 16101)) | set(range(-50, 51))
    scores = sorted(scores) if not quick else sorted(r.sample(sorted(scores), 600)) + [-32767, -32000, -31999, -16001, -16000, 16000, 16001, 31998, 32000, 32767]
    plies = [0, 1, 2, 5, 17, 63, 100, 127] if quick else list(range(0, 128, 3)) + [127, 200, 255]
    for sc in scores:
        for p1 in plies:
            for p2 in (r.sample(plies, 3) if quick else r.sample(plies, 8)):
                lines.append(f"tt score {sc} {p1} {p2}"); meta.append(("score", sc, p1, p2))
    for _ in range(3000 if quick else 60000):
        d = r.getrandbits(64)
        if r.random() < 0.5:   # force mate-ish scores into the score field
            sc = r.choice([r.randrange(31000, 32001), -r.randrange(31000, 32001), r.randrange(-100, 100)]) & 0xffff
            d = (d & ~(0xffff << 16)) | (sc << 16)
        al = r.choice([r.randrange(-32000, 32001), r.randrange(-200, 200), 31900, -31900])
        be = al + r.choice([1, 1, 50, 1000])
        lines.append(f"tt cut {hex(d)} {al} {be} {r.randrange(0, 100)} {r.randrange(-2, 40)}"); meta.append(("cut",))
        a, b = r.getrandbits(64), r.getrandbits(64)
        if r.random() < 0.5: b = (b & ~(0x1ff << 32)) | (a & (0x1ff << 32))
        lines.append(f"tt better {hex(a)} {hex(b)} {r.randrange(16)}"); meta.append(("better",))
    return lines, meta


def gen_histories(ctx, quick):
    """insert/probe/clear/generation/contempt histories on small tables with colliding keys."""
    r = ctx.rng
    lines, meta, sessions = [], [], []
    nsess = 120 if quick else 3000
    for s in range(nsess):
        start = len(lines)
        n = r.choice([512, 516, 1024, 1000, 2048, 4096, 65536])
        lines.append(f"tt new {n}"); meta.append(("new", n))
        # key pool: few distinct top-16 values x few low patterns => buckets collide, more than 4 keys per bucket
        tops = [r.randrange(1 << 16) for _ in range(r.choice([1, 2, 4]))]
        lows = [r.getrandbits(48) & ~0x3ff | r.randrange(4) << 8 for _ in range(r.choice([2, 6, 12]))]
        pool = [(t << 48) | l for t in tops for l in lows] + [0, (1 << 64) - 1]
        nops = r.randrange(20, 200)
        for _ in range(nops):
            x = r.random()
            key = r.choice(pool)
            if x < 0.5:
                f, t = r.randrange(64), r.randrange(64)
                if r.random() < 0.15: t = f
                pr = r.choice([0, 0, 0, 2, 3, 4, 5, 8, 11])
                sc = r.choice([r.randrange(-300, 300), r.randrange(31800, 32000), -r.randrange(31800, 32000), 0])
                ty = r.choice([1, 2, 3])
                ply = r.randrange(0, 40)
                dp = r.choice([r.randrange(-3, 30), r.randrange(0, 5), 511])
                ev = r.choice([r.randrange(-2000, 2000), -32767, 0])
                busy = 1 if r.random() < 0.1 else 0
                lines.append(f"tt ins {hex(key)} {f} {t} {pr} {sc} {ty} {ply} {dp} {ev} {busy}")
                meta.append(("ins", key, f | (t << 6) | (pr << 12), sc, ty, ply, max(dp, 0), ev, busy))
            elif x < 0.58:
                # the search marks a hit as being searched (setBusy re-inserts the record at the current ply), then somebody reads it
                ply = r.randrange(0, 40)
                lines.append(f"tt busy {hex(key)} {ply}"); meta.append(("busy", key, ply))
                ply = r.randrange(0, 40)
                lines.append(f"tt probe {hex(key)} {ply}"); meta.append(("probe", key, ply))
                if r.random() < 0.3:      # a key nobody stored anything for: the probed key with one of the contempt hashes applied
                    k2 = key ^ contempt_hash(r.choice([17, -17, 50, -1]))
                    lines.append(f"tt probe {hex(k2)} 0"); meta.append(("probe", k2, 0))
            elif x < 0.85:
                ply = r.randrange(0, 40)
                lines.append(f"tt probe {hex(key)} {ply}"); meta.append(("probe", key, ply))
            elif x < 0.92:
                lines.append("tt gen"); meta.append(("gen",))
            elif x < 0.95:
                lines.append("tt clear"); meta.append(("clear",))
            elif x < 0.98:
                c = r.choice([0, 0, 17, -17, 50, -1])
                lines.append(f"tt contempt {c}"); meta.append(("contempt", c))
            else:
                lines.append(f"tt dump {r.randrange(n)}"); meta.append(("dump",))
        for key in pool[:6]:
            lines.append(f"tt probe {hex(key)} 0"); meta.append(("probe", key, 0))
        for _ in range(8):
            lines.append(f"tt dump {r.randrange(n)}"); meta.append(("dump",))
        sessions.append((start, len(lines)))
    # byte-access sessions (the on-demand tablebase's view of the table memory)
    for s in range(nsess // 4):
        start = len(lines)
        n = r.choice([512, 1024, 4096])
        lines.append(f"tt new {n}"); meta.append(("new", n))
        hot = [r.randrange(n * 16) for _ in range(6)]
        for _ in range(r.randrange(10, 80)):
            i = r.choice(hot) if r.random() < 0.6 else r.randrange(n * 16)
            if r.random() < 0.5:
                lines.append(f"tt putb {i} {r.randrange(256)}"); meta.append(("putb",))
            lines.append(f"tt getb {i}"); meta.append(("getb",))
            if r.random() < 0.2:
                lines.append(f"tt dump {i // 16}"); meta.append(("dump",))
        sessions.append((start, len(lines)))
    return lines, meta, sessions


def contempt_hash(c):
    M = (1 << 64) - 1
    if c > 0: return (0x9E3779B97DE88147 * c) & M
    if c < 0: return ~((0x9E3779B97DE88147 * (-c)) & M) & M
    return 0


def s16(x):
    x &= 0xffff
    return x - 65536 if x >= 32768 else x


def expected_shift(sc, p1, p2):
    st = sc + p1 if sc > 16000 else sc - p1 if sc < -16000 else sc
    st = s16(st)
    return st - p2 if st > 16000 else st + p2 if st < -16000 else st


def property_predicates(ctx, lines, meta, out, sessions=None):
    """Evaluate C08's own predicates on the implementation's outputs (independent of the Lean model).
    Returns list of (line index, message)."""
    bad = []
    used = None
    store = {}   # key ^ contemptHash -> list of inserted tuples since last clear (per session)
    contempt = 0
    for i, (m, o) in enumerate(zip(meta, out)):
        if m is None: continue
        k = m[0]
        if k == "used": used = m[1]
        elif k == "idx":
            try: idx = int(o)
            except ValueError: bad.append((i, f"non-numeric index {o!r}")); continue
            if idx % 4 != 0 or idx + 3 >= m[1]:
                bad.append((i, f"bucket index {idx} for size {m[1]} key {hex(m[2])} is misaligned or out of range"))
        elif k == "score":
            exp = expected_shift(m[1], m[2], m[3])
            if o != str(exp):
                bad.append((i, f"score {m[1]} stored at ply {m[2]} read at ply {m[3]} gave {o}, exact shift is {exp}"))
        elif k == "new":
            store = {}; contempt = 0
        elif k == "clear":
            store = {}
        elif k == "contempt":
            contempt = m[1]
        elif k == "ins":
            store.setdefault(m[1] ^ contempt_hash(contempt), []).append(m)
        elif k == "probe" and o.startswith("hit"):
            p = o.split()
            hkey, move, depth, ty, ev = int(p[1], 16), int(p[3]), int(p[5]), int(p[6]), int(p[7])
            if hkey != m[1]:
                bad.append((i, f"probe for {hex(m[1])} returned a record for key {hex(hkey)}")); continue
            cands = store.get(m[1] ^ contempt_hash(contempt), [])
            if not any(c[6] & 0x1ff == depth and c[4] == ty and s16(c[7]) == ev for c in cands):
                bad.append((i, f"probe for {hex(m[1])} returned depth/type/eval ({depth},{ty},{ev}) that no single insert for this key stored"))
    return bad


def run_block(ctx, name, lines, meta, sessions=None):
    out1, out2, mis = vlib.diff_lines(ctx, name, lines, "plain", sessions=sessions)
    ctx.count(len(lines))
    for l, o in list(zip(lines, out1))[:2]:
        ctx.sample({"op": l, "impl": o})
    for l in lines: ctx.distinct(l)
    if len(out1) == len(lines):
        bad = property_predicates(ctx, lines, meta, out1)
        for i, msg in bad[:3]:
            ctx.violation(msg, {"kind": "property-predicate", "tie": name, "input": vlib.session_of(lines, sessions, i), "impl_output": out1[i]})
        if mis is not None and not bad:
            ctx.violation(f"{name}: model and implementation disagree on `{lines[mis]}`: impl `{out1[mis]}` model `{out2[mis]}`",
                          {"kind": "correspondence", "tie": name, "theorem_scope": "Props/C08.lean (model no longer corresponds to the code)",
                           "input": vlib.session_of(lines, sessions, mis), "impl": out1[mis], "model": out2[mis]}, no_input=True)


HAMMER_CPP_NOTE = "tthammer: N threads insert self-validating records for few keys into few buckets and probe; every hit is checked against the records stored for that key"


def run(ctx):
    quick = ctx.tier == "quick"
    if ctx.replay:
        rp = ctx.replay["replay"]
        lines = rp.get("input", [])
        ok, _ = vlib.lake_build(["driver"])
        out1, out2, mis = vlib.diff_lines(ctx, "replay", lines)
        for l, a, b in zip(lines, out1, out2):
            print(f"{l}\n   impl : {a}\n   model: {b}")
        ctx.count(len(lines)); ctx.distinct("replay"); ctx.distinct("replay2")
        if mis is not None:
            ctx.violation("replay still disagrees", rp, no_input=False)
        return
    vlib.lean_obligations(ctx)
    # translator tie: the TT kernels are regenerated from the current C++ source and proved equal to the hand models
    # (Bridge/TT.lean); a broken tie is reported after the differential had its chance to find a failing input
    xr = xlate.regenerate(ctx, ["TT"])
    ctx.cov["rule"] = ("index grid: every Hash size 1..64 MB, the reduced sizes while a tablebase is resident, odd sizes >= 512, x top-16 key values x low-bit patterns; "
                       "entry kernels: random and boundary field writes/reads, score x ply x ply, cut-off and replacement predicates; "
                       "histories: insert/probe/generation/clear/contempt/byte access on small tables with colliding key pools; distinct = distinct operation lines")
    ctx.assumptions += ["no 64-bit key / xor coincidences (explicit hypothesis of hit_was_stored)",
                        "relaxed std::atomic modelled as: a load returns some value previously written to that word",
                        "the harness reads private members of TranspositionTable via #define private public"]
    lines, meta = gen_index_grid(ctx, quick)
    run_block(ctx, "index-grid", lines, meta)
    lines, meta = gen_kernels(ctx, quick)
    run_block(ctx, "entry-kernels", lines, meta)
    lines, meta, sessions = gen_histories(ctx, quick)
    # corpus session first: the repaired setBusy defect (with a non-zero contempt the pinned code stored the record a second
    # time under key ^ contemptHash, so a probe for a key nobody stored anything for hit)
    K = 0x1234567800000100
    k2 = K ^ contempt_hash(17)
    pre = [("tt new 65536", ("new", 65536)), ("tt contempt 17", ("contempt", 17)),
           (f"tt ins {hex(K)} 12 28 0 55 1 0 9 33 0", ("ins", K, 12 | (28 << 6), 55, 1, 0, 9, 33, 0)),
           (f"tt probe {hex(k2)} 0", ("probe", k2, 0)), (f"tt busy {hex(K)} 3", ("busy", K, 3)),
           (f"tt probe {hex(k2)} 0", ("probe", k2, 0)), (f"tt probe {hex(K)} 0", ("probe", K, 0))]
    sessions = [(0, len(pre))] + [(a + len(pre), b + len(pre)) for a, b in sessions]
    lines = [l for l, _ in pre] + lines
    meta = [m for _, m in pre] + meta
    run_block(ctx, "table-histories", lines, meta, sessions)
    # multi-thread hammer (support for the memory-model abstraction; implementation only)
    for variant in (["plain"] if quick else ["plain", "asan", "tsan"]):
        bdir = vlib.cxx_build(variant, ("vharness",))
        secs = 2 if quick else 20
        hl = [f"tthammer {t} {secs * 1000 // (3 if quick else 4)} {ctx.seed + t}" for t in ((2, 8, 16) if quick else (2, 4, 8, 16))]
        rc, out, err = vlib.run_lines(os.path.join(bdir, "vharness"), hl)
        ctx.tie("hammer-" + variant, kind=HAMMER_CPP_NOTE, runs=len(hl), outputs=out)
        ctx.count(len(hl))
        for l, o in zip(hl, out):
            if not o.startswith("ok"):
                ctx.violation(f"multi-thread hammer ({variant}) saw a probe hit that was not stored as one unit: {o}",
                              {"kind": "hammer", "variant": variant, "input": [l], "impl_output": o})
        if rc != 0 or len(out) != len(hl):
            ctx.violation(f"hammer harness died on {variant} (rc={rc})", {"kind": "impl-crash", "variant": variant, "stderr": err, "input": hl})
    xlate.report(ctx, xr)
    if not quick:
        vlib.leanchecker(ctx, ["TexelVerif.Props.C08"] + (["TexelVerif.Bridge.TT"] if xr.ok else []))
