"""C16 — reachable positions are never declared illegal; proof games are valid.

Lean (Props/C16.lean): the two count rules (`validatePieceCounts`, `enoughRemainingPieces`) hold along every legal game,
the capture/ply arithmetic at the end of `distLowerBound` is admissible, the proof-game certificate checker is sound.
Tie:  (a) kernels: differential of the real C++ (`ProofGame::validatePieceCounts`, `enoughRemainingPieces`, the tail of
          `distLowerBound` driven through the TEXEL_VERIF hook) against the compiled Lean definitions + an independent
          re-statement of each rule in this file; textual identity of revmovegen.cpp's copy of the count rule;
      (b) monitors on random legal games from the initial position (every game is re-played by the Lean specification,
          which also supplies the positions): `texelutil proofgame -f` and `-f -o` on final and prefix positions — never
          `illegal:`; every `proof:` game must pass the proven Lean checker; `ProofGame` API on (prefix, final) pairs —
          bounds never exceed the remaining length of the game, no stage reports "unreachable";
      (c) distribution of promotions / castling / en-passant in the generated games is measured and must be non-trivial.
The geometric pruning rules have no theorem (see `soundness_partial`); for them this check is a monitor only."""
import os, re, json, queue, subprocess, tempfile, threading, time, shutil
from concurrent.futures import ThreadPoolExecutor
import vlib

START = "rnbqkbnr/pppppppp/8/8/8/8/PPPPPPPP/RNBQKBNR w KQkq - 0 1"
JOBS = max(1, int(os.environ.get("VERIF_JOBS", min(16, vlib.NCPU))))
MIN_MEN = 26
CODES = "KQRBNPkqrbnp"          # piece code 1..12

# -----------------------------------------------------------------------------------------------
# independent statement of the three arithmetic rules (python ints; the C++ text is proofgame.cpp:276-299, 599-632, 580-597)
# -----------------------------------------------------------------------------------------------

def rule_counts(c):
    """c[0..11] = K Q R B N P k q r b n p"""
    def side(o):
        q, r, b, n, p = c[o + 1], c[o + 2], c[o + 3], c[o + 4], c[o + 5]
        return p + max(0, n - 2) + max(0, b - 2) + max(0, r - 2) + max(0, q - 1) <= 8
    return "ok" if side(0) and side(6) else ("white" if not side(0) else "black")


def rule_enough(c, g):
    def side(o):
        spare = c[o + 5] - g[o + 5]
        if spare < 0: return False
        return spare - sum(max(0, g[o + i] - c[o + i]) for i in (1, 2, 3, 4)) >= 0
    return "1" if side(0) and side(6) else "0"


def rule_plies(nm0, nm1, nB, nW, posW, goalW):
    w = 2 * max(nm0, nB) + (0 if posW else 1) - (0 if goalW else 1)
    b = 2 * max(nm1, nW) + (1 if posW else 0) - (1 if goalW else 0)
    return max(w, b)


def fen_men(fen):
    pl = fen.split()[0]
    return sum(ch.isupper() for ch in pl), sum(ch.islower() for ch in pl)


def fen_counts(fen):
    pl = fen.split()[0]
    return [pl.count(ch) for ch in CODES]

# -----------------------------------------------------------------------------------------------
# generators for the kernel differential
# -----------------------------------------------------------------------------------------------

def gen_count_tuple(r):
    def side():
        mode = r.random()
        if mode < 0.35:      # realistic: subset of the initial army plus promotions
            p = r.randrange(0, 9); q = r.randrange(0, 2); ro = r.randrange(0, 3); b = r.randrange(0, 3); n = r.randrange(0, 3)
            for _ in range(r.choice([0, 0, 1, 2, 3, 8])):
                if p > 0 and r.random() < 0.8: p -= 1
                k = r.randrange(4)
                q, ro, b, n = q + (k == 0), ro + (k == 1), b + (k == 2), n + (k == 3)
        elif mode < 0.8:     # on / next to the boundary  p = maxPawns
            q = r.choice([0, 1, 2, 3, 9]); ro = r.choice([0, 1, 2, 3, 4]); b = r.choice([0, 1, 2, 3, 4]); n = r.choice([0, 1, 2, 3, 4, 10])
            mp = 8 - max(0, n - 2) - max(0, b - 2) - max(0, ro - 2) - max(0, q - 1)
            p = max(0, mp + r.choice([-1, 0, 0, 1, 1, 2]))
        else:
            q, ro, b, n, p = (r.randrange(0, 11) for _ in range(5))
        return [r.choice([1, 1, 1, 0, 2]), q, ro, b, n, p]
    while True:
        c = side() + side()
        if sum(c) <= 64: return c


def gen_enough_tuple(r):
    c = gen_count_tuple(r)
    mode = r.random()
    if mode < 0.5:           # goal = current after some captures / promotions (reachable-looking), then perturbed
        g = list(c)
        for _ in range(r.randrange(0, 6)):
            o = r.choice([0, 6]); x = r.random()
            if x < 0.5 and g[o + 5] > 0:
                g[o + 5] -= 1
                if r.random() < 0.7: g[o + r.choice([1, 2, 3, 4])] += 1
            elif x < 0.9:
                i = o + r.choice([1, 2, 3, 4, 5])
                if g[i] > 0: g[i] -= 1
        if r.random() < 0.5:
            i = r.randrange(12); g[i] = max(0, g[i] + r.choice([-1, 1]))
    elif mode < 0.9:
        g = gen_count_tuple(r)
    else:                    # out of the chess range (the kernel is plain int arithmetic)
        g = [r.choice([0, 1, -1, 7, 1000000, -1000000, r.randrange(-50, 50)]) for _ in range(12)]
        if r.random() < 0.5: c = [r.choice([0, 2, -3, 999999, r.randrange(-50, 50)]) for _ in range(12)]
    return c, g


def gen_ply_tuples(r, n):
    out = []
    for _ in range(n):
        m = r.random()
        if m < 0.5: a, b = r.randrange(0, 12), r.randrange(0, 12)
        elif m < 0.8: a, b = r.randrange(0, 80), r.randrange(0, 80)
        elif m < 0.9: a, b = r.choice([0, -1, -7, 1]), r.choice([0, -1, 3, -50])
        else: a, b = r.choice([0, 499999999, 12345678, 500000000]), r.choice([0, 500000000, 1, 77777])
        out.append((a, b))
    return out

# -----------------------------------------------------------------------------------------------
# process helpers
# -----------------------------------------------------------------------------------------------

class LineProc:
    """persistent line-protocol process with a per-line timeout (a stuck operation is killed and reported)"""

    def __init__(self, binary):
        self.binary, self.p = binary, None

    def _start(self):
        self.p = subprocess.Popen([self.binary], stdin=subprocess.PIPE, stdout=subprocess.PIPE, stderr=subprocess.DEVNULL, text=True, bufsize=1)
        self.q = queue.Queue()
        def rd(p, q):
            for l in p.stdout: q.put(l.rstrip("\n"))
            q.put(None)
        threading.Thread(target=rd, args=(self.p, self.q), daemon=True).start()

    def ask(self, line, timeout):
        if self.p is None: self._start()
        try:
            self.p.stdin.write(line + "\n"); self.p.stdin.flush()
            o = self.q.get(timeout=timeout)
        except (queue.Empty, BrokenPipeError):
            o = "TIMEOUT"
            self.close(kill=True)
            return o
        if o is None:
            rc = self.p.wait(); self.p = None
            return f"CRASH rc={rc}"
        return o

    def close(self, kill=False):
        if self.p is not None:
            try:
                if kill: self.p.kill()
                else: self.p.stdin.close()
                self.p.wait(timeout=10)
            except Exception:
                pass
            self.p = None


def pool_lines(binary, lines, timeout, jobs):
    """run `lines` through `jobs` persistent processes; returns outputs in order"""
    out = [None] * len(lines)
    nxt = [0]
    lock = threading.Lock()
    def work(_):
        lp = LineProc(binary)
        while True:
            with lock:
                i = nxt[0]; nxt[0] += 1
            if i >= len(lines): break
            out[i] = lp.ask(lines[i], timeout)
        lp.close()
    with ThreadPoolExecutor(jobs) as ex: list(ex.map(work, range(jobs)))
    return out


def run_chunks(binary, lines, jobs, chunk=40):
    """plain batch runs (no per-line timeout), order preserved"""
    chunks = [lines[i:i + chunk] for i in range(0, len(lines), chunk)]
    def work(ch):
        rc, out, err = vlib.run_lines(binary, ch)
        if rc != 0 or len(out) != len(ch):
            out = out + [f"CRASH rc={rc}"] * (len(ch) - len(out))
        return out
    with ThreadPoolExecutor(jobs) as ex: res = list(ex.map(work, chunks))
    return [o for r in res for o in r]


def texelutil_filter(tu, fens, jobs, per_pos_timeout, chunk=6):
    """`texelutil -j 1 proofgame -f` on chunks; returns {fen: output line or None (not answered in time)}"""
    chunks = [fens[i:i + chunk] for i in range(0, len(fens), chunk)]
    def work(ch):
        p = subprocess.Popen([tu, "-j", "1", "proofgame", "-f"], stdin=subprocess.PIPE, stdout=subprocess.PIPE, stderr=subprocess.DEVNULL, text=True)
        try:
            o, _ = p.communicate("\n".join(ch) + "\n", timeout=per_pos_timeout * len(ch))
        except subprocess.TimeoutExpired:
            p.kill(); o, _ = p.communicate()
        return o.split("\n")
    with ThreadPoolExecutor(jobs) as ex: res = list(ex.map(work, chunks))
    ans = {f: None for f in fens}
    for r in res:
        for l in r:
            t = l.split()
            if len(t) >= 7 and " ".join(t[:6]) in ans and t[6].endswith(":"):
                ans[" ".join(t[:6])] = l
    return ans


def texelutil_iterated(tu, fens, jobs, budget_s, total_s, chunk=3):
    """`texelutil -j 1 proofgame -f -o` (kernel -> path -> proof game iterations) with a wall-clock budget per chunk and
    for the whole phase; returns {fen: [status line of every iteration that was written]}"""
    chunks = [fens[i:i + chunk] for i in range(0, len(fens), chunk)]
    deadline = time.time() + total_s
    def work(ch):
        left = deadline - time.time()
        if left < 5: return [], False
        d = tempfile.mkdtemp(prefix="c16it_")
        try:
            p = subprocess.Popen([tu, "-j", "1", "proofgame", "-f", "-o", os.path.join(d, "out")], stdin=subprocess.PIPE,
                                 stdout=subprocess.DEVNULL, stderr=subprocess.DEVNULL, text=True)
            try:
                p.communicate("\n".join(ch) + "\n", timeout=min(budget_s, left))
                finished = True
            except subprocess.TimeoutExpired:
                p.kill(); p.communicate(); finished = False
            lines = []
            for fn in sorted(os.listdir(d)):
                with open(os.path.join(d, fn)) as f:
                    lines += [l.rstrip("\n") for l in f if l.endswith("\n")]
            return lines, finished
        finally:
            shutil.rmtree(d, ignore_errors=True)
    with ThreadPoolExecutor(jobs) as ex: res = list(ex.map(work, chunks))
    ans = {f: [] for f in fens}
    nfin = 0
    for lines, fin in res:
        nfin += fin
        for l in lines:
            t = l.split()
            if len(t) >= 7 and " ".join(t[:6]) in ans:
                ans[" ".join(t[:6])].append(l)
    return ans, nfin, len(chunks)


def parse_filter_line(l):
    """-> (status, {token: [data]})"""
    t = l.split()[6:]
    d, cur = {}, None
    for x in t:
        if x.endswith(":") and x[:-1] in ("illegal", "unknown", "legal", "forced", "kernel", "extKernel", "path", "status", "fail", "info", "proof"):
            cur = x[:-1]; d[cur] = []
        elif cur is not None:
            d[cur].append(x)
    st = "illegal" if "illegal" in d else "legal" if "legal" in d else "unknown" if "unknown" in d else "?"
    return st, d

# -----------------------------------------------------------------------------------------------
# the check
# -----------------------------------------------------------------------------------------------

class Game:
    __slots__ = ("seed", "style", "moves", "cfen", "fens", "stats", "want")


def make_games(ctx, harness, driver, n_games, n_bound_prefix, style_pool=None, short=False, directed=None):
    r = ctx.rng
    gl, styles = [], []
    for _ in range(n_games):
        st = r.choice(style_pool or [0, 0, 1, 1, 1, 2, 2, 3, 3, 3, 6, 7])     # bit 0 promotion-, bit 1 castling/e.p.-seeking, bit 2 stop at an e.p. right, bit 3 pawn-capture seeking, bit 4 / 5 one-sided pawn relays (white / black captures with pawns and keeps all its pawns)
        plies = r.randrange(4, 25) if short else r.randrange(1, 151) if not (st & 56) or r.random() < 0.3 else r.randrange(4, 31)   # pawn-structure games mostly short: the pawn rules bite while many pawns are near home
        gl.append(f"pg gengame {r.getrandbits(48)} {plies} {MIN_MEN} {st}"); styles.append(st)
    out = run_chunks(harness, gl, JOBS, chunk=50)
    games, scan = [], []
    for l, o, st in zip(gl, out, styles):
        if not o.startswith("ok "):
            raise RuntimeError(f"game generator failed on `{l}`: {o}")
        mv, cfen = o[3:].split(" | ")
        g = Game(); g.seed = l; g.style = st; g.moves = mv.split(); g.cfen = cfen.strip()
        games.append(g)
        scan.append("pg replay - " + " ".join(g.moves))
    for mv in directed or []:
        g = Game(); g.seed = "directed: " + " ".join(mv); g.style = 128; g.moves = list(mv); g.cfen = None
        games.append(g)
        scan.append("pg replay - " + " ".join(g.moves))
    # first pass: the specification replays every game and tells where e.p. captures and castling moves are played
    rep0 = run_chunks(driver, scan, JOBS, chunk=50)
    rl = []
    for g, o in zip(games, rep0):
        n = len(g.moves)
        ks = set()
        if n >= 2: ks.add(r.randrange(1, n))              # the prefix position given to the filter
        g.want = [sorted(ks)[0]] if ks else []
        for _ in range(n_bound_prefix): ks.add(r.randrange(0, n + 1))
        ks.add(0)
        if n <= 30 and (g.style & (56 | 128)):       # short pawn-structure games: every prefix against its own continuation (the property's quantifier)
            ks.update(range(0, n + 1))
        if o.startswith("ok "):
            st = dict(x.split("=") for x in o.split(" | ")[-1].split())
            ep = [int(x) for x in st["epcapat"].split(",")] if st["epcapat"] != "-" else []
            ca = [int(x) for x in st["castleat"].split(",")] if st["castleat"] != "-" else []
            for i in r.sample(ep, min(2, len(ep))): ks.add(i)          # position with an e.p. right whose continuation uses it
            for i in r.sample(ca, min(1, len(ca))): ks.add(i)          # position from which the side to move castles next
        g.fens = dict.fromkeys(sorted(ks))
        rl.append("pg replay " + ",".join(map(str, sorted(ks))) + " " + " ".join(g.moves))
    rep = run_chunks(driver, rl, JOBS, chunk=50)
    tot = {"promo": 0, "castle": 0, "epcap": 0, "eprights": 0, "captures": 0}
    for g, line, o in zip(games, rl, rep):
        parts = o.split(" | ")
        if not parts[0].startswith("ok "):
            ctx.violation(f"the Lean specification rejects a game produced by the C++ move generator: {o}",
                          {"kind": "generator-vs-spec", "input": [g.seed, line], "model_output": o}, no_input=True)
            g.fens = None; continue
        fens = parts[1:-1]
        for k, f in zip(sorted(g.fens), fens[:-1]): g.fens[k] = f
        g.fens[len(g.moves)] = fens[-1]
        g.stats = dict(x.split("=") for x in parts[-1].split())
        for k in ("promo", "castle", "epcap", "eprights", "captures"): tot[k] += int(g.stats[k])
        tot["pairs_before_ep_capture"] = tot.get("pairs_before_ep_capture", 0) + sum(1 for k in g.fens if g.stats["epcapat"] != "-" and str(k) in g.stats["epcapat"].split(","))
        tot["pairs_before_castling"] = tot.get("pairs_before_castling", 0) + sum(1 for k in g.fens if g.stats["castleat"] != "-" and str(k) in g.stats["castleat"].split(","))
        if g.cfen is not None and fens[-1] != g.cfen:
            ctx.violation(f"final position of a generated game differs between Position::makeMove/toFEN and the Lean specification: {g.cfen} vs {fens[-1]}",
                          {"kind": "position-vs-spec", "input": [g.seed, line], "impl": g.cfen, "model": fens[-1]}, no_input=True)
    return [g for g in games if g.fens], tot


def two_capturer_games(r):
    """short games in which a double push lands between TWO enemy pawns and either of them captures en passant
    (both colours, every inner file, both captures), followed by a few quiet moves"""
    out = []
    F = "abcdefgh"
    for x in range(1, 7):
        a, b, c = F[x - 1], F[x + 1], F[x]
        for cap in (a, b):
            tail = [["h6g8"], ["h6g8", "g1h3"], ["h6g8", "g1h3", "g8h6"], []][r.randrange(4)]
            out.append([f"{a}2{a}4", "g8h6", f"{a}4{a}5", "h6g8", f"{b}2{b}4", "g8h6", f"{b}4{b}5", f"{c}7{c}5", f"{cap}5{c}6"] + tail)
            tail = [["g1h3"], ["g1h3", "g8h6"], []][r.randrange(3)]
            out.append(["g1h3", f"{a}7{a}5", "h3g1", f"{a}5{a}4", "g1h3", f"{b}7{b}5", "h3g1", f"{b}5{b}4", f"{c}2{c}4", f"{cap}4{c}3"] + tail)
    return out


def game_input(g, k):
    """failing-input description: the game that reaches the position (re-playable through the Lean model)"""
    return {"generator": g.seed, "moves": g.moves[:k], "ply": k, "fen": g.fens.get(k), "all_moves": g.moves,
            "verify": "pg replay - " + " ".join(g.moves[:k])}


def source_tie(ctx):
    """revmovegen.cpp carries a copy of the piece-count rule; it is file-static, so it is tied textually to the
    copy that the differential exercises (ProofGame::validatePieceCounts)."""
    def body(path, start_pat):
        src = open(os.path.join(vlib.REPO, path)).read()
        i = src.index(start_pat)
        i = src.index("{", i)
        d, j = 0, i
        while True:
            if src[j] == "{": d += 1
            elif src[j] == "}":
                d -= 1
                if d == 0: break
            j += 1
        b = re.sub(r"//[^\n]*", "", src[i + 1:j])
        b = re.sub(r'throw ChessParseError\("[^"]*"\);', "return false;", b)
        b = re.sub(r"\s+", " ", b).strip()
        b = re.sub(r"return true; ?$", "", b).strip()
        return b
    try:
        a = body("lib/texelutillib/pg/proofgame.cpp", "ProofGame::validatePieceCounts(const Position& pos)")
        b = body("lib/texelutillib/revmovegen.cpp", "static bool pieceCountsValid(const Position& pos)")
    except ValueError as e:
        ctx.violation("source tie: cannot locate validatePieceCounts / pieceCountsValid", {"kind": "source-tie", "error": str(e)}, no_input=True)
        return
    ctx.tie("count-rule-copy", kind="token identity of RevMoveGen's static pieceCountsValid with ProofGame::validatePieceCounts (throw -> return false)", identical=(a == b))
    if a != b:
        ctx.violation("revmovegen.cpp: pieceCountsValid is no longer the same text as ProofGame::validatePieceCounts (the copy the theorem counts_invariant is tied to)",
                      {"kind": "source-tie", "theorem_scope": "Props.C16.counts_invariant", "proofgame": a, "revmovegen": b}, no_input=True)


def kernel_diff(ctx, pairs, quick):
    r = ctx.rng
    n_counts, n_enough, n_pl = (100000, 100000, 150) if quick else (450000, 450000, 1700)
    lines, exp = [], []
    for _ in range(n_counts):
        c = gen_count_tuple(r)
        lines.append("pg counts " + " ".join(map(str, c))); exp.append(rule_counts(c))
    # the four corner tuples of the rule, always present
    for c in ([1, 1, 2, 2, 2, 8] * 2, [1, 1, 2, 2, 3, 8, 1, 1, 2, 2, 2, 8], [1, 1, 2, 2, 2, 8, 1, 2, 2, 2, 2, 8], [1, 9, 2, 2, 2, 0, 1, 1, 10, 2, 2, 0],
              [1, 1, 2, 2, 3, 7, 1, 1, 2, 3, 2, 7], [1, 2, 3, 3, 3, 4, 1, 2, 3, 3, 3, 5], [0] * 12):
        lines.append("pg counts " + " ".join(map(str, c))); exp.append(rule_counts(c))
    for _ in range(n_enough):
        c, g = gen_enough_tuple(r)
        lines.append("pg enough " + " ".join(map(str, c + g))); exp.append(rule_enough(c, g))
    for (fa, fb) in pairs:
        wa, ba = fen_men(fa); wb, bb = fen_men(fb)
        posW, goalW = fa.split()[1] == "w", fb.split()[1] == "w"
        for (a, b) in [(0, 0)] + gen_ply_tuples(r, n_pl):
            lines.append(f"pg plies {a} {b} {fa} {fb}"); exp.append(str(rule_plies(a, b, ba - bb, wa - wb, posW, goalW)))
    lines += ["pg counts 1 2 3", "pg enough 1", "pg plies 1 2 3", "pg", "pg counts 1 1 2 2 2 8 1 1 2 2 2 x", "pg counts 1 1 2 2 2 60 1 1 2 2 2 8"]
    exp += ["bad-op"] * 6
    out1, out2, mis = vlib.diff_lines(ctx, "pg-kernels", lines, "plain")
    ctx.count(len(lines))
    for l in lines[:3]: ctx.sample({"op": l})
    if len(out1) != len(lines): return
    nbad = 0
    for l, o, e in zip(lines, out1, exp):
        if o != e:
            nbad += 1
            if nbad <= 3:
                ctx.violation(f"kernel `{' '.join(l.split()[:2])}`: implementation returns `{o}`, the rule as stated in the source comment/theorem gives `{e}` on `{l}`",
                              {"kind": "property-predicate", "tie": "pg-kernels", "input": [l], "impl_output": o, "expected": e})
    if mis is not None and nbad == 0:
        ctx.violation(f"pg-kernels: model and implementation disagree on `{lines[mis]}`: impl `{out1[mis]}` model `{out2[mis]}`",
                      {"kind": "correspondence", "tie": "pg-kernels", "theorem_scope": "Props/C16.lean (PG.validatePieceCounts / enoughRemainingPieces / distCombine no longer correspond to the code)",
                       "input": [lines[mis]], "impl": out1[mis], "model": out2[mis]}, no_input=True)
    ctx.tie("pg-kernels", counts=n_counts + 7, enough=n_enough, plies=len(pairs) * (n_pl + 1), pairs=len(pairs))


def fen_squares(fen):
    """{square index (a1 = 0): piece letter} of a FEN"""
    out, r, c = {}, 7, 0
    for ch in fen.split()[0]:
        if ch == "/": r -= 1; c = 0
        elif ch.isdigit(): c += int(ch)
        else: out[r * 8 + c] = ch; c += 1
    return out


def vlib_harness():
    return os.path.join(vlib.cxx_build("plain", ("vharness",)), "vharness")


def king_cage(r):
    """synthetic position aimed at the king case of pieceCanMove: a king whose neighbour squares are own blocked men or empty
    squares attacked by enemy pawns, some of which are obstacles themselves and some not -> (fen, mask)"""
    for _ in range(50):
        white = r.random() < 0.5
        K, k, P, p, N = ("K", "k", "P", "p", "N") if white else ("k", "K", "p", "P", "n")
        fwd = 1 if white else -1                     # enemy pawns attack towards the king's side: they stand on rank + fwd of the square they attack
        kx, ky = r.randrange(8), r.randrange(1, 7)
        bd, mask = {ky * 8 + kx: K}, 0
        ok = True
        for dx in (-1, 0, 1):
            for dy in (-1, 0, 1):
                x, y = kx + dx, ky + dy
                if (dx == 0 and dy == 0) or not (0 <= x < 8 and 0 <= y < 8) or y * 8 + x in bd: continue
                u = r.random()
                if u < 0.4:
                    bd[y * 8 + x] = P if 1 <= y <= 6 and r.random() < 0.7 else N
                    if r.random() < 0.9: mask |= 1 << (y * 8 + x)
                elif u < 0.9:
                    py = y + fwd
                    cand = [px for px in (x - 1, x + 1) if 0 <= px < 8 and 1 <= py <= 6 and (py * 8 + px) not in bd and max(abs(px - kx), abs(py - ky)) > 1]
                    if cand:
                        sq = py * 8 + r.choice(cand)
                        bd[sq] = p
                        if r.random() < 0.5: mask |= 1 << sq
        # the other king: far away, not attacked by the pawns / knights / king placed so far
        def attacked(q):
            x, y = q % 8, q // 8
            for s2, c in bd.items():
                sx, sy = s2 % 8, s2 // 8
                if c == K and max(abs(sx - x), abs(sy - y)) <= 1: return True
                if c == N and sorted((abs(sx - x), abs(sy - y))) == [1, 2]: return True
                if c == P and abs(sx - x) == 1 and y - sy == fwd: return True
            return False
        free = [q for q in range(64) if q not in bd and not attacked(q)]
        if not free: continue
        bd[r.choice(free)] = k
        rows = []
        for y in range(7, -1, -1):
            row, e = "", 0
            for x in range(8):
                c = bd.get(y * 8 + x)
                if c is None: e += 1
                else: row += (str(e) if e else "") + c; e = 0
            rows.append(row + (str(e) if e else ""))
        return "/".join(rows) + (" w" if white else " b") + " - - 0 1", mask
    return None


def deadlock_diff(ctx, games, quick):
    """`ProofGame::computeDeadlockedPieces` against the model `PG.deadlocked` / `PG.verdict` whose soundness is
    `Props.C16.deadlocked_pieces_sound_partial`: positions of generated games x blocked masks (subsets of the occupied squares)"""
    r = ctx.rng
    n = int(os.environ.get("C16_DEADLOCK_N", 0)) or (6000 if quick else 80000)
    pool = [(g, k) for g in games for k in g.fens]
    lines, shapes, meta, shape_of = [], {}, [], []
    def add(shape, mask, fp, fg):
        lines.append(f"pg deadlock {mask} {fp} {fg}"); shapes[shape] = shapes.get(shape, 0) + 1; meta.append((g, k)); shape_of.append(shape)
    # (i) the masks computeBlocked really establishes for (position, final position of the same game) pairs with equally many men
    real = [(g, k) for g in games for k in g.fens if sum(fen_men(g.fens[k])) == sum(fen_men(g.fens[len(g.moves)]))]
    r.shuffle(real); real = real[: n // 3]
    bmask = pool_lines(vlib_harness(), [f"pg blocked {g.fens[k]} {g.fens[len(g.moves)]}" for g, k in real], 8, JOBS) if real else []
    for (g, k), o in zip(real, bmask):
        if o.isdigit() and not (int(o) & ~sum(1 << q for q in fen_squares(g.fens[k]))):
            add("computeBlocked", int(o), g.fens[k], g.fens[len(g.moves)])
    # (ii) synthetic king cages (the function and its model are total on boards: the positions need not come from games)
    g, k = None, 0
    for _ in range(n // 6):
        kc = king_cage(r)
        if kc: add("king-cage", kc[1], kc[0], kc[0])
    # (iii) arbitrary subsets of the occupied squares
    while len(lines) < n and pool:
        g, k = pool[r.randrange(len(pool))]
        fp = g.fens[k]
        later = [j for j in g.fens if j >= k]
        fg = g.fens[r.choice(later)] if r.random() < 0.5 else fp
        sq = fen_squares(fp)
        occ = sorted(sq)
        style = r.randrange(7)
        if style == 0: m = [q for q in occ if r.random() < 0.25]; shape = "sparse"
        elif style == 1: m = [q for q in occ if r.random() < 0.85]; shape = "dense"
        elif style == 2: m = [q for q in occ if sq[q] in "Pp" or r.random() < 0.5]; shape = "all-pawns+half"
        elif style == 3: m = [q for q in occ if sq[q] in "Pp" and r.random() < 0.5 or sq[q] not in "PpKk" and r.random() < 0.9]; shape = "half-pawns+pieces"
        elif style == 4: m = [q for q in occ if sq[q] not in "Kk" and r.random() < 0.95]; shape = "all-but-kings"
        elif style == 5:
            # the neighbourhood of one king is blocked, the pawns are left to the loops
            ks = [q for q in occ if sq[q] in "Kk"]; kq = r.choice(ks)
            m = [q for q in occ if sq[q] not in "PpKk" and (max(abs(q % 8 - kq % 8), abs(q // 8 - kq // 8)) <= 2 or r.random() < 0.6)]; shape = "king-zone"
        else: m = []; shape = "empty"
        add(shape, sum(1 << q for q in m), fp, fg)
    lines += ["pg deadlock 1 8/8/8/8/8/8/8/K6k w - - 0 1", "pg deadlock x " + " ".join(games[0].fens[0].split() * 2), "pg deadlock"] if games else []
    out1, out2, mis = vlib.diff_lines(ctx, "pg-deadlock", lines, "plain")
    ctx.count(len(lines))
    for l in lines[:2]: ctx.sample({"op": l})
    nd = sum(1 for o, l in zip(out1, lines) if o.split()[:1] and o.split()[0].isdigit() and int(o.split()[0]) != int(l.split()[2]))
    nrej = sum(1 for o in out1 if o.endswith(" 0"))
    ctx.tie("pg-deadlock", lines=len(lines), mask_shapes=json.dumps(shapes), with_deadlocked_pieces=nd, rejected=nrej,
            theorem="Props.C16.deadlocked_pieces_sound_partial / deadlocked_reject_sound_partial")
    nmis = sum(1 for a, b in zip(out1, out2) if a != b)
    print(f"[C16] deadlock differential: {len(lines)} (position, goal, blocked) triples, {nd} with deadlocked pieces, {nrej} rejected, {nmis} disagreements, shapes {shapes}", flush=True)
    if nmis: print("[C16] disagreeing shapes: " + json.dumps({sh: sum(1 for a, b, x in zip(out1, out2, shape_of) if a != b and x == sh) for sh in shapes}), flush=True)
    if nd == 0 and lines:
        ctx.violation("generator coverage: no blocked mask produced a deadlocked piece", {"kind": "coverage"}, no_input=True)
    if mis is not None and mis < len(lines):
        rp = {"kind": "correspondence", "tie": "pg-deadlock", "theorem_scope": "Props.C16.deadlocked_pieces_sound_partial (the code no longer is the function proved sound)",
              "input": [lines[mis]], "impl": out1[mis] if mis < len(out1) else None, "model": out2[mis] if mis < len(out2) else None}
        # search for a failing input of the property itself: a disagreement in which the code freezes a piece the proved
        # function does not, taken from a game whose capture-free continuation moves that very piece
        witness = None
        for i in range(mis, min(len(out1), len(out2), len(meta))):
            a, b = out1[i].split(), out2[i].split()
            if a == b or len(a) != 2 or len(b) != 2 or not (a[0].isdigit() and b[0].isdigit()): continue
            extra = int(a[0]) & ~int(b[0])
            g, k = meta[i]
            if g is None: continue
            nfin = len(g.moves)
            if not extra or sum(fen_men(g.fens[k])) != sum(fen_men(g.fens[nfin])): continue
            for j in range(k, nfin):
                f = (ord(g.moves[j][0]) - 97) + 8 * (int(g.moves[j][1]) - 1)
                if extra >> f & 1:
                    witness = (i, g, k, j, f); break
            if witness: break
        if witness:
            i, g, k, j, f = witness
            rp.update({"input": [lines[i]], "impl": out1[i], "model": out2[i], "game": g.moves, "position_after_ply": k, "frozen_square": f, "moved_at_ply": j})
            ctx.violation(f"computeDeadlockedPieces declares the piece on square {f} of `{g.fens[k]}` unable to ever move (no capture remains up to the game's end), "
                          f"but the legal game itself moves it at ply {j} ({g.moves[j]}); the proved function does not freeze it: `{lines[i]}` impl `{out1[i]}` model `{out2[i]}`", rp)
        else:
            ctx.violation(f"pg-deadlock: computeDeadlockedPieces and the proved model disagree on `{lines[mis]}`: impl `{rp['impl']}` model `{rp['model']}`", rp, no_input=True)


def check_bound_output(o, remaining, capbound):
    """property predicates on one `pg bound` reply; returns list of (kind, message)"""
    bad = []
    if o.startswith("TIMEOUT") or o.startswith("CRASH"):
        return [("crash", o)] if o.startswith("CRASH") else []
    d = dict(x.split("=", 1) for x in o.split())
    for key, what in (("b0", "distLowerBound"), ("b1", "distLowerBound after forced-last-move analysis + retracted moves")):
        v = d[key]
        if v == "inf" or v.startswith("err:"):
            bad.append(("false-illegal", f"{what} declares the goal unreachable ({v})"))
        elif int(v) > remaining:
            bad.append(("bound", f"{what} = {v} exceeds the {remaining} plies in which the game actually reaches the goal (computeNeededMoves = {d.get('nm')})"))
        elif key == "b0" and capbound is not None and int(v) < capbound:
            bad.append(("weak", f"distLowerBound = {v} is below the proven capture/ply bound {capbound}"))
    for key, what in (("s0", "ProofGame::search(maxNodes=2)"), ("s2", "ProofGame (last-move analysis) + search(maxNodes=2)")):
        v = d[key]
        if v == "inf" or v.startswith("err:"):
            bad.append(("false-illegal", f"{what} declares the goal unreachable ({v})"))
    if d.get("pk") in ("0", "1"):
        bad.append(("false-illegal", "ProofKernel::findProofKernel reports " + ("no proof kernel" if d["pk"] == "0" else "no extended proof kernel")))
    return bad


def run(ctx):
    quick = ctx.tier == "quick"
    if ctx.replay:
        return replay(ctx)
    vlib.lean_obligations(ctx)
    bdir = vlib.cxx_build("plain", ("vharness", "texelutil"))
    harness, tu, driver = os.path.join(bdir, "vharness"), os.path.join(bdir, "texelutil"), vlib.driver_bin()
    ctx.cov["rule"] = ("kernels: random + boundary count tuples (p = maxPawns-1/0/+1, 0..10 pieces per kind), (current, goal) tuples derived by captures/promotions and perturbed, "
                       "(neededMoves white, black) x real (prefix, final) pairs incl. negatives and 5e8; games: random legal games from the initial position, 1..150 plies, >= 26 men, "
                       "generator styles (uniform / promotion-seeking / castling+en-passant-seeking / both / ending at an en-passant right); positions: final + one prefix per game through the filter, "
                       "several prefixes per game against the final through the ProofGame API; distinct = distinct positions / pairs / tuples")
    ctx.assumptions += ["the Lean specification Chess.legalB/apply/fixupEP is the rules of chess (shared trusted text, tied to MoveGen by C01)",
                        "computeDeadlockedPieces is proved sound relative to the blocked set it is handed (hypothesis of Props.C16.deadlocked_pieces_sound_partial) and compared with the code on random blocked masks, which need not be masks computeBlocked would produce",
                        "the other geometric pruning rules (pawn cones / blocked pawns, trapped bishops, shortest paths, assignment bounds, proof-kernel and extended-kernel search) have NO theorem: monitored only",
                        "the harness reaches private members of ProofGame via #define private public; the ply combination is exercised through the TEXEL_VERIF hook verifNeededMovesHook"]
    source_tie(ctx)

    n_games = 300 if quick else 5000
    games, tot = make_games(ctx, harness, driver, n_games, 6)
    ctx.log(f"{len(games)} games generated and re-played by the Lean specification")
    # short pawn-structure games for the API monitor only (cheap: ~1.5 ms per pair): every prefix against its own continuation
    xgames, xtot = make_games(ctx, harness, driver, 1400 if quick else 12000, 0, style_pool=[16, 32, 24, 40, 8, 17, 33, 128, 128], short=True, directed=two_capturer_games(ctx.rng))
    ctx.log(f"{len(xgames)} short pawn-structure games for the bound monitor")
    # short games that END with an en-passant capture: the last-move analysis then has two forced last moves (capture + double push),
    # and the proof game the tool prints must still be a legal game (these finals go through -f and, first in line, through -f -o)
    egames, _ = make_games(ctx, harness, driver, 500 if quick else 4000, 0, style_pool=[66, 66, 67], short=True)
    egames = [g for g in egames if g.stats["epcapat"] != "-" and str(len(g.moves) - 1) in g.stats["epcapat"].split(",")]
    ctx.log(f"{len(egames)} short games ending with an en-passant capture")

    # ---- (c) distribution --------------------------------------------------------------------------------------
    finals = [g.fens[len(g.moves)] for g in games]
    dist = {"games": len(games), "plies_total": sum(len(g.moves) for g in games),
            "games_with_promotion": sum(int(g.stats["promo"]) > 0 for g in games), "promotions": tot["promo"],
            "underpromotions": sum(1 for g in games for m in g.moves if len(m) == 5 and m[4] != "q"),
            "games_with_castling": sum(int(g.stats["castle"]) > 0 for g in games), "castlings": tot["castle"],
            "en_passant_captures": tot["epcap"], "positions_with_ep_right_along_games": tot["eprights"],
            "api_pairs_starting_before_an_ep_capture": tot.get("pairs_before_ep_capture", 0), "api_pairs_starting_before_castling": tot.get("pairs_before_castling", 0),
            "finals_with_ep_square": sum(f.split()[3] != "-" for f in finals),
            "finals_castling_rights": {k: sum(1 for f in finals if f.split()[2] == k) for k in sorted(set(f.split()[2] for f in finals))},
            "finals_rights_kept_all": sum(f.split()[2] == "KQkq" for f in finals), "finals_rights_lost_all": sum(f.split()[2] == "-" for f in finals),
            "finals_men": {m: sum(1 for f in finals if sum(fen_men(f)) == m) for m in range(MIN_MEN, 33)},
            "length_buckets": {f"{a}-{a + 29}": sum(1 for g in games if a <= len(g.moves) <= a + 29) for a in range(1, 151, 30)}}
    ctx.tie("game-distribution", **{k: (json.dumps(v) if isinstance(v, dict) else v) for k, v in dist.items()})
    print("[C16] distribution of the generated games: " + json.dumps(dist), flush=True)
    for key in ("promotions", "castlings", "en_passant_captures", "finals_with_ep_square", "finals_rights_kept_all", "finals_rights_lost_all", "underpromotions"):
        if dist[key] == 0:
            ctx.violation(f"generator coverage: no `{key}` in {len(games)} games — the monitor would not exercise what the property names",
                          {"kind": "coverage", "distribution": dist}, no_input=True)

    # ---- (a) kernels ---------------------------------------------------------------------------------------------
    r = ctx.rng
    # pairs for the ply-combination kernel: no en-passant right in the prefix (with one, distLowerBound is a minimum over
    # the e.p. captures and the hook fires more than once)
    cand = [(g.fens[k], g.fens[len(g.moves)]) for g in games for k in g.fens if k < len(g.moves) and g.fens[k].split()[3] == "-"]
    pairs, seen = [], set()
    for fa, fb in r.sample(cand, min(len(cand), 400)):
        key = (fa.split()[1], fb.split()[1])
        if key not in seen or len(pairs) < (16 if quick else 60):
            seen.add(key); pairs.append((fa, fb))
        if len(pairs) >= (16 if quick else 60) and len(seen) == 4: break
    kernel_diff(ctx, pairs, quick)
    deadlock_diff(ctx, games + xgames, quick)
    if os.environ.get("C16_ONLY_DEADLOCK"): return          # development aid
    ctx.log("kernel differential done")

    # ---- (b1) ProofGame API on (prefix, final) pairs -----------------------------------------------------------
    bl, bmeta = [], []
    xset = set(id(g) for g in xgames)
    for g in games + xgames:
        n = len(g.moves)
        for k in sorted(g.fens):
            if k == n and n > 0 and r.random() < 0.9: continue       # (final, final) only now and then
            mode = 1 if (id(g) not in xset and k > 0 and r.random() < (0.25 if quick else 0.3)) else 0     # kernel search from the initial position is what the filter does
            bl.append(f"pg bound {mode} {g.fens[k]} {g.fens[n]}"); bmeta.append((g, k))
    pl = [f"pg pair {g.fens[k]} {g.fens[len(g.moves)]}" for g, k in bmeta]
    t0 = time.time()
    bout = pool_lines(harness, bl, 8 if quick else 30, JOBS)
    pout = run_chunks(driver, pl, JOBS, chunk=100)
    ctx.count(len(bl))
    n_to, nbad, nknown = 0, 0, 0
    nm_hist = {"pk_ext": 0, "pk_skipped": 0, "pk_notimpl": 0, "bound_eq_remaining": 0, "last_moves_retracted": 0}
    for (g, k), l, o, po, pline in zip(bmeta, bl, bout, pout, pl):
        ctx.distinct(l)
        rem = len(g.moves) - k
        if o == "TIMEOUT": n_to += 1; continue
        m = re.match(r"enough=(\d) capbound=(-?\d+)", po)
        if not m or m.group(1) != "1":
            ctx.violation(f"Lean model: enoughRemainingPieces fails on a (position, later position) pair: {po}", {"kind": "model", "input": [pline], "theorem_scope": "Props.C16.enough_remaining_necessary"}, no_input=True)
            continue
        cap = int(m.group(2))
        if cap > rem:
            ctx.violation(f"Lean model: the proven capture bound {cap} exceeds the game length {rem}", {"kind": "model", "theorem_scope": "Props.C16.dist_lower_bound_captures_partial"}, no_input=True)
        d = dict(x.split("=", 1) for x in o.split()) if "=" in o else {}
        if d.get("pk") == "2": nm_hist["pk_ext"] += 1
        elif d.get("pk") == "notimpl": nm_hist["pk_notimpl"] += 1
        else: nm_hist["pk_skipped"] += 1
        if d.get("b0") == str(rem): nm_hist["bound_eq_remaining"] += 1
        if d.get("last1") not in (None, "0", "-"): nm_hist["last_moves_retracted"] += 1
        for kind, msg in check_bound_output(o, rem, cap):
            rp = {"kind": kind, "tool": "api", "op": l, "impl_output": o, "remaining_plies": rem, "input": game_input(g, k), "goal": game_input(g, len(g.moves))}
            if g.fens[k].split()[3] != "-" and ("findProofKernel" in msg or "No_possible_last_move" in msg):
                # recorded defect: the extended kernel cannot express an e.p. capture available in the start position
                # (seen directly, or through computeLastMoves' knownIllegal which runs the kernel search from the start position)
                nknown += 1
                ctx.violation(msg, dict(rp, finding_id="C16-extkernel-ep-start"))
                continue
            nbad += 1
            if nbad <= 4:
                if kind == "weak":
                    ctx.violation(f"ProofGame API on a (prefix, final) pair of a legal game: {msg}", dict(rp, theorem_scope="Props.C16.dist_lower_bound_captures_partial / tie of distCombine"), no_input=True)
                else:
                    ctx.violation(f"ProofGame API on a (prefix, final) pair of a legal game ({rem} plies apart): {msg}", rp)
    ctx.tie("api-pairs", kind="ProofGame/ProofKernel API on (prefix, final) pairs of legal games: bounds <= remaining plies, never unreachable", pairs=len(bl), timeouts=n_to, known_finding_hits=nknown, wall_s=round(time.time() - t0, 1), **nm_hist)
    ctx.log(f"API monitor: {len(bl)} pairs, {n_to} timeouts, {nbad} predicate failures, {nknown} hits of the recorded finding")

    # ---- (b2) texelutil proofgame -f on final and prefix positions ------------------------------------------------
    pos_of = {}                       # fen -> (game, ply)
    for g in games:
        pos_of.setdefault(g.fens[len(g.moves)], (g, len(g.moves)))
    n_final = len(pos_of)
    for g in games:
        for k in g.want: pos_of.setdefault(g.fens[k], (g, k))
    ep_finals = []
    for g in egames:
        f = g.fens[len(g.moves)]
        if f not in pos_of:
            pos_of[f] = (g, len(g.moves)); ep_finals.append(f)
    fens = list(pos_of)
    t0 = time.time()
    ans = texelutil_filter(tu, fens, JOBS, 10 if quick else 60, chunk=4 if quick else 6)
    st_hist = {"legal": 0, "unknown": 0, "illegal": 0, "no-answer": 0, "?": 0}
    proofs = []                       # (fen, san list, source)
    def judge(fen, line, source):
        st, d = parse_filter_line(line)
        if st == "illegal":
            g, k = pos_of[fen]
            ctx.violation(f"`texelutil proofgame {source}` declares a position reached by a legal game illegal: {' '.join(line.split()[6:])[:200]}",
                          {"kind": "false-illegal", "tool": source, "impl_output": line, "input": game_input(g, k)})
        if "proof" in d:
            proofs.append((fen, d["proof"], source))
        return st, d
    for fen in fens:
        ctx.distinct(fen)
        if ans[fen] is None: st_hist["no-answer"] += 1; continue
        st, d = judge(fen, ans[fen], "-f")
        st_hist[st] += 1
    ctx.count(len(fens))
    ctx.tie("filter", kind="texelutil proofgame -f on final + prefix positions of legal games: never `illegal:`", positions=len(fens), finals=n_final, prefixes=len(fens) - n_final,
            wall_s=round(time.time() - t0, 1), **{"status_" + k: v for k, v in st_hist.items()})
    ctx.log(f"filter -f: {len(fens)} positions {st_hist}")

    # ---- (b3) iterated mode (path + proof game construction) on a subset ----------------------------------------------
    n_it = 96 if quick else 1500
    # prefer short games: their proof games are found within the budget, which is what feeds the certificate checker
    order = sorted(fens, key=lambda f: (pos_of[f][1] > 40, r.random()))
    sub = order[:n_it * 2 // 3] + r.sample(order[n_it * 2 // 3:], min(len(order) - n_it * 2 // 3, n_it - n_it * 2 // 3)) if len(order) > n_it else order
    first = ep_finals[:24 if quick else 300]
    sub = first + [f for f in sub if f not in set(first)][:max(0, n_it - len(first))]
    t0 = time.time()
    ans_it, nfin, nch = texelutil_iterated(tu, sub, JOBS, 60 if quick else 240, 75 if quick else 900)
    it_hist = {"legal": 0, "unknown": 0, "illegal": 0, "no-answer": 0, "fail": 0, "no-solution-info": 0}
    for fen in sub:
        ls = ans_it[fen]
        if not ls: it_hist["no-answer"] += 1; continue
        last = None
        for l in ls:
            st, d = judge(fen, l, "-f -o")
            last = (st, d)
        it_hist[last[0]] += 1
        if "fail" in last[1]: it_hist["fail"] += 1
        if "No solution exists" in " ".join(last[1].get("info", [])): it_hist["no-solution-info"] += 1
    ctx.count(len(sub))
    ctx.tie("filter-iterated", kind="texelutil proofgame -f -o (kernel -> path -> proof game) on a subset, wall-clock budget per chunk", positions=len(sub),
            chunks=nch, chunks_finished=nfin, wall_s=round(time.time() - t0, 1), **{"status_" + k: v for k, v in it_hist.items()})
    ctx.log(f"filter -f -o: {len(sub)} positions {it_hist}")

    # ---- every emitted proof game through the proven checker -----------------------------------------------------
    uniq = {}
    for fen, san, src in proofs: uniq.setdefault((fen, tuple(san)), src)
    cl = [f"pg check {fen} " + " ".join(san) for (fen, san) in uniq]
    cout = run_chunks(driver, cl, JOBS, chunk=8)
    nok = 0
    for ((fen, san), src), l, o in zip(uniq.items(), cl, cout):
        if o == f"ok {len(san)}": nok += 1; continue
        g, k = pos_of[fen]
        ctx.violation(f"`texelutil proofgame {src}` printed a proof game that the Lean checker rejects ({o}): it is not a legal game from the initial position ending in the requested position",
                      {"kind": "bad-proof-game", "tool": src, "fen": fen, "proof": list(san), "checker": o, "input": game_input(g, k), "theorem_scope": "Props.C16.proofgame_san_checker_sound"})
    ctx.count(len(cl))
    ctx.tie("proof-games", kind="every `proof:` line checked by PG.checkSanGame (proven sound)", checked=len(cl), accepted=nok,
            total_plies=sum(len(s) for (_, s) in uniq), longest=max([len(s) for (_, s) in uniq] + [0]))
    ctx.log(f"proof games: {nok}/{len(cl)} accepted by the Lean checker")
    if len(cl) == 0:
        ctx.violation("no proof game was produced by the tool in this run — the certificate check would be vacuous", {"kind": "coverage"}, no_input=True)
    if not quick:
        vlib.leanchecker(ctx, ["TexelVerif.Props.C16"])


# -----------------------------------------------------------------------------------------------
# replay
# -----------------------------------------------------------------------------------------------

def replay(ctx):
    rp = ctx.replay["replay"]
    ok, _ = vlib.lake_build(["driver"])
    bdir = vlib.cxx_build("plain", ("vharness", "texelutil"))
    harness, tu, driver = os.path.join(bdir, "vharness"), os.path.join(bdir, "texelutil"), vlib.driver_bin()
    kind = rp.get("kind")
    ctx.count(1); ctx.distinct("replay"); ctx.distinct("replay2")
    if isinstance(rp.get("input"), list):                       # kernel lines
        lines = rp["input"]
        out1, out2, mis = vlib.diff_lines(ctx, "replay", lines)
        for l, a, b in zip(lines, out1, out2):
            print(f"{l}\n   impl : {a}\n   model: {b}")
        exp = rp.get("expected")
        if mis is not None or (exp is not None and out1 and out1[-1] != exp):
            ctx.violation("replay: kernel still disagrees", rp)
        return
    inp = rp.get("input", {})
    moves = inp.get("moves", [])
    rc, out, _ = vlib.run_lines(driver, ["pg replay - " + " ".join(moves)])
    print("Lean specification on the game:", out[0] if out else "?")
    if not out or not out[0].startswith("ok "):
        print("the game is not legal under the specification — not a failing input"); return
    fen = out[0].split(" | ")[1]
    if kind in ("false-illegal", "bad-proof-game") and rp.get("tool", "").startswith("-f"):
        if rp["tool"] == "-f":
            ans = texelutil_filter(tu, [fen], 1, 600)
            lines = [ans[fen]] if ans[fen] else []
        else:
            a, _, _ = texelutil_iterated(tu, [fen], 1, 1800, 1800, chunk=1)
            lines = a[fen]
        bad = False
        for l in lines:
            print("  " + l[:400])
            st, d = parse_filter_line(l)
            if st == "illegal": bad = True
            if "proof" in d:
                rc, o, _ = vlib.run_lines(driver, [f"pg check {fen} " + " ".join(d["proof"])])
                print("  checker:", o[0])
                if o[0] != f"ok {len(d['proof'])}": bad = True
        if bad: ctx.violation("replay: the tool still declares the reachable position illegal / prints an invalid proof game", rp)
        return
    if rp.get("tool") == "api":
        goal = rp["goal"]["moves"]
        rc, out2, _ = vlib.run_lines(driver, ["pg replay - " + " ".join(goal)])
        gfen = out2[0].split(" | ")[1]
        op = f"pg bound {rp['op'].split()[2]} {fen} {gfen}"
        o = LineProc(harness).ask(op, 600)
        rc, po, _ = vlib.run_lines(driver, [f"pg pair {fen} {gfen}"])
        print(op, "\n   impl :", o, "\n   model:", po[0], "\n   remaining plies:", len(goal) - len(moves))
        m = re.match(r"enough=(\d) capbound=(-?\d+)", po[0])
        if check_bound_output(o, len(goal) - len(moves), int(m.group(2)) if m else None):
            ctx.violation("replay: the API still violates the bound / reachability predicate", rp)
        return
    print("nothing to replay for kind", kind)
