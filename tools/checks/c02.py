"""C02 — position state survives any make/unmake history intact.
Lean: Props/C02.lean (every primitive keeps `Inv`; makeMove refines the specification's `apply`; unMakeMove∘makeMove
= id on every field; null-move edit; any history; equal positions have equal keys; serialise / FEN round trips;
MatId range + injectivity for the repaired unsigned arithmetic, overflow witnesses for the original).
Tie: the harness (harness/h_pos.cpp) drives a real `Position` through histories `pos run <fen> | ops…`
(m<uci> make, u take back, n null-move edit, c copy) and after EVERY op prints every field, compares each
incremental field with a from-scratch recomputation, after take-backs compares with the saved copy bit for bit,
and does the FEN and serialise round trips; the compiled Lean model (Drv/Pos.lean) replays the same ops with the
real Zobrist tables (dumped once per run) and must print the same line.  Runs on the plain and on the
ASan+UBSan build; a sanitizer abort is a violation with the history as replay."""
import os, re, concurrent.futures as cf
import vlib, chessgen

# start positions for promotion-heavy games (many advanced pawns; up to 9 queens per side are reachable)
PROMO_FENS = [
    "8/PPPPPPPP/7k/8/8/K7/pppppppp/8 w - - 0 1",
    "8/PPPPPPPP/7k/1q6/6Q1/K7/pppppppp/8 w - - 0 1",
    "8/PPPPPPPP/7k/1q6/6Q1/K7/pppppppp/8 b - - 0 1",
    "4k3/PPPP1PPP/8/8/8/8/ppp1pppp/3K4 w - - 0 1",
    "n1n5/PPPk4/8/8/8/8/4Kppp/5N1N b - - 0 1",
    "8/PPP4k/8/8/8/8/4Kppp/8 w - - 0 1",
    "1q1q1q1q/8/1k6/8/8/6K1/PPPPPPPP/8 w - - 0 1",
    "8/pppppppp/1K6/8/8/6k1/8/Q1Q1Q1Q1 b - - 0 1",
    "7k/PPPPPP2/8/8/8/8/2pppppp/K7 w - - 0 1",
    "qqqqq3/7P/8/8/8/8/p6k/2K5 b - - 0 1",
    "QQQQQ3/7p/8/8/8/8/P6K/2k5 w - - 0 1",
    "2k5/PPPPP2P/8/8/8/8/p2ppppp/5K2 w - - 0 1",
]
WITNESS_FENS = [   # material that overflowed the original signed MatId arithmetic / material-hash key
    "qqqqqq2/8/8/8/8/8/8/K6k w - - 0 1",
    "qqqq4/8/8/8/8/8/8/K6k w - - 0 1",
    "qqqqqqqq/q7/8/8/8/7K/8/7k b - - 0 1",
    "QQQQQQQQ/Q7/8/8/8/7k/8/7K w - - 0 1",
    "qqqqq3/bbbbbb2/8/8/8/7K/8/7k b - - 0 1",
    "qqqqqqqq/q6K/8/8/8/8/QQQQQQQQ/Qk6 w - - 0 1",
]


def harness(bdir):
    return os.path.join(bdir, "vharness")


def popcount(x):
    return bin(x).count("1")


def parse_record(rec):
    """record -> dict of fields (op is key 'op'); returns None for the terminal markers"""
    toks = rec.split(" ")
    if len(toks) < 5:
        return None
    d = {"op": toks[0]}
    for t in toks[1:]:
        k, _, v = t.partition("=")
        d[k] = v
    return d


def run_chunk(binary, init, lines, env=None):
    rc, out, err = vlib.run_lines(binary, [init] + lines, env)
    return rc, out, err


def source_tie(ctx):
    """pieceTypeBB_[EMPTY] is not modelled: nobody may read it.  Also the castle-mask and e.p.-mask tables."""
    pat = re.compile(r"pieceTypeBB\s*\(\s*Piece::EMPTY|pieceTypeBB_\s*\[\s*Piece::EMPTY\s*\]|pieceTypeBB_\s*\[\s*0\s*\]")
    readers = []
    for root, _, files in os.walk(os.path.join(vlib.REPO, "lib")):
        for f in files:
            if f.endswith((".cpp", ".hpp")):
                p = os.path.join(root, f)
                for ln, line in enumerate(open(p, errors="replace"), 1):
                    if pat.search(line) and "|=" not in line and "&=" not in line and "= 0" not in line:
                        readers.append(f"{os.path.relpath(p, vlib.REPO)}:{ln}: {line.strip()[:100]}")
    ctx.tie("pieceTypeBB-EMPTY-unread", kind="source grep: no reader of pieceTypeBB_[Piece::EMPTY] (not modelled)", readers=len(readers))
    if readers:
        ctx.violation("pieceTypeBB_[EMPTY] is read somewhere, but the model (and movePieceNotPawn) does not maintain it",
                      {"kind": "correspondence", "tie": "pieceTypeBB-EMPTY-unread", "readers": readers[:10]}, no_input=True)


def gen_histories(ctx, vh, n, quick):
    """(fen, ops) pairs; the real move generator is used only to produce inputs"""
    r = ctx.rng
    # start positions as in C01: seeded FENs, positions of random games, synthetic motif placements (reader-accepted only)
    syn = chessgen.synthetic(r, max(200, n // 4))
    rc, o, _ = vlib.run_lines(vh, [f"chess fen {f}" for f in syn])
    syn_ok = [x[3:] for x in o if x.startswith("ok ")]
    game_pos = chessgen.games(ctx, max(20, n // 40), 120)
    starts = []
    for i in range(n):
        x = r.random()
        if x < 0.22: starts.append((chessgen.START, 0))
        elif x < 0.40: starts.append((r.choice(chessgen.SEED_FENS), 0))
        elif x < 0.62 and syn_ok: starts.append((r.choice(syn_ok), 0))
        elif x < 0.80 and game_pos: starts.append((r.choice(game_pos), 0))
        else: starts.append((r.choice(PROMO_FENS), 1))
    # counters near the serialisation field widths (hmc 8 bits, fmc 16 bits) and the 50-move region
    for i, (fen, mode) in enumerate(starts):
        if r.random() < 0.08:
            f = fen.split(" ")
            f[4] = str(r.choice([0, 98, 99, 100, 150, 250, 254, 255, 256, 300]))
            f[5] = str(r.choice([1, 2, 65530, 65534, 65535, 65536, 70000]))
            starts[i] = (" ".join(f), mode)
    lines = []
    for fen, mode in starts:
        x = r.random()
        maxops = r.randrange(4, 60) if x < 0.5 else r.randrange(60, 160) if x < 0.85 else r.randrange(160, 301)
        if mode == 1: maxops = max(maxops, r.randrange(80, 301))
        lines.append(f"pos genhist {r.getrandbits(48)} {maxops} {mode} {fen}")
    rc, out, err = vlib.run_lines(vh, lines)
    if rc != 0 or len(out) != len(lines):
        raise RuntimeError("genhist failed: " + err[-400:])
    hist = []
    for (fen, mode), o in zip(starts, out):
        if o in ("none", "bad-op") or o.startswith("err"):
            continue
        hist.append((fen, o, mode))
    # a malformed / illegal stream: both sides must stop the same way
    bad = ["me2e5", "x", "u", "me7e8q", "mzzzz", "n n u u u"]
    for i in range(max(6, n // 100)):
        fen = r.choice(chessgen.SEED_FENS)
        hist.append((fen, " ".join(r.choice(bad) for _ in range(r.randrange(1, 4))), 2))
    return hist


def analyse(ctx, fen, ops, impl, model, variant, stats):
    """evaluate the property's predicate on the implementation's line and compare with the model's"""
    line = f"pos run {fen} | {ops}"
    recs = impl.split(" ; ")
    if impl.startswith("err") or impl == "bad-op":
        if impl != model:
            ctx.violation(f"FEN acceptance differs on `{fen}`: impl `{impl[:60]}` model `{model[:60]}`",
                          {"kind": "correspondence", "tie": "pos-histories", "input": [line]}, no_input=True)
        return
    m = re.search(r"(\S+=)?MISMATCH:\S+", impl)
    if m:
        # which op
        k = next(i for i, rc in enumerate(recs) if "MISMATCH" in rc)
        pre = " ".join(ops.split()[:k])
        ctx.violation(f"Position state inconsistent after op {k} (`{recs[k].split(' ')[0]}`) of a history from `{fen}`: {m.group(0)} [{variant}]",
                      {"kind": "property-predicate", "variant": variant, "input": [f"pos run {fen} | {pre}"], "record": recs[k][:600]})
        return
    m = re.search(r"rt=err:\S+", impl)
    if m:
        k = next(i for i, rc in enumerate(recs) if "rt=err" in rc)
        pre = " ".join(ops.split()[:k])
        ctx.violation(f"FEN written by toFEN is rejected by readFEN after op {k} from `{fen}`: {m.group(0)}",
                      {"kind": "property-predicate", "variant": variant, "input": [f"pos run {fen} | {pre}"], "record": recs[k][:600]})
        return
    impl = re.sub(r" (reuse|see|asg)=ok", "", impl)      # implementation-only predicates (reused-object deSerialize, SEE make/unmake): judged above
    recs = impl.split(" ; ")
    if impl != model:
        mr = model.split(" ; ")
        k = next((i for i, (a, b) in enumerate(zip(recs, mr)) if a != b), min(len(recs), len(mr)))
        a = recs[k] if k < len(recs) else "<missing>"
        b = mr[k] if k < len(mr) else "<missing>"
        fa, fb = a.split(" "), b.split(" ")
        diff = [x.split("=")[0] for x, y in zip(fa, fb) if x != y][:6]
        pre = " ".join(ops.split()[:k])
        ctx.violation(f"model and implementation disagree after op {k} from `{fen}` in fields {diff}: impl `{a[:200]}` model `{b[:200]}`",
                      {"kind": "correspondence", "tie": "pos-histories", "variant": variant, "theorem": "Props.C02.makeMove_refines / unMake_make (model no longer describes position.cpp)",
                       "input": [f"pos run {fen} | {pre}"], "impl": a[:800], "model": b[:800]}, no_input=True)
        return
    if variant != "plain":
        return
    # coverage statistics (plain run only)
    prev = None
    maxq = [0, 0]
    for rc in recs:
        d = parse_record(rc)
        if d is None:
            stats["terminal_" + rc.split(" ")[0]] = stats.get("terminal_" + rc.split(" ")[0], 0) + 1
            continue
        stats["ops"] += 1
        op = d["op"]
        kind = "make" if op.startswith("m") else {"u": "takeback", "n": "null", "c": "copy", "start": "start"}[op]
        stats[kind] += 1
        bb = [int(x, 16) for x in d["bb"].split(",")]
        maxq[0] = max(maxq[0], popcount(bb[1])); maxq[1] = max(maxq[1], popcount(bb[7]))
        if d["ep"] != "-1": stats["ep_set"] += 1
        if int(d["hmc"]) >= 100: stats["hmc_ge_100"] += 1
        if d["ser"].endswith("out-of-range"): stats["ser_out_of_range"] += 1
        if int(d["mid"]) < 0: stats["matid_negative_as_int"] += 1
        if kind == "make" and prev is not None:
            n0 = popcount(int(prev["w"], 16) | int(prev["b"], 16)); n1 = popcount(int(d["w"], 16) | int(d["b"], 16))
            uci = op[1:]
            tgt = (ord(uci[2]) - 97) + 8 * (ord(uci[3]) - 49)
            if n1 < n0:
                stats["captures"] += 1
                if prev["ep"] == str(tgt): stats["ep_captures"] += 1
            if len(uci) == 5: stats["promotions"] += 1
            pk = [int(x, 16) for x in prev["bb"].split(",")]
            frm = (ord(uci[0]) - 97) + 8 * (ord(uci[1]) - 49)
            if ((pk[0] | pk[6]) >> frm) & 1 and abs(tgt - frm) == 2: stats["castlings"] += 1
        prev = d
    stats["max_queens_one_side"] = max(stats["max_queens_one_side"], maxq[0], maxq[1])
    if max(maxq) >= 6: stats["histories_ge6_queens"] += 1
    if max(maxq) >= 9: stats["histories_9_queens"] += 1
    ctx.distinct(hash((fen, ops)))


def run_histories(ctx, hist, init, variant, stats, workers, env=None, model_cache=None):
    """model_cache: dict line -> model output; filled by the first (plain) pass and reused by the sanitizer pass"""
    vh = harness(vlib.cxx_build(variant, ("vharness",)))
    drv = vlib.driver_bin()
    chunk = 40
    parts = [hist[i:i + chunk] for i in range(0, len(hist), chunk)]
    if model_cache is None: model_cache = {}

    def work(part):
        lines = [f"pos run {f} | {o}" for f, o, _ in part]
        a = run_chunk(vh, init, lines, env)
        if all(l in model_cache for l in lines):
            b = (0, ["ok"] + [model_cache[l] for l in lines], "")
        else:
            b = run_chunk(drv, init, lines)
            if b[0] == 0 and len(b[1]) == len(lines) + 1:
                for l, o in zip(lines, b[1][1:]): model_cache[l] = o
        return part, lines, a, b

    nviol = 0
    with cf.ThreadPoolExecutor(workers) as ex:
        for part, lines, (rc1, o1, e1), (rc2, o2, e2) in ex.map(work, parts):
            if rc2 != 0 or len(o2) != len(lines) + 1:
                ctx.violation(f"Lean driver died (rc={rc2})", {"kind": "model-crash", "stderr": e2[-500:]}, no_input=True)
                return
            if rc1 != 0 or len(o1) != len(lines) + 1:
                k = max(0, min(len(o1) - 1, len(lines) - 1))
                san = re.search(r"runtime error: [^\n]*|ERROR: AddressSanitizer[^\n]*", e1)
                ctx.violation(f"implementation aborted on a history [{variant}] (rc={rc1}): {(san.group(0) if san else e1[-200:])[:200]}",
                              {"kind": "impl-crash", "variant": variant, "rc": rc1, "stderr": e1[-1500:], "input": [lines[k]]})
                nviol += 1
                if nviol > 3: return
                continue
            if o1[0] != "ok" or o2[0] != "ok":
                ctx.violation(f"table hand-over failed: impl `{o1[0]}` model `{o2[0]}`", {"kind": "correspondence", "tie": "zobrist-tables"}, no_input=True)
                return
            for (fen, ops, mode), a, b in zip(part, o1[1:], o2[1:]):
                ctx.count(len(a.split(" ; ")))
                analyse(ctx, fen, ops, a, b, variant, stats)
                if len(ctx.violations) > 8: return
    ctx.tie(f"pos-histories-{variant}", kind="differential, every field after every op + from-scratch recomputation + saved-copy comparison + FEN/serialise round trips",
            histories=len(hist), variant=variant)


def posguard_searches(ctx, quick):
    import uci
    bdir = vlib.cxx_build("plain", ("texel", "mknet"))
    vlib.net_file(bdir, "material", 1)
    fens = [f for f in chessgen.games(ctx, 20 if quick else 400, 120) if 12 <= sum(c.isalpha() for c in f.split()[0]) <= 30]
    ctx.rng.shuffle(fens)
    fens = fens[:150 if quick else 6000]
    nw = 6 if quick else 12

    def job(chunk):
        e = uci.Engine("plain", "material", 1, env={"TEXEL_VERIF_POSGUARD": "1"})
        hits = []
        try:
            e.handshake()
            for f in chunk:
                go = f"go nodes {60000 if quick else 150000}"
                out = e.go(f"position fen {f}", go, timeout=300)
                bad = [l for l in out if "verif posguard" in l]
                if bad: hits.append((f, go, bad[0]))
            e.quit()
        except (uci.EngineDied, TimeoutError) as ex:
            hits.append((chunk[0] if chunk else None, "engine failure", str(ex)[:200]))
        finally:
            e.kill()
        return hits
    with cf.ThreadPoolExecutor(nw) as ex:
        res = [h for hs in ex.map(job, [fens[i::nw] for i in range(nw)]) for h in hs]
    ctx.count(len(fens))
    ctx.tie("search-restores-position", kind="real searches with the TEXEL_VERIF_POSGUARD hook: every negaScout / quiesce node compares the position on exit with the one it found", searches=len(fens))
    for f, go, line in res[:3]:
        ctx.violation(f"a search node did not restore the position (`{go}` on `{f}`): {line[:200]}", {"kind": "property-predicate", "input": [f"position fen {f}", go], "report": line})


def run(ctx):
    quick = ctx.tier == "quick"
    bdir = vlib.cxx_build("plain", ("vharness", "mknet"))
    vh = harness(bdir)
    vlib.cxx_build("asan", ("vharness",))
    workers = max(2, min(vlib.NCPU, 8 if quick else 14))
    if ctx.replay:
        rp = ctx.replay["replay"]
        vlib.lake_build(["driver"])
        rc, t, _ = vlib.run_lines(vh, ["pos tables"])
        init = "pos init " + t[0]
        variant = rp.get("variant", "plain")
        vhx = harness(vlib.cxx_build(variant if variant in vlib.VARIANTS else "plain", ("vharness",)))
        env = {"TEXEL_VERIF_NET": vlib.net_file(bdir)}
        ctx.count(len(rp.get("input", []))); ctx.distinct("r1"); ctx.distinct("r2")
        for line in rp.get("input", []):
            rc1, o1, e1 = vlib.run_lines(vhx, [init, line], env)
            rc2, o2, e2 = vlib.run_lines(vlib.driver_bin(), [init, line])
            a = o1[1] if len(o1) > 1 else f"<died rc={rc1}> {e1[-300:]}"
            b = o2[1] if len(o2) > 1 else "<died>"
            print(line[:200], "\n  impl :", a[-700:], "\n  model:", b[-700:])
            if rc1 != 0 or "MISMATCH" in a or "rt=err" in a or (a != b and not line.startswith("pos mscore")):
                ctx.violation("replay: still failing", rp, no_input=rp.get("kind") == "correspondence")
        return
    vlib.lean_obligations(ctx)
    ctx.assumptions += [
        "pieces of the essential state are Chess.Pos (board, side, castling mask, e.p. square, counters as Nat); pieceTypeBB_[EMPTY] and the NNEvaluator notifications are outside the model",
        "moves in the theorems are the pseudo-legal moves of lean/TexelVerif/Chess/Spec.lean (superset of the legal moves); histories in the tie use legal moves only",
        "unsigned-to-int conversion of the material id is two's complement (implementation-defined before C++20, not undefined)"]
    source_tie(ctx)
    rc, t, _ = vlib.run_lines(vh, ["pos tables"])
    if rc != 0 or not t or " " not in t[0]:
        ctx.violation(f"cannot dump the Zobrist tables: {t[:1]}", {"kind": "correspondence", "tie": "zobrist-tables"}, no_input=True); return
    init = "pos init " + t[0]
    # tables used by makeMove: epMaskW/B, castleSqMask vs the model's formulas / Spec.castleKeep
    o1, o2, mis = vlib.diff_lines(ctx, "ep-and-castle-masks", [init, "pos masks", "pos matw"])
    ctx.count(3)
    if mis is not None:
        ctx.violation(f"epMask / castleSqMask table differs from the model: impl `{o1[mis][:200]}` model `{o2[mis][:200]}`",
                      {"kind": "correspondence", "tie": "ep-and-castle-masks", "theorem": "Props.C02.makeMove_refines (castleKeep, epMaskW/B) / matWeights_eq", "input": ["pos masks", "pos matw"]}, no_input=True)
    # histories
    n = 2000 if quick else 40000
    stats = {k: 0 for k in ("ops", "start", "make", "takeback", "null", "copy", "captures", "ep_captures", "promotions", "castlings", "ep_set",
                            "hmc_ge_100", "ser_out_of_range", "matid_negative_as_int", "max_queens_one_side", "histories_ge6_queens", "histories_9_queens")}
    batch = 2000 if quick else 10000
    done = 0
    while done < n and len(ctx.violations) == 0:
        k = min(batch, n - done)
        hist = gen_histories(ctx, vh, k, quick)
        hist += [(f, "", 1) for f in WITNESS_FENS] if done == 0 else []
        cache = {}
        run_histories(ctx, hist, init, "plain", stats, workers, model_cache=cache)
        if ctx.violations: break
        # ASan + UBSan build: all histories in quick; promotion-heavy + every 4th otherwise
        san = hist if quick else [h for i, h in enumerate(hist) if h[2] == 1 or i % 4 == 0]
        run_histories(ctx, san, init, "asan", stats, workers, model_cache=cache)
        done += k
        ctx.log(f"{done}/{n} histories, {stats['ops']} ops, max queens {stats['max_queens_one_side']}")
    ctx.cov["history_stats"] = stats
    # users of the material id (hash-table index, endgame dispatch) on heavy material: UB probe on the sanitizer build
    env = {"TEXEL_VERIF_NET": vlib.net_file(bdir)}
    probes = [f"pos mscore {f}" for f in WITNESS_FENS + PROMO_FENS + chessgen.SEED_FENS[:6]]
    ra = vlib.run_lines(harness(os.path.join(vlib.BUILD, "asan")), probes, env)
    rb = vlib.run_lines(vh, probes, env)
    ctx.count(len(probes))
    ctx.tie("material-id-users", kind="UBSan probe of Evaluate::materialScore / endgame dispatch on many-queen material; plain and sanitizer builds must agree", probes=len(probes))
    if ra[0] != 0 or len(ra[1]) != len(probes):
        k = min(len(ra[1]), len(probes) - 1)
        san = re.search(r"runtime error: [^\n]*", ra[2])
        ctx.violation(f"undefined behaviour in a user of the material id on `{probes[k]}`: {(san.group(0) if san else ra[2][-200:])[:200]}",
                      {"kind": "impl-crash", "variant": "asan", "input": [probes[k]], "stderr": ra[2][-1200:]})
    elif ra[1] != rb[1]:
        k = next(i for i, (a, b) in enumerate(zip(ra[1], rb[1])) if a != b)
        ctx.violation(f"material score differs between plain and sanitizer build on `{probes[k]}`: {rb[1][k]} vs {ra[1][k]}",
                      {"kind": "property-predicate", "input": [probes[k]]})
    # the make / unmake / null-move sequences the real search performs: every search node must leave the position as it
    # found it (TEXEL_VERIF_POSGUARD hook in negaScout and quiesce); any report is a failing input
    posguard_searches(ctx, quick)
    # generator coverage: the quantifier of the property must actually be exercised
    need = {"takeback": 1, "null": 1, "copy": 1, "captures": 1, "ep_captures": 1, "promotions": 1, "castlings": 1, "histories_ge6_queens": 1,
            "histories_9_queens": 1}
    if not ctx.violations:
        missing = [k for k, v in need.items() if stats[k] < v]
        if missing:
            ctx.violation(f"generator coverage hole: no history exercised {missing}", {"kind": "coverage", "stats": stats}, no_input=True)
    ctx.sample({"history_stats": stats})
    ctx.cov["rule"] = ("histories = `pos run <fen> | ops` with start positions as in C01 (initial, seeded FENs, reader-accepted synthetic motif placements, positions of random games, "
                       "pawn-heavy promotion set-ups) and ops from a seeded generator (random legal moves biased to captures/promotions/castling/e.p., forced take-back segments, "
                       "null-move edits when not in check, copies; promotion-heavy mode reaching 9 queens per side) + malformed/illegal streams; evaluations = op records compared; "
                       "distinct = distinct (start, ops) histories; every record: all fields vs model, from-scratch recomputation, saved-copy comparison after take-back, FEN and serialise round trips; "
                       "plain and ASan+UBSan builds")
    if not quick:
        vlib.leanchecker(ctx, ["TexelVerif.Props.C02"])
