"""C14 — Clear Hash makes the next search identical to a fresh start.
Lean: Props/C14.lean (clear resets the table state; generation relabelling / generation-zero witness on the TT model).
Tie: two real engine processes (Threads 1, synthetic net): A fresh, B after an arbitrary prior session + Clear Hash;
the complete output of the same depth/node-limited probe search must be identical (minus time/nps), and A run twice too."""
import concurrent.futures as cf
import vlib, uci, chessgen


def canon(lines):
    """search output without wall-clock dependent fields"""
    out = []
    last_stats = max((i for i, l in enumerate(lines) if l.startswith("info nodes")), default=-1)
    for i, l in enumerate(lines):
        if l.startswith("info currmove") or l.startswith("info string"):
            continue
        if l.startswith("info nodes") and i != last_stats:
            continue        # periodic statistics lines are wall-clock driven; the final one carries the node count
        t = l.split()
        r, i = [], 0
        while i < len(t):
            if t[i] in ("time", "nps") and i + 1 < len(t):
                i += 2; continue
            r.append(t[i]); i += 1
        out.append(" ".join(r))
    return out


TB_ROOTS = ["8/8/8/4k3/8/8/3QK3/8 w - - 0 1", "8/8/8/4k3/8/8/3RK3/8 b - - 0 1", "8/8/8/4k3/8/8/3QK3/7r w - - 0 1", "8/8/2b5/4k3/8/8/3QK3/8 w - - 0 1"]


def with_clock(fen, hmc):
    t = fen.split(); t[4] = str(hmc); return " ".join(t)


def prior_session(rng, fens, n_go, probe_fens=(), block_last=False):
    """list of UCI commands forming a prior session with exactly n_go searches, every changed option reverted at the end"""
    cmds, revert = [], {}
    defaults = {"MultiPV": 1, "UseNullMove": "true", "Contempt": 0, "UCI_AnalyseMode": "false", "Hash": 8, "Strength": 1000, "Threads": 1, "AnalysisAgeHash": "true"}
    changed = {"MultiPV": [2, 3], "UseNullMove": ["false"], "Contempt": [-50, 30, 40], "UCI_AnalyseMode": ["true"], "Hash": [1, 16], "Threads": [2], "AnalysisAgeHash": ["false"]}
    done = 0
    while done < n_go:
        x = rng.random()
        if x < 0.07 and probe_fens:
            done += option_block(rng, cmds, probe_fens, changed, defaults, False); continue
        if x < 0.08:
            cmds.append(("cmd", "ucinewgame"))
        elif x < 0.2:
            k = rng.choice(list(defaults))
            v = {"MultiPV": rng.choice([2, 3]), "UseNullMove": "false", "Contempt": rng.choice([-50, 30]), "UCI_AnalyseMode": "true",
                 "Hash": rng.choice([1, 16]), "Strength": rng.choice([300, 900]), "Threads": 2, "AnalysisAgeHash": "false"}[k]
            cmds.append(("cmd", f"setoption name {k} value {v}")); revert[k] = defaults[k]
        elif x < 0.26 and revert:
            k = rng.choice(list(revert)); cmds.append(("cmd", f"setoption name {k} value {revert.pop(k)}"))
        else:
            fen = rng.choice(fens)
            z = rng.random()
            if z < 0.25 and probe_fens:      # the probe's own board at other half-move clocks: exercises caches keyed coarser than the clock
                hm = rng.choice([rng.randrange(31, 40), rng.randrange(31, 40), rng.randrange(40, 80), rng.randrange(0, 30), rng.randrange(80, 99)])
                cmds.append(("go", with_clock(rng.choice(probe_fens), hm), f"go nodes {rng.choice([20000, 60000])}")); done += 1; continue   # node limit: depth limits explode when Strength is reduced
            elif z < 0.33:                   # pawnless <=4-man root + unlimited search: builds the on-demand tablebase inside the hash table
                cmds.append(("go", rng.choice(TB_ROOTS), "go infinite")); done += 1; continue
            y = rng.random()
            if y < 0.6: go = f"go depth {rng.randrange(1, 5)}"
            elif y < 0.8: go = f"go nodes {rng.choice([1, 50, 1000])}"
            elif y < 0.9: go = f"go movetime {rng.choice([1, 10])}"
            else: go = "go infinite"
            cmds.append(("go", fen, go)); done += 1
    for k, v in revert.items():
        cmds.append(("cmd", f"setoption name {k} value {v}"))
    if block_last and probe_fens:
        # the last thing before the final Clear Hash: an analysis block after a clear (nothing but non-ageing searches since that clear)
        option_block(rng, cmds, probe_fens, changed, defaults, True)
    return cmds


def option_block(rng, cmds, probe_fens, changed, defaults, analysis):
    """a combination of options, optionally a clear, some node-limited / infinite searches on the probe's own boards under that combination
    (analysis searches that do not age the table, contempt that enters cached values, ...), then everything reverted; returns the number of searches"""
    ks = ["AnalysisAgeHash", "UCI_AnalyseMode"] if analysis or rng.random() < 0.4 else rng.sample(list(changed), rng.randrange(1, 4))
    for k in ks: cmds.append(("cmd", f"setoption name {k} value {rng.choice(changed[k])}"))
    if analysis or rng.random() < 0.7: cmds.append(("cmd", rng.choice(["setoption name Clear Hash", "ucinewgame"])))
    n = rng.randrange(1, 4)
    for _ in range(n):
        cmds.append(("go", rng.choice(probe_fens), rng.choice(["go nodes 20000", "go nodes 60000", "go infinite"])))
    for k in ks: cmds.append(("cmd", f"setoption name {k} value {defaults[k]}"))
    return n


def run_session(args):
    prior, probes = args
    probe_set = {p[0] for p in probes}
    eng = uci.Engine("plain", "material", 1)
    res = {"probes": [], "error": None}
    try:
        eng.handshake()
        eng.setoption("Hash", 8)
        for c in prior:
            if c[0] == "cmd":
                eng.send(c[1])
            else:
                eng.go(f"position fen {c[1]}", c[2], timeout=120, stop_after=(0.6 if c[1] in TB_ROOTS else 0.3 if c[1] in probe_set else 0.02) if "infinite" in c[2] else None)
        if prior:
            eng.send("setoption name Clear Hash")
        eng.isready()
        for fen, go in probes:
            out = eng.go(f"position fen {fen}", go, timeout=300)
            res["probes"].append(canon(out))
            eng.send("setoption name Clear Hash"); eng.isready()
        eng.quit()
    except (uci.EngineDied, TimeoutError) as e:
        res["error"] = str(e)[:300]
    finally:
        eng.kill()
    return res


def run(ctx):
    quick = ctx.tier == "quick"
    r = ctx.rng
    vlib.lean_obligations(ctx)
    ctx.assumptions += ["determinism of the real search at Threads=1 with depth/node limits is observed (A is run twice), not proved",
                        "synthetic evaluation network", "state that Clear Hash deliberately keeps (option values, eval/material caches) is transparent by C07"]
    fens = [f for f in chessgen.games(ctx, 12, 80) if f] + chessgen.SEED_FENS
    if ctx.replay:
        rp = ctx.replay["replay"]
        a = run_session(([], [tuple(rp["probe"])])); b = run_session(([tuple(x) for x in rp["prior"]], [tuple(rp["probe"])]))
        print("fresh:", a["probes"][0][-3:] if a["probes"] else a); print("after:", b["probes"][0][-3:] if b["probes"] else b)
        ctx.count(2); ctx.distinct("a"); ctx.distinct("b")
        if a["probes"] != b["probes"]:
            ctx.violation("replay: outputs still differ", rp)
        return
    nsess = 14 if quick else 40
    lengths = [15, 31, 47, 1, 2, 14, 16, 30, 32] + [r.randrange(1, 41) for _ in range(nsess)]
    lengths = lengths[:nsess]
    probes = []
    for _ in range(2 if quick else 3):
        fen = r.choice(fens)
        go = f"go depth {r.randrange(6, 9 if quick else 10)}" if r.random() < 0.7 else f"go nodes {r.choice([20000, 100000])}"
        probes.append((fen, go))
    # one heavy probe: enough nodes for the replacement scheme (hence the used table size / index mapping) to matter at Hash 8
    probes.append((r.choice(chessgen.SEED_FENS[1:11]), f"go nodes {400000 if quick else 800000}"))
    nfresh = 2 * len(probes)          # every probe twice, each in its own freshly started process
    jobs = [([], [p]) for p in probes for _ in range(2)] + [(prior_session(r, fens, n, [p[0] for p in probes], block_last=(i % 3 == 1)), probes) for i, n in enumerate(lengths)]
    with cf.ThreadPoolExecutor(max(2, vlib.NCPU // 2)) as ex:
        res = list(ex.map(run_session, jobs))
    err = next((x["error"] for x in res[:nfresh] if x["error"]), None)
    if err:
        ctx.violation(f"fresh engine failed: {err}", {"kind": "engine-failure", "probes": probes}); return
    fresh = {"probes": [res[2 * i]["probes"][0] for i in range(len(probes))]}
    fresh2 = {"probes": [res[2 * i + 1]["probes"][0] for i in range(len(probes))]}
    res = [None, None] + res[nfresh:]
    jobs = [None, None] + jobs[nfresh:]
    ctx.count(nfresh)
    if fresh["probes"] != fresh2["probes"]:
        ctx.violation("the same command in a fresh engine gave two different results (non-determinism at Threads=1)",
                      {"kind": "property-predicate", "probes": probes, "a": fresh["probes"], "b": fresh2["probes"]})
        return
    ctx.sample({"probe": probes[0], "fresh_tail": fresh["probes"][0][-2:]})
    ndiff = 0
    for (prior, _), rs, n in zip(jobs[2:], res[2:], lengths):
        ctx.count(); ctx.distinct(str(prior))
        if rs["error"]:
            ctx.violation(f"engine failed in a prior session: {rs['error']}", {"kind": "engine-failure", "prior": prior, "probes": probes}); continue
        for pi, (pa, pb) in enumerate(zip(fresh["probes"], rs["probes"])):
            if pa != pb:
                ndiff += 1
                k = next((i for i, (x, y) in enumerate(zip(pa, pb)) if x != y), min(len(pa), len(pb)))
                if ndiff <= 3:
                    ctx.violation(f"after a prior session with {n} searches and Clear Hash, `{probes[pi][1]}` on `{probes[pi][0]}` differs from a fresh engine "
                                  f"(first difference: fresh `{pa[k] if k < len(pa) else None}` vs `{pb[k] if k < len(pb) else None}`)",
                                  {"kind": "property-predicate", "prior": prior, "prior_searches": n, "probe": probes[pi],
                                   "fresh": pa[-3:], "after_clear": pb[-3:], "finding_id": None})
                break
    ctx.cov["sessions"] = {"prior_lengths": lengths, "probes": probes, "differing_sessions": ndiff}
    ctx.tie("two-process-equality", kind="complete canonical UCI output of the probe search: fresh engine vs prior session + Clear Hash", sessions=len(lengths))
    ctx.cov["rule"] = ("prior sessions of 1..40 searches (always incl. lengths 15, 31, 47 = generation wrap, and 1, 2, 14, 16, 30, 32) of all limit kinds on unrelated positions, ucinewgame, "
                       "option changes that are reverted (Hash, Threads, MultiPV, UseNullMove, Contempt, Strength, UCI_AnalyseMode, AnalysisAgeHash) then Clear Hash; probe = go depth 6..11 / go nodes n; distinct = distinct prior sessions")
    if not quick:
        vlib.leanchecker(ctx, ["TexelVerif.Props.C14"])
