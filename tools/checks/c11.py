"""C11 — draws by repetition and the 50-move rule are recognised.
Lean: Props/C11.lean (declarative spec of the repetition scan, history builder, third occurrence at ply 1, window lemma
on the chess specification, 50-move prologue with the mate-first exception, console Game model against rule-level
definitions, ComputerPlayer claims).
Tie: (a) `canClaimDrawRep` / `canClaimDraw50` regenerated from search.hpp by the translator and proved equal to the hand
model (Bridge/Draw.lean) + differential of the real static function on random and boundary tuples; (b) the real
`EngineControl::setupPosition` against the model of the history builder; (c) the real texel binary: `go depth d searchmoves m`
on histories with repetitions / clocks around 100 must report `cp 0` (or the mate), decided by the Lean rule-level oracle;
(d) `Game::processString` / `ComputerPlayer::canClaimDraw` scripts against the Lean Game model, with rule-level predicates
evaluated on the implementation's own answers."""
import os, re, concurrent.futures as cf
import vlib, uci, chessgen, xlate

START = chessgen.START
FID_EP = "c11-uci-history-ep-flag"
FILES = "abcdefgh"


# ---------------------------------------------------------------------------------------------
# helpers
# ---------------------------------------------------------------------------------------------

def harness_env():
    bdir = vlib.cxx_build("plain", ("vharness", "texel", "mknet"))
    return bdir, {"TEXEL_VERIF_NET": vlib.net_file(bdir, "material", 1)}


def prun(binary, lines, env=None, nproc=None, chunk=400):
    """run lines through a line-protocol binary in parallel chunks (every line is an independent session)"""
    if not lines: return []
    nproc = nproc or max(2, min(8, vlib.NCPU // 2))
    chunks = [lines[i:i + chunk] for i in range(0, len(lines), chunk)]
    def one(c, crashes=0):
        if crashes >= 2:
            return ["<skipped: the process crashed on earlier lines of this chunk>"] * len(c)
        rc, out, err = vlib.run_lines(binary, c, env)
        if rc == 0 and len(out) == len(c):
            return out
        # the process died: its buffered output is lost, so find the culprit by running the lines one at a time
        res = []
        for i, l in enumerate(c):
            rc1, o1, e1 = vlib.run_lines(binary, [l], env)
            if rc1 != 0 or len(o1) != 1:
                res.append(f"<died rc={rc1}: {e1[-200:].strip()}>")
                rest = c[i + 1:]
                return res + (one(rest, crashes + 1) if rest else [])
            res.append(o1[0])
        return res
    with cf.ThreadPoolExecutor(nproc) as ex:
        return [o for outs in ex.map(one, chunks) for o in outs]


def pdiff(ctx, name, lines, env):
    bdir, _ = harness_env()
    o1 = prun(os.path.join(bdir, "vharness"), lines, env)
    o2 = prun(vlib.driver_bin(), lines)
    ctx.tie(name, kind="differential (C++ harness vs compiled Lean model, same input lines, every line an independent session)", lines=len(lines))
    ctx.count(len(lines))
    died = [i for i, o in enumerate(o1) if o.startswith("<died")]
    for i in died[:2]:
        ctx.violation(f"{name}: the implementation harness crashed on `{lines[i][:160]}` ({o1[i]})",
                      {"kind": "impl-crash", "tie": name, "input": [lines[i]], "impl_output": o1[i]})
    if any(o.startswith("<died") for o in o2):
        i = next(i for i, o in enumerate(o2) if o.startswith("<died"))
        ctx.violation(f"{name}: the Lean driver died on `{lines[i][:160]}`", {"kind": "model-crash", "tie": name, "input": [lines[i]]}, no_input=True)
    return o1, o2


def usable(a, b):
    return not a.startswith("<") and not b.startswith("<")


def oracle(lines):
    return prun(vlib.driver_bin(), lines)


def kv(line):
    return dict(t.split("=", 1) for t in line.split() if "=" in t)


def set_hmc(fen, hmc):
    t = fen.split()
    t[4] = str(hmc)
    return " ".join(t)


# ---------------------------------------------------------------------------------------------
# (a) the scan kernel
# ---------------------------------------------------------------------------------------------

def scan_spec(size, hmc, first_new, h, hs):
    """rep_scan_spec, evaluated directly"""
    lo = max(0, size - hmc)
    m = [i for i in range(lo, size - 3) if (size - i) % 2 == 0 and hs[i] == h]
    return any(i >= first_new for i in m) or len(m) >= 2


def malloc_header(n):
    """glibc chunk header in front of a `reserve(n)`-ed vector<U64>: a scan that runs below index 0 reads it"""
    return max(32, (8 * n + 8 + 15) & ~15) | 1


def gen_scan(ctx, quick):
    r = ctx.rng
    cases = []
    H = 0x9d39247e33776d41
    pool = [H, H ^ 1, 0, (1 << 64) - 1, 0x123456789abcdef0, 7]
    # boundary grid: every small size / clock / firstNew, several occupancy patterns
    for size in range(0, 11):
        for hmc in list(range(-1, size + 3)) + [100]:
            for fn in range(-1, size + 2):
                for _ in range(2 if quick else 12):
                    p = r.choice([0.15, 0.4, 0.8])
                    hs = [H if r.random() < p else r.choice(pool[1:]) for _ in range(size + r.choice([0, 0, 2]))]
                    cases.append((size, hmc, fn, H, hs))
    # random tuples, all lengths up to beyond 100, clocks around the list length and around 100
    for _ in range(120000 if quick else 900000):
        size = r.choice([r.randrange(0, 16), r.randrange(0, 140), r.choice([98, 99, 100, 101, 102, 103, 104])])
        n = size + r.choice([0, 0, 1, 4, 400])
        p = r.choice([0.02, 0.1, 0.3])
        hs = [H if r.random() < p else r.choice(pool[1:]) for _ in range(n)]
        hmc = r.choice([r.randrange(0, size + 4), size, size - 1, size + 1, 0, 1, 2, 3, 4, 99, 100, 101, r.randrange(0, 250), -3, 2147483647])
        fn = r.choice([size, size + 1, size - 1, size - 3, size - 4, size - 5, 0, r.randrange(0, size + 2), -1, 2147483647])
        cases.append((size, hmc, fn, H, hs))
    # scans that would run below index 0 if `stop` were not clamped at 0: make a match there visible
    for n in range(1, 40 if quick else 200):
        for size in (n, n - 1):
            if size < 0: continue
            h = malloc_header(n)
            hs = [H] * n
            cases.append((size, size + r.choice([1, 2, 5, 1000]), -5, h, hs))
    lines = [f"draw scan {s} {c} {f} {hex(h)} " + " ".join(hex(x) for x in hs) for (s, c, f, h, hs) in cases]
    lines += ["draw scan 3 1 1 0x1 0x1 0x1", "draw scan 1 1", "draw scan x 1 1 1", "draw scan 2147483648 1 1 1", "draw scan 1 1 1 0x10000000000000000 1",
              "draw scan -1 5 0 0x1", "draw scan 0 0 0 0x1", "draw scan 4 4 0 0x1 0x1 0x1 0x1 0x1"]
    return cases, lines


def check_scan(ctx, quick, env):
    cases, lines = gen_scan(ctx, quick)
    o1, o2 = pdiff(ctx, "scan-kernel", lines, env)
    nbad = 0
    for i, (s, c, f, h, hs) in enumerate(cases):
        ctx.distinct(("scan", s, c, f, sum(1 for x in hs[:max(s, 0)] if x == h)))
        exp = "1" if scan_spec(s, c, f, h, hs) else "0"
        if o1[i].startswith("<"): continue          # crashes are reported by pdiff
        if o1[i] != exp and nbad < 3:
            nbad += 1
            ctx.violation(f"Search::canClaimDrawRep(size={s}, hmc={c}, firstNew={f}) returned {o1[i]}, the window specification (rep_scan_spec) gives {exp}",
                          {"kind": "property-predicate", "tie": "scan-kernel", "input": [lines[i]], "impl_output": o1[i], "expected": exp})
    ctx.sample({"op": lines[0][:80], "impl": o1[0]})
    if not quick:
        # the same tuples under ASan + UBSan: an out-of-range read of posHashList is reported instead of going unnoticed
        bda = vlib.cxx_build("asan", ("vharness",))
        e2 = dict(env); e2.update({"ASAN_OPTIONS": "detect_leaks=0:abort_on_error=0:exitcode=66", "UBSAN_OPTIONS": "halt_on_error=1:exitcode=66"})
        sub = lines[:len(cases)][:250000]
        oa = prun(os.path.join(bda, "vharness"), sub, e2)
        ctx.tie("scan-kernel-asan", kind="the scan tuples through the ASan+UBSan build of the harness, compared with rep_scan_spec", lines=len(sub))
        for i, o in enumerate(oa):
            s_, c_, f_, h_, hs_ = cases[i]
            if o.startswith("<skipped"): continue
            if o != ("1" if scan_spec(s_, c_, f_, h_, hs_) else "0"):
                ctx.violation(f"Search::canClaimDrawRep(size={s_}, hmc={c_}, firstNew={f_}) under ASan/UBSan: {o[:300]}",
                              {"kind": "property-predicate", "tie": "scan-kernel", "variant": "asan", "input": [sub[i]], "impl_output": o}); break
    if not nbad:
        for i, (a, b) in enumerate(zip(o1, o2)):
            if a != b and usable(a, b):
                ctx.violation(f"scan-kernel: model and implementation disagree on `{lines[i][:120]}`: impl `{a}` model `{b}`",
                              {"kind": "correspondence", "tie": "scan-kernel", "theorem_scope": "Rep.canClaimDrawRep (Draw/RepScan.lean) no longer corresponds to Search::canClaimDrawRep",
                               "input": [lines[i]], "impl": a, "model": b}, no_input=True)
                break


# ---------------------------------------------------------------------------------------------
# generators of games with repetitions
# ---------------------------------------------------------------------------------------------

def ep_pin_family(rng):
    """a double push beside an enemy pawn that cannot capture en passant because it is pinned
    (on its file, on a diagonal, or together with the pushed pawn on the rank); returns (fen, double push)"""
    kind = rng.choice(["file", "diag", "rank", "diag", "rank", "free"])
    for _ in range(400):
        board = [None] * 64
        white = rng.random() < 0.5                     # the side that pushes
        P, p, K, k = ("P", "p", "K", "k") if white else ("p", "P", "k", "K")
        R, Q, B = ("R", "Q", "B") if white else ("r", "q", "b")
        y0, y1 = (1, 3) if white else (6, 4)           # pushing pawn from rank y0 to y1
        x = rng.randrange(8)
        side = rng.choice([-1, 1])
        xe = x + side
        if not 0 <= xe < 8: continue
        board[y0 * 8 + x] = P
        board[y1 * 8 + xe] = p                          # enemy pawn beside the target square
        dy = 1 if white else -1                         # direction towards the enemy's home side
        ok = True
        def put(sq, pc):
            nonlocal ok
            if not (0 <= sq < 64) or board[sq] is not None: ok = False
            else: board[sq] = pc
        if kind == "file":
            # enemy king behind its pawn on the file, our rook/queen in front of it on the same file
            ky = rng.choice([yy for yy in range(8) if (yy - y1) * dy > 0])
            sy = rng.choice([yy for yy in range(8) if (yy - y1) * dy < 0])
            put(ky * 8 + xe, k); put(sy * 8 + xe, rng.choice([R, Q]))
        elif kind == "diag":
            ddx = rng.choice([-1, 1])
            n1, n2 = rng.randrange(1, 4), rng.randrange(1, 4)
            kx, ky = xe + ddx * n1, y1 + dy * n1
            bx, by = xe - ddx * n2, y1 - dy * n2
            if not (0 <= kx < 8 and 0 <= ky < 8 and 0 <= bx < 8 and 0 <= by < 8): continue
            # the capture goes to (x, y1 - dy): it stays on the pin line only if that square is on the diagonal
            if (x - xe) == -ddx: continue
            put(ky * 8 + kx, k); put(by * 8 + bx, rng.choice([B, Q]))
        elif kind == "rank":
            lo, hi = min(x, xe), max(x, xe)
            left = list(range(0, lo)); right = list(range(hi + 1, 8))
            if not left or not right: continue
            kx, sx = (rng.choice(left), rng.choice(right)) if rng.random() < 0.5 else (rng.choice(right), rng.choice(left))
            put(y1 * 8 + kx, k); put(y1 * 8 + sx, rng.choice([R, Q]))
        else:
            put(rng.randrange(64), k)                   # capture legal: the first occurrence really is different
        if not ok: continue
        for _ in range(50):                             # own king somewhere quiet
            s = rng.randrange(64)
            if board[s] is None and s // 8 not in (y0, y1, y0 + dy): board[s] = K; break
        else: continue
        for _ in range(rng.randrange(0, 3)):            # a few extra pieces so that both sides can shuffle
            s = rng.randrange(64)
            if board[s] is None and s % 8 not in (x, xe) and s // 8 not in (y1,):
                board[s] = rng.choice("NBnb")
        mv = FILES[x] + str(y0 + 1) + FILES[x] + str(y1 + 1)
        return chessgen.board_to_fen(board, white, "-", "-", rng.choice([0, 0, 3]), 1), mv, kind
    return "3k4/8/8/8/3p4/8/4P3/3R2K1 w - - 0 1", "e2e4", "file"


CASTLE_FENS = ["r3k2r/pppq1ppp/2n2n2/3pp3/3PP3/2N2N2/PPPQ1PPP/R3K2R w KQkq - 0 1", "r3k2r/8/8/8/8/8/8/R3K2R w KQkq - 0 1",
               "r3k2r/p6p/8/8/8/8/P6P/R3K2R b KQkq - 4 1", "4k2r/8/8/8/8/8/8/R3K3 w Qk - 0 1", "r3k3/7p/8/8/8/8/P7/4K2R b Kq - 10 9"]
SPARSE = ["8/8/8/4k3/8/8/3QK3/8 w - - 0 1", "8/8/8/4k3/8/8/3RK3/8 b - - 0 1", "8/8/4k3/8/8/2B5/3K4/8 w - - 0 1", "8/8/4k3/8/8/2N5/3K4/5n2 w - - 0 1",
          "8/8/4k3/5b2/8/2B5/3K4/8 w - - 0 1", "8/8/4k3/4b3/8/2B5/3K4/8 w - - 0 1", "7k/5Q2/6K1/8/8/8/8/8 w - - 0 1", "7k/8/5KQ1/8/8/8/8/8 w - - 0 1",
          "k7/2K5/8/8/8/8/8/1R6 w - - 0 1", "8/8/8/8/8/5k2/4q3/7K b - - 0 1", "8/p7/8/8/8/8/5k1K/8 b - - 0 1", "5k2/8/8/8/8/8/r7/4K2R w K - 0 1",
          "8/8/4k3/8/1b1b4/2B5/3K4/8 w - - 0 1", "8/8/4k3/8/8/2NN4/3K4/8 w - - 0 1", "6k1/5ppp/8/8/8/8/r4PPP/1R4K1 b - - 0 1"]


def gen_games(ctx, specs, env):
    """specs: list of dict(fen, prefix, rev, cycles, tail, forced=[...]); returns list of dict(fen, moves, k0, k1, **spec)"""
    bdir, _ = harness_env()
    lines = [f"draw gen {ctx.rng.getrandbits(40)} {s['prefix']} {s['rev']} {s['cycles']} {s['tail']} {s['fen']} " + " ".join(s.get("forced", [])) for s in specs]
    outs = prun(os.path.join(bdir, "vharness"), lines, env)
    games = []
    for s, o in zip(specs, outs):
        m = re.match(r"^(\d+) (\d+) \|(.*)$", o)
        if not m: continue
        g = dict(s); g["k0"], g["k1"], g["moves"] = int(m.group(1)), int(m.group(2)), m.group(3).split()
        games.append(g)
    return games


def game_specs(ctx, quick, scale=1.0):
    r = ctx.rng
    n = lambda q, t: max(1, int((q if quick else t) * scale))
    specs = []
    seeds = [START] + chessgen.SEED_FENS + CASTLE_FENS
    for _ in range(n(110, 2200)):       # F1: random games, then cycles over random routes, short tail
        specs.append({"fam": "cycles", "fen": r.choice(seeds), "prefix": r.randrange(0, 40), "rev": r.choice([0, 30, 60]), "cycles": r.randrange(2, 5), "tail": r.randrange(0, 3)})
    for _ in range(n(40, 800)):       # F2: long histories with late zeroing moves (list longer than 100, cleared, refilled)
        specs.append({"fam": "long", "fen": r.choice([START] + chessgen.SEED_FENS[:6]), "prefix": r.randrange(85, 150), "rev": r.choice([60, 85, 95]), "cycles": r.randrange(2, 4), "tail": r.randrange(0, 2)})
    for _ in range(n(90, 2000)):       # F3: clocks around 100, by FEN and by played reversible moves
        f = r.choice(seeds + SPARSE)
        if r.random() < 0.6:
            specs.append({"fam": "clock-fen", "fen": set_hmc(f, r.randrange(88, 111)), "prefix": r.randrange(0, 14), "rev": 100, "cycles": r.choice([0, 0, 2]), "tail": 0})
        else:
            specs.append({"fam": "clock-played", "fen": set_hmc(f, r.choice([0, 0, 5, 40])), "prefix": r.randrange(92, 108), "rev": 100, "cycles": r.choice([0, 0, 2]), "tail": 0})
    for _ in range(n(120, 3000)):       # F4: double push beside a pinned / rank-pinned enemy pawn, then shuffles over random routes
        fen, mv, kind = ep_pin_family(r)
        specs.append({"fam": "ep-" + kind, "fen": fen, "prefix": 0, "rev": 100, "cycles": r.randrange(2, 5), "tail": 0, "forced": [mv]})
    specs.append({"fam": "ep-file", "fen": "3k4/8/8/8/3p4/8/4P3/3R2K1 w - - 0 1", "prefix": 0, "rev": 100, "cycles": 3, "tail": 0, "forced": ["e2e4"]})
    for _ in range(n(50, 1000)):       # F5: castling rights lost inside the first cycle
        specs.append({"fam": "castle", "fen": r.choice(CASTLE_FENS), "prefix": r.randrange(0, 3), "rev": 100, "cycles": r.randrange(2, 5), "tail": 0})
    return specs


# ---------------------------------------------------------------------------------------------
# (b) history builder
# ---------------------------------------------------------------------------------------------

def check_setup(ctx, games, env, quick):
    r = ctx.rng
    lines, meta = [], []
    for g in games:
        n = len(g["moves"])
        cuts = {n, g["k1"], max(0, g["k1"] - 1)} | {r.randrange(0, n + 1) for _ in range(2 if quick else 4)}
        for k in sorted(cuts):
            lines.append(f"draw setup {g['fen']} " + " ".join(g["moves"][:k])); meta.append((g, k))
    lines += ["draw setup 3k4/8/8/8/3p4/8/4P3/3R2K1 w - - 0 1 e2e4 d8d7 g1g2 d7d8 g2g1 d8e8 g1g2 e8d8",
              "draw setup " + START + " e2e4 e7e5 e1e3", "draw setup 8/8/8/8/8/8/8/8 w - - 0 1", "draw setup " + START]
    meta += [({"fam": "ep-file"}, 8), None, None, None]
    o1, o2 = pdiff(ctx, "history-builder", lines, env)
    fails = 0
    for i, (l, a, b) in enumerate(zip(lines, o1, o2)):
        if a.startswith("size="):
            d = kv(a)
            ctx.distinct(("setup", d["size"], meta[i][0]["fam"] if meta[i] else ""))
            if "?" in d["idx"] or int(d["size"]) > 100:
                fails += 1
                if fails <= 3:
                    ctx.violation(f"history_builder: EngineControl::setupPosition produced a list entry that is not the hash of the corresponding game position "
                                  f"(or more than 100 entries): `{a}` for `{l[:150]}`",
                                  {"kind": "property-predicate", "tie": "history-builder", "finding_id": FID_EP if "?" in d["idx"] else None, "input": [l], "impl_output": a, "model_output": b})
                continue
        if a != b and fails == 0 and usable(a, b):
            fails += 1
            fam = meta[i][0]["fam"] if meta[i] else ""
            ctx.violation(f"history-builder: model and implementation disagree on `{l[:150]}`: impl `{a}` model `{b}`",
                          {"kind": "correspondence", "tie": "history-builder", "theorem_scope": "Hist.setupPosition (Draw/History.lean) no longer corresponds to EngineControl::setupPosition",
                           "family": fam, "input": [l], "impl": a, "model": b}, no_input=True)
    ctx.sample({"op": lines[0][:100], "impl": o1[0][:100]})


# ---------------------------------------------------------------------------------------------
# (c) engine level
# ---------------------------------------------------------------------------------------------

REGRESSION_ENGINE = {"fam": "ep-file", "fen": "3k4/8/8/8/3p4/8/4P3/3R2K1 w - - 0 1", "hist": "e2e4 d8d7 g1g2 d7d8 g2g1 d8e8 g1g2 e8d8".split(), "m": "g2g1"}
REGRESSION_REDO = "setpos 3k4/8/8/8/3p4/8/4P3/3R2K1 w - - 0 1 ; mv e2e4 ; undo ; redo ; mv d8d7 ; mv g1g2 ; mv d7d8 ; mv g2g1 ; mv d8e8 ; mv g1g2 ; mv e8d8 ; rep g2g1"


def engine_cases(ctx, games, quick):
    """(fen, history, move) candidates: every cut inside / right after the cycle region, and clock crossings"""
    r = ctx.rng
    cands = [dict(REGRESSION_ENGINE)]
    for g in games:
        n = len(g["moves"])
        ks = set()
        if g["k1"] > g["k0"]:
            ks |= set(range(min(g["k0"] + 3, n - 1), min(g["k1"] + 2, n)))
        if g["fam"].startswith("clock"):
            ks |= set(range(0, n))
        for k in ks:
            if 0 <= k < n:
                cands.append({"fam": g["fam"], "fen": g["fen"], "hist": g["moves"][:k], "m": g["moves"][k]})
    return cands


def mate_first_cases(ctx, quick, env):
    """positions with a mate in one and a clock that reaches / has passed 100 with the mating move, plus the non-mating moves"""
    r = ctx.rng
    import checks.c04 as c04
    fens = c04.sparse_endgames(r, 1500 if quick else 40000)
    ok = [o[3:] for o in oracle([f"chess fen {f}" for f in fens]) if o.startswith("ok ")]
    m1 = [f for f, b in zip(ok, oracle([f"mate mate1 {f}" for f in ok])) if b == "1"]
    r.shuffle(m1)
    m1 = m1[:25 if quick else 400]
    cands = []
    legal = oracle([f"chess legal {f}" for f in m1])
    for f, l in zip(m1, legal):
        mvs = l.split()[1:]
        for hmc in r.sample([97, 98, 99, 100, 101, 105, 110], 3):
            ff = set_hmc(f, hmc)
            for m in (mvs if len(mvs) <= 6 else r.sample(mvs, 6)):
                cands.append({"fam": "mate-first", "fen": ff, "hist": [], "m": m})
    # the mating moves themselves, always
    res = oracle([f"draw line {c['fen']} {c['m']}" for c in cands])
    keep = [c for c, o in zip(cands, res) if "mated=1" in o]
    rest = [c for c, o in zip(cands, res) if "mated=1" not in o]
    r.shuffle(rest)
    return keep + rest[:len(keep) * 2]


def engine_session(args):
    opts, jobs = args
    recs = []
    eng = uci.Engine("plain", "material", 1)
    try:
        eng.handshake()
        for k, v in opts.items(): eng.setoption(k, v)
        eng.isready()
        for c in jobs:
            pos = f"position fen {c['fen']}" + (" moves " + " ".join(c["hist"]) if c["hist"] else "")
            go = f"go depth {c['depth']} searchmoves {c['m']}" + (" " + c["other"] if c.get("other") else "")
            if c.get("free"): go = f"go depth {c['depth']}"       # unrestricted root: the drawing move competes with the others (ordering, re-searches)
            try:
                if c.get("control_fen"): eng.send("setoption name Clear Hash"); eng.isready()
                out = eng.go(pos, go, timeout=120)
                out2 = None
                if c.get("control_fen"):
                    eng.send("setoption name Clear Hash"); eng.isready()
                    out2 = eng.go(f"position fen {c['control_fen']}", go, timeout=120)
            except uci.EngineDied as e:
                recs.append({**c, "opts": opts, "pos": pos, "go": go, "error": str(e)[:300]}); return recs
            except TimeoutError as e:
                # a depth-limited search that is merely slow on a loaded machine is not a C11 matter: stop it and skip the case
                try:
                    eng.send("stop"); eng.read_until(lambda l: l.startswith("bestmove"), 60)
                except (uci.EngineDied, TimeoutError) as e2:
                    recs.append({**c, "opts": opts, "pos": pos, "go": go, "error": "no answer to stop after a search that ran over 120 s: " + str(e2)[:200]}); return recs
                recs.append({**c, "opts": opts, "pos": pos, "go": go, "skipped": "search ran over 120 s"}); continue
            recs.append({**c, "opts": opts, "pos": pos, "go": go, "out": out, "out2": out2})
        eng.quit()
    finally:
        eng.kill()
    return recs


def audit_engine(ctx, recs):
    stats = ctx.cov.setdefault("engine_audit", {"searches": 0, "third_occurrence": 0, "clock_100": 0, "mate_first": 0, "control": 0, "by_family": {}})
    nviol = 0
    for rec in recs:
        if "error" in rec:
            ctx.violation(f"engine failed on `{rec['pos'][:120]}` / `{rec['go']}`: {rec['error']}", {"kind": "engine-failure", **{k: rec[k] for k in ("fen", "hist", "m", "opts", "go")}}); continue
        if "skipped" in rec:
            stats["stopped_after_120s"] = stats.get("stopped_after_120s", 0) + 1; continue
        ctx.count(); stats["searches"] += 1
        ctx.distinct((rec["fen"], " ".join(rec["hist"]), rec["m"], rec["go"], str(rec["opts"])))
        stats["by_family"][rec["fam"]] = stats["by_family"].get(rec["fam"], 0) + 1
        exp = rec["expect"]
        stats[rec["why"]] = stats.get(rec["why"], 0) + 1
        if rec["why"] == "control":
            def final(lines):
                xs = [uci.parse_info(l) for l in lines if l.startswith("info") and " score " in l and " pv " in l]
                xs = [d for d in xs if d.get("pv") and d["pv"][0] == rec["m"]]
                return (xs[-1].get("score_kind"), xs[-1].get("score"), xs[-1].get("bound")) if xs else None
            a, b = final(rec["out"]), final(rec["out2"])
            if a != b and nviol < 4:
                nviol += 1
                ctx.violation(f"the move {rec['m']} creates at most the second occurrence of a position (oracle: {rec['oracle']}) but the engine scores it {a} with the game history "
                              f"and {b} without it (`{rec['pos'][:200]}` / `{rec['go']}` vs `position fen {rec['control_fen']}`)",
                              {"kind": "property-predicate", "tie": "engine", "fen": rec["fen"], "hist": rec["hist"], "m": rec["m"], "depth": 1, "opts": rec["opts"], "family": rec["fam"],
                               "expect": None, "why": "control", "oracle": rec["oracle"], "control_fen": rec["control_fen"], "input": [rec["pos"], rec["go"]]})
            continue
        if rec.get("free"):
            # the side to move may play the drawing move, and that move is scored exactly 0: the completed search cannot end below 0
            xs = [uci.parse_info(l) for l in rec["out"] if l.startswith("info") and " score " in l and " pv " in l]
            xs = [d for d in xs if "bound" not in d]
            stats["free_root"] = stats.get("free_root", 0) + 1
            if xs:
                d = xs[-1]
                below = (d.get("score_kind") == "cp" and d["score"] < 0) or (d.get("score_kind") == "mate" and d["score"] < 0)
                if below and nviol < 4:
                    nviol += 1
                    what = "creates the third occurrence of a position" if rec["why"] == "third_occurrence" else "completes 50 moves by each side without capture or pawn move"
                    ctx.violation(f"the move {rec['m']} {what} (oracle: {rec['oracle']}), so it is worth exactly a draw, but the unrestricted search ended with `{d['raw'][:140]}` "
                                  f"for `{rec['pos'][:200]}` / `{rec['go']}`",
                                  {"kind": "property-predicate", "tie": "engine", "fen": rec["fen"], "hist": rec["hist"], "m": rec["m"], "depth": rec["depth"], "free": True,
                                   "opts": rec["opts"], "family": rec["fam"], "expect": list(exp), "why": rec["why"], "oracle": rec["oracle"], "input": [rec["pos"], rec["go"]]})
            continue
        infos = [uci.parse_info(l) for l in rec["out"] if l.startswith("info") and " score " in l and " pv " in l]
        infos = [d for d in infos if d.get("pv") and d["pv"][0] == rec["m"]]
        bad = None
        if not infos:
            bad = "no info line with a score for the move"
        for d in infos:
            got = (d.get("score_kind"), d.get("score"))
            if got != exp or "bound" in d:
                bad = f"`{d['raw'][:140]}`"
        if bad and nviol < 4:
            nviol += 1
            what = {"third_occurrence": "creates the third occurrence of a position", "clock_100": "completes 50 moves by each side without capture or pawn move",
                    "mate_first": "checkmates (the 50-move clock is at or beyond 100)"}[rec["why"]]
            fid = FID_EP if rec["why"] == "third_occurrence" and rec["fam"].startswith("ep-") and rec["fam"] != "ep-free" else None
            ctx.violation(f"the move {rec['m']} {what} (oracle: {rec['oracle']}) and must score {exp[0]} {exp[1]}, but the engine reported {bad} "
                          f"for `{rec['pos'][:200]}` / `{rec['go']}`",
                          {"kind": "property-predicate", "tie": "engine", "finding_id": fid, "fen": rec["fen"], "hist": rec["hist"], "m": rec["m"], "depth": rec["depth"],
                           "other": rec.get("other"), "opts": rec["opts"], "family": rec["fam"], "expect": list(exp), "why": rec["why"], "oracle": rec["oracle"],
                           "input": [rec["pos"], rec["go"]]})
    for rec in recs[:2]:
        if "out" in rec: ctx.sample({"pos": rec["pos"][:160], "go": rec["go"], "tail": rec["out"][-2:]})


def classify(cands, controls=None):
    """ask the Lean rule-level oracle what the move does; keep the cases with an exact expectation
    (`controls` collects the moves that create at most a second occurrence well below the 50-move limit)"""
    res = oracle([f"draw line {c['fen']} " + " ".join(c["hist"] + [c["m"]]) for c in cands])
    out = []
    for c, o in zip(cands, res):
        if not o.startswith("ok "): continue
        d = kv(o)
        c = dict(c); c["oracle"] = " ".join(o.split()[1:6])
        if controls is not None and d["mated"] == "0" and d["stale"] == "0" and int(d["occ"]) <= 1 and int(d["hmc"]) < 99 and c["hist"]:
            controls.append(c)
        if d["mated"] == "1": c["expect"], c["why"] = ("mate", 1), "mate_first" if int(d["hmc"]) >= 100 or c["fam"] == "mate-first" else None
        elif d["stale"] == "1": continue          # a stalemate at ply 1 is seen only from depth 2 on and is not part of C11
        elif int(d["occ"]) >= 2: c["expect"], c["why"] = ("cp", 0), "third_occurrence"
        elif int(d["hmc"]) >= 100: c["expect"], c["why"] = ("cp", 0), "clock_100"
        else: continue
        if c["why"] is None: continue
        out.append(c)
    return out


def check_engine(ctx, games, quick, env):
    r = ctx.rng
    controls = []
    cands = classify(engine_cases(ctx, games, quick) + mate_first_cases(ctx, quick, env), controls)
    # balance: keep every e.p. / castle / mate case, sample the rest
    by = {}
    for c in cands: by.setdefault((c["fam"], c["why"]), []).append(c)
    chosen = []
    cap = 26 if quick else 400
    for key, cs in sorted(by.items()):
        r.shuffle(cs)
        cs.sort(key=lambda c: not (c["fen"] == REGRESSION_ENGINE["fen"] and c["hist"] == REGRESSION_ENGINE["hist"]))
        chosen += cs[:cap * (3 if key[0].startswith("ep-") else 1)]
    # a second root move for the MultiPV variants (posHashFirstNew is one higher with MultiPV > 1)
    need = [c for c in chosen if r.random() < 0.25]
    roots = oracle([f"chess line {c['fen']} " + " ".join(c["hist"]) for c in need])
    rootfen = {id(c): " ".join(o.split()[2:8]) for c, o in zip(need, roots) if o.startswith("ok")}
    lg = dict(zip(rootfen.keys(), oracle([f"chess legal {f}" for f in rootfen.values()])))
    for c in chosen:
        c["depth"] = r.choice([1, 2, 3, 4, 6])
        l = lg.get(id(c))
        if l:
            others = [m for m in l.split()[1:] if m != c["m"]]
            if others: c["other"] = r.choice(others); c["multipv"] = True
    optsets = [({}, False), ({"Hash": 1}, False), ({"Threads": 2}, False), ({"MultiPV": 2}, True), ({"MultiPV": 3, "Hash": 4}, True), ({"UseNullMove": "false"}, False)]
    sessions = []
    for i, (o, multi) in enumerate(optsets):
        js = [c for c in chosen if bool(c.get("multipv")) == multi]
        js = js[i % 2::2] if multi else js[(i if i < 3 else 3)::4]
        for k in range(0, len(js), 50):
            sessions.append((o, js[k:k + 50]))
    # unrestricted roots for the drawing moves (no searchmoves): the root's final score cannot be below the draw that is on offer
    free = [dict(c, free=True, depth=r.choice([2, 3, 4, 5, 6]), other=None, multipv=False) for c in chosen if c["expect"] == ("cp", 0)]
    r.shuffle(free); free = free[:120 if quick else 3000]
    fopts = [{}, {"Hash": 1}, {"Threads": 2}, {"UseNullMove": "false"}]
    for k in range(0, len(free), 30):
        sessions.append((fopts[(k // 30) % len(fopts)], free[k:k + 30]))
    # controls: a move that creates at most the second occurrence must be scored as if there were no history
    # (depth 1: below ply 1 only the quiescence search runs, which does not look at the history)
    r.shuffle(controls)
    second = [c for c in controls if " occ=1 " in " " + c["oracle"] + " "]
    controls = (second[:60 if quick else 2500] + [c for c in controls if c not in second][:20 if quick else 500])
    roots = oracle([f"chess line {c['fen']} " + " ".join(c["hist"]) for c in controls])
    cjobs = []
    for c, o in zip(controls, roots):
        if o.startswith("ok"):
            c = dict(c); c["control_fen"] = " ".join(o.split()[2:8]); c["depth"] = 1; c["why"] = "control"; c["expect"] = None
            cjobs.append(c)
    for k in range(0, len(cjobs), 40):
        sessions.append(({}, cjobs[k:k + 40]))
    with cf.ThreadPoolExecutor(max(2, vlib.NCPU // 3)) as ex:
        recs = [x for rs in ex.map(engine_session, sessions) for x in rs]
    audit_engine(ctx, recs)
    ctx.tie("engine", kind="real texel binary: `position fen … moves …` + `go depth d searchmoves m`; expectation decided by the Lean rule-level oracle (`draw line`)",
            candidates=len(cands), searched=len(recs))


# ---------------------------------------------------------------------------------------------
# (d) console game
# ---------------------------------------------------------------------------------------------

def gen_scripts(ctx, games, quick):
    r = ctx.rng
    scripts = []
    junk_moves = ["a1a8", "e2e5", "h7h8q", "e1g1", "b1b1"]
    for g in games:
        items = []
        if g["fen"] != START or r.random() < 0.2:
            items.append("setpos " + g["fen"])
        ms = g["moves"]
        i = 0
        while i < len(ms) and len(items) < 160:
            m = ms[i]
            near = g["k0"] + 3 <= i <= g["k1"] + 1
            x = r.random()
            pq = 0.5 if near else 0.12
            if g["fam"].startswith("clock") and r.random() < 0.5:      # claims all along the way to and past move 50
                items.append(r.choice(["fifty", "fifty " + m, "cp " + m, "fifty " + m]))
                if items[-1] == "fifty " + m: i += 1
                continue
            if x < pq:
                c = r.choice(["rep", "rep " + m, "fifty", "fifty " + m, "cp " + m, "rep " + m, "cp " + m, "offer " + m, "accept"])
                items.append(c)
                if not (c.startswith("cp") or c in ("rep", "fifty", "accept")):
                    i += 1          # the move is played unless the claim was valid
                continue
            if x < pq + 0.04: items.append(r.choice(["junk", "noop", "mv " + r.choice(junk_moves), "rep " + r.choice(junk_moves), "offer " + r.choice(junk_moves)])); continue
            if x < pq + 0.07 and i > 0:
                k = r.randrange(1, min(i, 6) + 1)
                items += ["undo"] * k
                if r.random() < 0.3: items.append("rep")
                nr = r.choice([k, k, k - 1, k + 1])
                items += ["redo"] * nr
                i -= max(0, k - nr)          # after a shorter redo the remaining moves are replayed as moves
                continue
            if x < pq + 0.075: items.append("resign"); items.append("undo") if r.random() < 0.5 else None; continue
            items.append("mv " + m); i += 1
        items += r.choice([["rep"], ["fifty"], ["rep", "fifty"], ["cp " + (ms[-1] if ms else "e2e4")], []])
        scripts.append((g, [it for it in items if it]))
    return scripts


def track_and_check(ctx, g, items, out):
    """follow the implementation's own answers (which moves were accepted, undo/redo) and list the questions to put to the
    rule-level oracle: (kind, start fen, moves so far, claim move, the implementation's step output)"""
    fen0, ml, cur, prev = START, [], 0, "A"
    queries = []
    steps = out.split(" ; ")
    if len(steps) != len(items) + 1: return []
    for it, st in zip(items, steps):
        t = it.split()
        if st.startswith("cp="):
            queries.append(("cp", fen0, ml[:cur], t[1], st)); continue
        f = st.split(",")
        if len(f) != 9: return queries
        state, ncur = f[1], int(f[3])
        kind = t[0]
        if kind in ("rep", "fifty") and prev == "A":       # a claim in a finished game has no effect
            queries.append((kind, fen0, ml[:cur], t[1] if len(t) > 1 else None, st))
        if kind == "new": fen0, ml, cur = START, [], 0
        elif kind == "setpos":
            if f[0] == "1" and ncur == 0 and f[4] == "0" and (cur != 0 or ml or True):
                # a rejected FEN leaves the game untouched: recognise it by the final position later; here we only accept well-formed FENs
                fen0, ml, cur = " ".join(t[1:7]), [], 0
        elif kind in ("mv", "rep", "fifty", "offer") and len(t) > 1 and ncur == cur + 1:
            ml = ml[:cur] + [t[1]]; cur = ncur
        elif kind in ("undo", "redo"):
            cur = ncur
        queries.append(("state", fen0, ml[:cur], None, st))
        prev = state
    return queries


def check_games(ctx, games, quick, env):
    r = ctx.rng
    scripts = gen_scripts(ctx, games, quick)
    scripts.append(({"fam": "ep-file"}, REGRESSION_REDO.split(" ; ")))
    lines = ["draw game " + " ; ".join(items) for _, items in scripts]
    lines += ["draw game mv e2e4 ; offer e7e5 ; accept ; undo ; undo ; redo ; mv g1f3 ; rep ; fifty g8f6 ; cp b1c3 ; resign ; junk",
              "draw game bogus", "draw game mv e2", "draw game setpos 8/8/8/8/8/8/8/8 w - - 0 1 ; mv e2e4"]
    o1, o2 = pdiff(ctx, "console-game", lines, env)
    bad = False
    for i, (l, a, b) in enumerate(zip(lines, o1, o2)):
        if a != b and usable(a, b):
            sa, sb = a.split(" ; "), b.split(" ; ")
            k = next((j for j, (x, y) in enumerate(zip(sa, sb)) if x != y), min(len(sa), len(sb)))
            items = l[len("draw game "):].split(" ; ")
            ctx.violation(f"console-game: model and implementation disagree at step {k} (`{items[k] if k < len(items) else 'final position'}`): impl `{sa[k] if k < len(sa) else a[:80]}` model `{sb[k] if k < len(sb) else b[:80]}`",
                          {"kind": "correspondence", "tie": "console-game", "theorem_scope": "GameM.processString (Draw/Game.lean) no longer corresponds to Game::processString",
                           "input": ["draw game " + " ; ".join(items[:k + 1])], "impl": sa[k:k + 1], "model": sb[k:k + 1]}, no_input=True)
            bad = True
            break
    # rule-level predicates on the implementation's answers
    queries = []
    for (g, items), a in zip(scripts, o1):
        qs = track_and_check(ctx, g, items, a)
        if not quick or len(qs) < 400:
            queries += [(q, items) for q in qs if q[0] != "state" or r.random() < (0.25 if quick else 0.5)]
        for it in items: ctx.distinct(("game", it.split()[0], g["fam"]))
    ql = []
    for (kind, fen0, ml, m, st), items in queries:
        ql.append(f"draw line {fen0} " + " ".join(ml))
        ql.append(f"draw line {fen0} " + " ".join(ml + ([m] if m else [])))
    res = oracle(ql)
    stats = ctx.cov.setdefault("game_audit", {"claims_rep": 0, "claims_50": 0, "accepted": 0, "cp_claims": 0, "states": 0, "terminal_states": 0})
    nv = 0
    for k, ((kind, fen0, ml, m, st), items) in enumerate(queries):
        cur_o, mv_o = res[2 * k], res[2 * k + 1]
        if not cur_o.startswith("ok "): continue
        dc = kv(cur_o)
        legal_m = m is not None and mv_o.startswith("ok ")
        dm = kv(mv_o) if legal_m else dc
        msg = None
        over = dc["mated"] == "1" or dc["stale"] == "1" or dc["dead"] == "1"
        if kind == "state":
            stats["states"] += 1
            state = st.split(",")[1]
            wtm = cur_o.split("fen=")[1].split()[1] == "w"
            exp = None
            if dc["mated"] == "1": exp = "BM" if wtm else "WM"
            elif dc["stale"] == "1": exp = "WS" if wtm else "BS"
            elif dc["dead"] == "1": exp = "DN"
            if exp: stats["terminal_states"] += 1
            if exp and state != exp: msg = f"getGameState reports {state}, the rules give {exp}"
            if not exp and state in ("WM", "BM", "WS", "BS", "DN"): msg = f"getGameState reports {state} in a position that is none of mate / stalemate / dead material"
        elif kind in ("rep", "fifty"):
            f = st.split(",")
            state = f[1]
            if over: continue
            # was the game alive before the command?  (a claim in a finished game has no effect) — only judge claims whose result is DR / D50 or alive
            if kind == "rep":
                stats["claims_rep"] += 1
                valid = int(dm["occ"]) >= 2
                if state == "DR": stats["accepted"] += 1
                if state == "DR" and not valid: msg = f"`draw {it_of(kind, m)}` accepted although the position occurred only {int(dm['occ']) + 1} time(s)"
                if state == "A" and valid: msg = f"`draw {it_of(kind, m)}` not accepted although the position occurs for the {int(dm['occ']) + 1}th time"
            else:
                stats["claims_50"] += 1
                valid = int(dm["hmc"]) >= 100
                if state == "D50": stats["accepted"] += 1
                if state == "D50" and not valid: msg = f"`draw {it_of(kind, m)}` accepted with half-move clock {dm['hmc']}"
                if state == "A" and valid: msg = f"`draw {it_of(kind, m)}` not accepted with half-move clock {dm['hmc']}"
        elif kind == "cp":
            if st == "cp=na" or not legal_m: continue
            stats["cp_claims"] += 1
            exp = "50" if int(dc["hmc"]) >= 100 else "rep" if int(dc["occ"]) >= 2 else "50m" if int(dm["hmc"]) >= 100 else "repm" if int(dm["occ"]) >= 2 else "none"
            if st != "cp=" + exp: msg = f"ComputerPlayer::canClaimDraw gives `{st}`, the rules give `cp={exp}` (now: {cur_o.split(' fen=')[0]}; after {m}: {mv_o.split(' fen=')[0]})"
        if msg and nv < 4:
            nv += 1
            ctx.violation(f"console game: {msg}; history `{fen0}` + {' '.join(ml)[:200]}",
                          {"kind": "property-predicate", "tie": "console-game", "input": ["draw game " + " ; ".join(items)], "start": fen0, "moves": ml, "claim_move": m, "impl_step": st,
                           "oracle_now": cur_o, "oracle_after_move": mv_o})
    ctx.sample({"op": lines[0][:120], "impl": o1[0][:120]})


def it_of(kind, m):
    return ("rep" if kind == "rep" else "50") + (" " + m if m else "")


# ---------------------------------------------------------------------------------------------

def run(ctx):
    quick = ctx.tier == "quick"
    bdir, env = harness_env()
    if ctx.replay:
        return replay(ctx, env)
    vlib.lean_obligations(ctx)
    xr = xlate.regenerate(ctx, ["Draw"])
    ctx.cov["rule"] = ("scan kernel: boundary grid (size 0..10 x clock -1..size+2,100 x firstNew -1..size+1 x occupancy patterns) + random tuples (sizes to 140, clocks around the size and around 100, "
                       "negative / huge values, lists longer than the size, hashes placed where an unclamped scan would read); histories: random legal games from 30 seed positions followed by 2-4 four-ply "
                       "shuffles over random routes, long games with late zeroing moves (list > 100), clocks 88..110 by FEN and 92..108 by played reversible moves, double push beside a file- / diagonal- / "
                       "rank-pinned (or free) enemy pawn then shuffles, castling rights lost inside the first cycle, mate-in-one positions with the clock at 97..110; engine: every cut inside the shuffle "
                       "region x depth 1..6 x {Hash, Threads, MultiPV with a second root move, UseNullMove}; console: scripts of moves, claims with and without move, offers, accept, resign, undo/redo, "
                       "setpos, illegal text; distinct = distinct (operation class, parameters) keys")
    ctx.assumptions += ["no 64-bit Zobrist collisions (explicit hypothesis of third_occurrence / cp_claim_spec)",
                        "the Zobrist key is a function of board, side to move, castling mask and e.p. square (C02)",
                        "the node prologue of negaScout (50-move test, mate-first exception, repetition return) is modelled by reading; tied through the engine-level audit only",
                        "the harness reads private members of Position / Game / EngineControl / ComputerPlayer via #define private public",
                        "console moves are given in coordinate notation (TextIO::stringToMove on such a string = lookup in the legal move list)",
                        "synthetic evaluation network (material) instead of the shipped one"]
    check_scan(ctx, quick, env)
    ctx.log("scan kernel done")
    games = gen_games(ctx, game_specs(ctx, quick), env)
    ctx.cov["games"] = {"generated": len(games), "by_family": {f: sum(1 for g in games if g["fam"] == f) for f in sorted(set(g["fam"] for g in games))}}
    check_setup(ctx, games, env, quick)
    ctx.log("history builder done")
    check_engine(ctx, games, quick, env)
    ctx.log("engine audit done")
    cgames = gen_games(ctx, game_specs(ctx, quick, 2.0 if quick else 3.0) + [{"fam": "sparse", "fen": f, "prefix": ctx.rng.randrange(0, 60), "rev": 0, "cycles": ctx.rng.choice([0, 2]), "tail": 0}
                                                          for f in SPARSE * (8 if quick else 200)], env)
    check_games(ctx, cgames, quick, env)
    ctx.log("console game done")
    xlate.report(ctx, xr)
    if not quick:
        vlib.leanchecker(ctx, ["TexelVerif.Props.C11"] + (["TexelVerif.Bridge.Draw"] if xr.ok else []))


def replay(ctx, env):
    rp = ctx.replay["replay"]
    vlib.lake_build(["driver"])
    ctx.count(1); ctx.distinct("replay"); ctx.distinct("replay2")
    if rp.get("tie") == "engine":
        c = {k: rp[k] for k in ("fen", "hist", "m", "depth", "opts")}
        c.update({"fam": rp.get("family", ""), "other": rp.get("other"), "expect": tuple(rp["expect"]) if rp.get("expect") else None, "why": rp["why"], "oracle": rp["oracle"],
                  "control_fen": rp.get("control_fen"), "free": rp.get("free", False)})
        opts = c.pop("opts")
        recs = engine_session((opts, [c]))
        for x in recs: print("\n".join(x.get("out", [str(x)])[-4:]))
        audit_engine(ctx, recs)
        return
    lines = rp.get("input", [])
    bdir, _ = harness_env()
    o1 = prun(os.path.join(bdir, "vharness"), lines, env)
    o2 = prun(vlib.driver_bin(), lines)
    for l, a, b in zip(lines, o1, o2):
        print(f"{l}\n   impl : {a}\n   model: {b}")
    if rp.get("tie") == "scan-kernel":
        t = lines[0].split()
        s, c, f, h = int(t[2]), int(t[3]), int(t[4]), int(t[5], 16)
        hs = [int(x, 16) for x in t[6:]]
        exp = "1" if scan_spec(s, c, f, h, hs) else "0"
        if o1[0] != exp: ctx.violation("replay: scan still differs from its specification", rp)
    elif any(a != b for a, b in zip(o1, o2)):
        ctx.violation("replay still disagrees", rp, no_input=rp.get("kind") == "correspondence")
