"""C05 — UCI session contract: one bestmove per go, readyok, never crashes.
Lean: Props/C05.lean (contract automaton Uci.accepts and what acceptance means; command-dispatch model: no null
engine dereference for the repaired dispatch, crash witness for the pinned commit).
Tie: generated command scripts are run against the real ASan/UBSan binary with delays keyed to search progress;
the merged timeline is judged by the Lean acceptor; exit status, sanitizer reports and termination are checked."""
import concurrent.futures as cf, re, time
import vlib, uci, chessgen

OPTIONS = {"Threads": (1, 8), "Hash": (1, 64), "MultiPV": (1, 6), "Ponder": "bool", "UCI_AnalyseMode": "bool", "OwnBook": "bool",
           "UseNullMove": "bool", "AnalysisAgeHash": "bool", "Strength": (0, 1000), "MaxNPS": (0, 200000), "UCI_LimitStrength": "bool",
           "UCI_Elo": (-625, 2900), "Contempt": (-2000, 2000), "AnalyzeContempt": (-2000, 2000), "AutoContempt": "bool",
           "MinProbeDepth": (0, 100), "BufferTime": (1, 10000), "GaviotaTbCache": (1, 64)}
BEST_RE = re.compile(r"^bestmove (0000|[a-h][1-8][a-h][1-8][qrbn]?)( ponder [a-h][1-8][a-h][1-8][qrbn]?)?$")
INFO_KEYS = {"depth", "seldepth", "time", "nodes", "nps", "score", "multipv", "pv", "currmove", "currmovenumber", "hashfull", "tbhits", "cp", "mate", "lowerbound", "upperbound"}


def classify(line):
    if line == "uciok": return "<uciok"
    if line == "readyok": return "<readyok"
    if line.startswith("bestmove"):
        m = BEST_RE.match(line)
        # a "move" from a square to itself is not a move of the protocol (the null move is written 0000)
        if m and m.group(1) != "0000" and m.group(1)[:2] == m.group(1)[2:4]: return "<bad"
        return "<bestmove" if m else "<bad"
    if line.startswith("info string"): return "<str"
    if line.startswith("info "):
        t = line.split()
        return "<info" if len(t) >= 3 and t[1] in INFO_KEYS else "<bad"
    if line.startswith("id name ") or line.startswith("id author ") or line.startswith("option name "): return "<id"
    return "<bad"


# roots whose search ends by itself: mate in one, mate in two, checkmated, stalemated
SELF_ENDING = ["6k1/5ppp/8/8/8/8/5PPP/3R2K1 w - - 0 1", "r5k1/5ppp/8/8/8/8/5PPP/3RR1K1 w - - 0 1", "R5k1/5ppp/8/8/8/8/5PPP/6K1 b - - 0 1",
               "7k/5Q2/6K1/8/8/8/8/8 b - - 0 1", "k7/8/1K6/8/8/8/8/7R w - - 0 1"]


def gen_script(rng, fens, games):
    """list of (command line, token for the acceptor, delay mode)"""
    if rng.random() < 0.12:
        # burst family: protocol-thread replies (uci / isready) fired without delay while a search prints a lot of output
        sc = [("isready", ">isready", "sync"), (f"setoption name MultiPV value {rng.choice([3, 5])}", ">other", "none"),
              (f"position fen {rng.choice(fens)}", ">other", "none"), ("go infinite", ">goI", "info")]
        for _ in range(rng.randrange(5, 25)):
            sc.append(rng.choice([("uci", ">uci", "none"), ("isready", ">isready", "none")]))
        sc.append(("stop", ">stop", "none")); sc.append(("quit", ">quit", "none"))
        return sc
    if rng.random() < 0.1:
        # go-shape family: every limited `go` must answer by itself, whatever the order of its sub-commands (UCI allows any order);
        # ponder searches with the sub-commands shuffled must wait for `ponderhit`
        sc = [("uci", ">uci", "sync"), ("isready", ">isready", "sync")]
        for _ in range(rng.randrange(2, 6)):
            g = rng.choice(games)
            sc.append(("position startpos moves " + " ".join(g) if g else "position startpos", ">other", "none"))
            groups = [rng.choice([["depth", str(rng.randrange(1, 5))], ["nodes", str(rng.choice([1, 500, 3000]))], ["movetime", str(rng.choice([1, 30]))], ["mate", "1", "depth", "3"]])]
            if rng.random() < 0.5: groups = [["wtime", "300"], ["btime", "300"], ["winc", "10"], ["binc", "10"]] + ([["movestogo", rng.choice(["2", "1", "0", "40"])]] if rng.random() < 0.6 else [])
            if rng.random() < 0.7: groups.append(["searchmoves"] + rng.sample(["e2e4", "d2d4", "g1f3", "e7e5", "g8f6", "b8c6", "a7a6", "f1b5", "c2c4"], 3))
            pond = rng.random() < 0.25
            if pond: groups.append(["ponder"])
            rng.shuffle(groups)
            line = "go " + " ".join(" ".join(x) for x in groups)
            if pond:
                sc.append((line, ">goP", "short")); sc.append(("ponderhit", ">ponderhit", "none")); sc.append(("isready", ">isready", "sync"))
                sc.append(("stop", ">stop", "none"))
            else:
                sc.append((line, ">go", "best"))
        if rng.random() < 0.5:
            # numbers that do not fit an int: the limit is ignored or clamped, never fatal; the search is ended by `stop`
            sc.append((f"go {rng.choice(['nodes', 'depth', 'movetime', 'wtime', 'mate', 'movestogo'])} {rng.choice([5000000000, 99999999999, -99999999999, 2147483648])}", ">go", "short"))
            sc.append(("stop", ">stop", "none")); sc.append(("isready", ">isready", "sync"))
        if rng.random() < 0.5:
            # a root without legal moves: exactly one answer, and it is the null move `0000`
            sc.append((f"position fen {rng.choice(SELF_ENDING[2:4])}", ">other", "none"))
            sc.append((rng.choice(["go depth 3", "go movetime 20", "go nodes 100", "go wtime 300 btime 300"]), ">go", "best"))
        if rng.random() < 0.6:
            # a ponder search that ends by itself (mated / stalemated root, forced mate) holds its result; `ponderhit` must release it at once
            sc.append((f"position fen {rng.choice(SELF_ENDING)}", ">other", "none"))
            sc.append((f"go ponder wtime {rng.choice([300, 2000])} btime {rng.choice([300, 2000])}", ">goP", "short"))
            sc.append(("isready", ">isready", "sync"))
            sc.append(("ponderhit", ">ponderhit", "best"))
        sc.append(("quit", ">quit", "none"))
        return sc
    if rng.random() < 0.15:
        # option-combination family: several options at boundary values, then a short search that must still answer
        sc = [("uci", ">uci", "sync")]
        for k in rng.sample(list(OPTIONS), rng.randrange(2, 5)):
            spec = OPTIONS[k]
            v = rng.choice(["true", "false"]) if spec == "bool" else rng.choice([spec[0], spec[0] + 1, min(spec[1], 8 if k == "Threads" else 64 if k == "Hash" else spec[1])])
            if k == "MaxNPS" and v == 1: v = 5000     # MaxNPS 1 turns a 40 ms search into minutes: known finding C06-maxnps-sleep, not re-reported here
            sc.append((f"setoption name {k} value {v}", ">other", "none"))
        if rng.random() < 0.7: sc.append((f"setoption name MultiPV value {rng.choice([2, 3, 6])}", ">other", "none"))
        if rng.random() < 0.7: sc.append((f"setoption name Strength value {rng.choice([0, 1, 100, 199])}", ">other", "none"))
        sc += [("isready", ">isready", "sync"), (f"position fen {rng.choice(fens)}", ">other", "none"),
               (f"go movetime {rng.choice([10, 40])}", ">go", "best"), ("go nodes 200", ">go", "best"), ("quit", ">quit", "none")]
        return sc
    n = rng.randrange(3, 60)
    sc = []
    early = rng.random() < 0.35      # commands before any initialisation
    if not early:
        sc.append(("uci", ">uci", "sync")); sc.append(("isready", ">isready", "sync"))
    throttled = False
    for _ in range(n):
        x = rng.random()
        if x < 0.05: sc.append(("uci", ">uci", "none"))
        elif x < 0.15: sc.append(("isready", ">isready", rng.choice(["none", "sync"])))
        elif x < 0.30:
            k = rng.choice(list(OPTIONS)); spec = OPTIONS[k]
            if spec == "bool": v = rng.choice(["true", "false", "maybe"])
            else:
                lo, hi = spec
                v = rng.choice([lo, hi, rng.randrange(lo, hi + 1), lo - 1, hi + 1, "abc", 99999999999, -99999999999, "1e400"])
                if k == "Threads" and isinstance(v, int) and 8 < v < 10**9: v = 8
                if k == "Hash" and isinstance(v, int) and 64 < v < 10**9: v = 64
            if k == "MaxNPS" and isinstance(v, int) and 0 < v < 1000: v = 1000   # tiny MaxNPS: known finding C06-maxnps-sleep
            if k == "MaxNPS" and v == "1e400": v = "abc"                          # std::stoi reads "1e400" as 1: the same tiny-MaxNPS case
            if k in ("MaxNPS", "Strength", "UCI_LimitStrength"): throttled = True
            sc.append((f"setoption name {k} value {v}", ">other", "none"))
        elif x < 0.33: sc.append(("setoption name Clear Hash", ">other", "none"))
        elif x < 0.37: sc.append(("ucinewgame", ">other", "none"))
        elif x < 0.52:
            if rng.random() < 0.5:
                g = rng.choice(games)
                sc.append(("position startpos moves " + " ".join(g[:rng.randrange(0, len(g) + 1)]) if g else "position startpos", ">other", "none"))
            else:
                sc.append((f"position fen {rng.choice(fens)}", ">other", "none"))
        elif x < 0.77:
            y = rng.random()
            p = i = False
            if y < 0.3: lim = f"depth {rng.randrange(1, 4 if throttled else 7)}"
            elif y < 0.45: lim = f"nodes {rng.choice([1, 100, 3000])}"
            elif y < 0.6: lim = f"movetime {rng.choice([1, 20, 60])}"
            elif y < 0.72: lim = f"wtime {rng.choice([1, 100, 3000])} btime {rng.choice([1, 100, 3000])} winc {rng.choice([0, 20])} binc 0" + (f" movestogo {rng.choice([1, 30, 0])}" if rng.random() < 0.5 else "")
            elif y < 0.78: lim = f"mate {rng.randrange(1, 3)} depth 4"
            elif y < 0.9: lim = "infinite"; i = True
            else: lim = "wtime 2000 btime 2000"
            if rng.random() < 0.22: lim = "ponder " + lim; p = True
            if rng.random() < 0.1: lim += " searchmoves e2e4 d2d4 g8f6"
            if rng.random() < 0.4:
                # the sub-commands of `go` may come in any order (UCI): shuffle the groups, so that `searchmoves <moves>` and
                # `ponder` / `infinite` are also followed by other sub-commands
                toks, groups = lim.split(), []
                while toks:
                    t = toks.pop(0)
                    if t in ("ponder", "infinite"): groups.append([t])
                    elif t == "searchmoves":
                        g = [t]
                        while toks and len(toks[0]) in (4, 5) and toks[0][0] in "abcdefgh" and toks[0][1].isdigit(): g.append(toks.pop(0))
                        groups.append(g)
                    else: groups.append([t, toks.pop(0)] if toks else [t])
                rng.shuffle(groups)
                lim = " ".join(" ".join(g) for g in groups)
            tok = ">go" + ("P" if p else "") + ("I" if i else "")
            sc.append(("go " + lim, tok, rng.choice(["none", "none", "info", "best"]) if not (p or i) else rng.choice(["none", "info", "short"])))
        elif x < 0.87: sc.append(("stop", ">stop", rng.choice(["none", "short"])))
        elif x < 0.93: sc.append(("ponderhit", ">ponderhit", rng.choice(["none", "short"])))
        elif x < 0.97: sc.append((rng.choice(["", "   ", "foo bar", "go", "position", "setoption", "setoption name", "position fen", "debug on", "register later", "\t"]), ">other", "none"))
        else: break
    end = rng.random()
    if end < 0.7: sc.append(("quit", ">quit", "none"))
    # else: EOF without quit
    # fix tokens of degenerate `go` lines typed in the junk branch
    return [(c, (">go" if c.strip() == "go" else t), d) for c, t, d in sc]


def run_script(args):
    variant, script = args
    eng = uci.Engine(variant, "material", 1)
    timeline = []     # acceptor tokens in observed order
    raw = []
    def pump(lines):
        for l in lines:
            raw.append("< " + l); timeline.append(classify(l))
    res = {"script": [c for c, _, _ in script], "error": None}
    try:
        for cmd, tok, mode in script:
            pump(eng.drain(0.0))
            timeline.append(tok); raw.append("> " + cmd)
            try:
                eng.send(cmd)
            except uci.EngineDied:
                res["error"] = "engine died (stdin closed) before `%s`" % cmd; break
            try:
                if mode == "sync":
                    want = "uciok" if cmd == "uci" else "readyok"
                    pump(eng.read_until(lambda l: l == want, 60))
                elif mode == "info":
                    try:       # a search is not obliged to print anything before it ends (e.g. no move to search while pondering)
                        pump(eng.read_until(lambda l: l.startswith("info depth") or l.startswith("bestmove"), 2))
                    except TimeoutError as e:
                        pump(e.lines)
                elif mode == "best":
                    pump(eng.read_until(lambda l: l.startswith("bestmove"), 60))
                elif mode == "short":
                    pump(eng.drain(0.03))
            except uci.EngineDied as e:
                pump(getattr(e, "lines", [])); res["error"] = str(e)[:600]; break
            except TimeoutError as e:
                pump(getattr(e, "lines", [])); res["error"] = "hang: " + str(e)[:300]; break
        if res["error"] is None:
            pump(eng.drain(0.0))
            timeline.append(">quit"); raw.append("> <EOF>")   # end of input releases a held search like `quit` does
            try:
                eng.p.stdin.close()        # EOF (after quit, or instead of it)
            except OSError:
                pass
            t0 = time.time()
            import subprocess as sp
            try:
                rc = eng.p.wait(60)
            except sp.TimeoutExpired:
                rc = None
                res["error"] = "hang: process did not exit within 60 s after quit/EOF"
            res["rc"] = rc
            res["exit_s"] = round(time.time() - t0, 2)
            time.sleep(0.05)
            while True:                      # collect everything the process printed before exiting
                try:
                    l = eng.q.get(timeout=1.0)
                except Exception:
                    break
                if l is None: break
                pump([l])
    finally:
        eng.kill()
    res["timeline"] = timeline; res["raw"] = raw[-200:]; res["stderr"] = eng.err[-30:]
    return res


def run(ctx):
    quick = ctx.tier == "quick"
    r = ctx.rng
    vlib.lean_obligations(ctx)
    ctx.assumptions += ["timeline = order observed by the driver (a command is logged before it is written to the engine)",
                        "output-line atomicity between the two threads writing std::cout is runtime behaviour, checked only by the line classifier",
                        "synthetic evaluation network"]
    fens = chessgen.SEED_FENS + chessgen.games(ctx, 6, 60)
    games = [[], ["e2e4", "e7e5", "g1f3", "b8c6", "f1b5", "a7a6"], ["d2d4", "g8f6", "c2c4", "e7e6"], ["g1f3", "g8f6", "f3g1", "f6g8", "g1f3", "g8f6", "f3g1", "f6g8"]]
    variant = "asan"
    vlib.cxx_build(variant, ("texel", "mknet"))
    if ctx.replay:
        rp = ctx.replay["replay"]
        script = [tuple(x) for x in rp["script_full"]]
        res = run_script((variant, script))
        print("\n".join(res["raw"])); print(res.get("error"), res.get("rc"))
        ctx.count(1); ctx.distinct("a"); ctx.distinct("b")
        judge(ctx, [script], [res])
        return
    n = 300 if quick else 12000
    scripts = [gen_script(r, fens, games) for _ in range(n)]
    scripts[0] = [("ponderhit", ">ponderhit", "none"), ("quit", ">quit", "none")]          # corpus: C05 finding
    scripts[1] = [("stop", ">stop", "none"), ("ucinewgame", ">other", "none"), ("ponderhit", ">ponderhit", "short"), ("isready", ">isready", "sync"), ("quit", ">quit", "none")]
    with cf.ThreadPoolExecutor(max(2, vlib.NCPU // 2)) as ex:
        results = list(ex.map(run_script, [(variant, s) for s in scripts]))
    judge(ctx, scripts, results)
    ctx.cov["rule"] = ("command scripts of 3..60 commands over {uci, isready, setoption (every declared option: valid, boundary, out-of-range, non-numeric), Clear Hash, ucinewgame, position startpos/fen + legal move lists, "
                       "go (depth, nodes, movetime, clock, mate, infinite, ponder, searchmoves), stop, ponderhit, junk words, blank lines, quit or EOF}, a third of them starting before `uci`/`isready`; "
                       "delays: none / wait for first info / wait for bestmove / 30 ms; ASan+UBSan build; distinct = distinct scripts")
    if not quick:
        vlib.leanchecker(ctx, ["TexelVerif.Props.C05"])


def judge(ctx, scripts, results):
    lines = ["uci sess " + " ".join(res["timeline"]) for res in results]
    impl_lines = ["uci impl 1 " + " ".join(t for _, t, _ in s) for s in scripts]
    rc, verdicts, err = vlib.run_lines(vlib.driver_bin(), lines + impl_lines)
    if rc != 0 or len(verdicts) != len(lines) + len(impl_lines):
        ctx.violation("Lean driver died in the session acceptor", {"kind": "model-crash", "stderr": err[-400:]}, no_input=True); return
    stats = {"scripts": len(scripts), "commands": sum(len(s) for s in scripts), "go": 0, "held_go": 0, "bestmoves": 0, "readyok": 0, "eof_without_quit": 0, "before_init": 0, "max_exit_s": 0.0}
    nbad = 0
    for s, res, v in zip(scripts, results, verdicts):
        ctx.count(); ctx.distinct(str([c for c, _, _ in s]))
        stats["go"] += sum(1 for _, t, _ in s if t.startswith(">go")); stats["held_go"] += sum(1 for _, t, _ in s if t in (">goP", ">goI", ">goPI"))
        stats["bestmoves"] += res["timeline"].count("<bestmove"); stats["readyok"] += res["timeline"].count("<readyok")
        stats["eof_without_quit"] += not any(t == ">quit" for _, t, _ in s); stats["before_init"] += bool(s) and s[0][0] != "uci"
        stats["max_exit_s"] = max(stats["max_exit_s"], res.get("exit_s", 0.0))
        why = None
        if res["error"]: why = res["error"]
        elif res.get("rc") != 0: why = f"exit status {res.get('rc')}; stderr: {' | '.join(res['stderr'][-6:])}"
        elif v != "ok":
            k = int(v.split()[1]) if v.startswith("reject") and v.split()[1].isdigit() else None
            why = f"contract violated ({v}" + (f": event `{res['timeline'][k]}` after {res['timeline'][max(0, k - 6):k]}" if k is not None else "") + ")"
        elif res.get("exit_s", 0) > 20: why = f"process took {res['exit_s']} s to exit after quit/EOF"
        if why:
            nbad += 1
            fid = "C05-ponderhit-null-engine" if ("SEGV" in why or "exit status" in why or "engine exited" in why or "stdin closed" in why) and first_cmd_is_early_ponderhit(s) else None
            if nbad <= 4 or fid:
                ctx.violation(f"UCI session: {why[:500]}; script: {[c for c, _, _ in s][:25]}",
                              {"kind": "property-predicate", "script": [c for c, _, _ in s], "script_full": [list(x) for x in s], "raw_tail": res["raw"][-25:], "stderr": res["stderr"][-12:], "finding_id": fid})
    ctx.cov["session_stats"] = stats
    ctx.sample({"script": [c for c, _, _ in scripts[-1]], "timeline": results[-1]["timeline"][:60], "verdict": verdicts[len(scripts) - 1]})
    ctx.tie("session-acceptor", kind="timeline of the real ASan/UBSan binary judged by Uci.accepts in the Lean driver", sessions=len(scripts))
    # dispatch model: repaired model says no crash for every script; the real binary must agree (checked above through exit status)
    for s, v in zip(scripts, verdicts[len(scripts):]):
        if v != "ok":
            ctx.violation("dispatch model reports a null-engine dereference", {"kind": "model", "script": [c for c, _, _ in s]}, no_input=True); break


def first_cmd_is_early_ponderhit(script):
    """ponderhit before any command that creates the engine object (isready / setoption / go)"""
    for c, t, _ in script:
        w = c.split()[0] if c.split() else ""
        if w == "ponderhit": return True
        if w in ("isready", "setoption", "go"): return False
    return False
