"""C07 — static evaluation is a pure, symmetric function of the position.
Lean: Props/C07.lean (incremental state stack refines from-scratch accumulation for every well-formed history, feature
index colour/mirror symmetry, SIMD lane lemmas, eval-cache transparency + witness for the contempt-less key).
Tie: (a) make/unmake/null/copy/setPiece histories on the real Position+NNEvaluator, compared after EVERY operation with a
brand-new evaluator (property predicate on the implementation) and line by line with the compiled Lean model (queues,
king squares, stack depth, four accumulator lanes of a formula network); (b) colour-flip / mirror pairs incl. endgame
material; (c) the same inputs through the SIMD builds; (d) contempt / cache interaction of Evaluate::evalPos;
(e) every evaluation inside real fixed-depth searches compared with a fresh evaluator through the TEXEL_VERIF hook."""
import os
import vlib

START = "RNBQKBNRPPPPPPPP" + "." * 32 + "pppppppprnbqkbnr"


def fen_board(fen):
    rows = fen.split("/")
    out = [""] * 8
    for i, row in enumerate(rows):
        s = ""
        for ch in row:
            s += "." * int(ch) if ch.isdigit() else ch
        assert len(s) == 8, fen
        out[7 - i] = s
    return "".join(out)


def sq(name):
    return (ord(name[0]) - 97) + 8 * (int(name[1]) - 1)


CRAFTED = [  # (board, stm, castle, ep)
    (START, "w", 15, -1),
    (fen_board("r3k2r/pppppppp/8/8/8/8/PPPPPPPP/R3K2R"), "w", 15, -1),
    (fen_board("r3k2r/8/8/8/8/8/8/R3K2R"), "w", 15, -1),
    (fen_board("r3k2r/1P4P1/8/8/8/8/1p4p1/R3K2R"), "b", 15, -1),
    (fen_board("4k3/P6P/8/8/8/8/p6p/4K3"), "w", 0, -1),
    (fen_board("1n2k1n1/P6P/8/8/8/8/p6p/1N2K1N1"), "b", 0, -1),
    (fen_board("4k3/8/8/3pP3/8/8/8/4K3"), "w", 0, sq("d6")),
    (fen_board("4k3/8/8/8/3Pp3/8/8/4K3"), "b", 0, sq("d3")),
    (fen_board("rnbqkbnr/ppp1pppp/8/8/3pP3/8/PPPP1PPP/RNBQKBNR"), "b", 15, sq("e3")),
    (fen_board("8/2p5/4k3/8/8/4K3/2P5/8"), "w", 0, -1),
    (fen_board("r1bqk2r/pppp1ppp/2n2n2/2b1p3/2B1P3/2N2N2/PPPP1PPP/R1BQK2R"), "w", 15, -1),
    (fen_board("3k4/8/8/8/8/8/8/R3K3"), "w", 1, -1),
    (fen_board("6k1/5ppp/8/8/8/8/5PPP/3QK2R"), "w", 2, -1),
]

ENDGAMES = ["Q|", "R|", "Q|p", "R|p", "R|b", "RP|r", "RP|rp", "NN|", "NB|", "P|", "P|p", "BP|b", "BP|n", "NP|b", "NP|",
            "Q|rbp", "Q|rnp", "Q|rp", "Q|rpp", "BB|n", "NN|q", "BB|q", "BN|q", "Q|b", "Q|n", "RB|r", "RN|r", "B|", "N|",
            "N|n", "B|b", "BP|", "BPP|", "RPP|r", "QP|q", "R|n", "PP|", "QR|", "RR|r", "BPP|b", "RP|b", "Q|bb", "Q|nn",
            "|", "PPP|ppp", "RBP|rn"]


def random_position(r, material=None, corner_bias=False):
    """(board64, stm, castle, ep, hmc, fmc): random placement of a material signature (kings not adjacent, pawns on
    ranks 2-7); legality (side not to move in check) is filtered by the harness.  With corner_bias the pieces crowd
    into one corner / edge (pawns on the edge file near promotion), where the special endgame rules live."""
    if material is None:
        n = r.choice([2, 4, 6, 10, 16, 22, 28])
        w = "".join(r.choice("QRRBBNNPPPPPPPP") for _ in range(n // 2))
        b = "".join(r.choice("qrrbbnnpppppppp") for _ in range(n - n // 2))
    else:
        w, b = material.split("|")
        if r.random() < 0.5:
            w, b = b.upper(), w.lower()
        else:
            w, b = w.upper(), b.lower()
    cx, cy = r.choice([0, 7]), r.choice([0, 7])

    def pick(pc):
        if not corner_bias or r.random() < 0.15:
            return r.randrange(8, 56) if pc in "Pp" else r.randrange(64)
        dx, dy = r.choice([0, 0, 0, 1, 1, 2, 3]), r.choice([0, 0, 1, 1, 1, 2, 3])
        x, y = abs(cx - dx), abs(cy - dy)
        if pc in "Pp":
            y = min(6, max(1, y))
        return y * 8 + x
    while True:
        board = ["."] * 64
        wk, bk = pick("K"), pick("k")
        if max(abs(wk % 8 - bk % 8), abs(wk // 8 - bk // 8)) <= 1:
            continue
        board[wk], board[bk] = "K", "k"
        ok = True
        for pc in w + b:
            for _ in range(50):
                s = pick(pc)
                if board[s] == ".":
                    board[s] = pc
                    break
            else:
                ok = False
        if ok:
            break
    hmc = r.choice([0, 0, 0, 3, 17, 39, 40, 45, 59, 63, 79, 80, 95, 100])
    return ("".join(board), r.choice("wb"), 0, -1, hmc, r.randrange(1, 80))


def spec_str(p):
    return f"{p[0]} {p[1]} {p[2]} {p[3]} {p[4]} {p[5]}"


# ---------------------------------------------------------------------------------------------
# history generation (pass 1: the harness picks legal moves and prints the concrete nn lines)
# ---------------------------------------------------------------------------------------------

def gen_scripts(ctx, nsess, with_set, maxops):
    r = ctx.rng
    lines = []
    if with_set:
        # one session that walks to the harness' depth limit (190 open moves) and back
        lines.append(f"nng new {START} w 15 -1 0 1")
        for k in range(196):
            lines.append(f"nng move {r.getrandbits(32)} 0")
            if k % 37 == 0: lines.append("nng eval")
        lines += ["nng un"] * 100 + ["nng copy"] + ["nng un"] * 100 + ["nng eval"]
    for _ in range(nsess):
        x = r.random()
        if x < 0.55:
            b, stm, cas, ep = r.choice(CRAFTED)
            spec = (b, stm, cas, ep, r.choice([0, 0, 5, 38, 39, 78, 99]), r.randrange(1, 60))
        elif x < 0.8:
            spec = random_position(r)
        else:
            spec = random_position(r, r.choice(ENDGAMES))
        lines.append("nng new " + spec_str(spec))
        nops = r.randrange(8, maxops)
        style = r.choice(["mixed", "deep", "shallow", "copyheavy"])
        if r.random() < 0.02:
            style, nops = "deep", r.randrange(200, 420)       # up to the harness' depth limit (190 open moves)
        i = 0
        depth = 0
        while i < nops:
            i += 1
            y = r.random()
            if style == "deep" and y < 0.6:
                y = 0.1
            if style == "copyheavy" and y < 0.15:
                y = 0.93
            if y < 0.35:
                lines.append(f"nng move {r.getrandbits(32)} 0"); depth += 1
            elif y < 0.55:
                lines.append(f"nng move {r.getrandbits(32)} 1"); depth += 1
            elif y < 0.72:
                for _ in range(r.choice([1, 1, 1, 2, 3, 8])):
                    lines.append("nng un"); depth = max(0, depth - 1)
            elif y < 0.84:
                lines.append("nng eval")
            elif y < 0.87:
                lines.append("nng null"); depth += 1
            elif y < 0.92 and with_set:
                # burst of direct setPiece calls on a flushed state: queue overflow at the fifth add / sub
                # direct setPiece is only well-formed when no move is waiting to be taken back
                if depth > 6 and r.random() < 0.5:
                    continue
                lines += ["nng un"] * depth
                depth = 0
                if r.random() < 0.8:
                    lines.append("nng eval")
                for _ in range(r.choice([1, 2, 3, 4, 5, 6, 7, 9])):
                    lines.append(f"nng set {r.getrandbits(40)}")
                if r.random() < 0.5:
                    lines.append("nng eval")
            elif y < 0.97:
                lines.append("nng copy")
            else:
                lines.append("nng reconnect")
        if style != "shallow":
            for _ in range(r.randrange(0, 12)):
                lines.append("nng un")
        lines.append("nng eval")
    return lines


def concretise(ctx, bdir, net, script):
    rc, out, err = vlib.run_lines(os.path.join(bdir, "vharness"), script, {"TEXEL_VERIF_NET": net})
    if rc != 0 or len(out) != len(script):
        raise RuntimeError(f"history generator died rc={rc}: {err[-400:]}")
    bad = [o for o in out if not o.startswith("nn ")]
    if bad:
        raise RuntimeError(f"history generator produced {bad[:3]}")
    return out


def sessions_of(lines, word="new"):
    starts = [i for i, l in enumerate(lines) if l.split()[1:2] == [word]]
    return [(s, e) for s, e in zip(starts, starts[1:] + [len(lines)])]


# ---------------------------------------------------------------------------------------------

class Nets:
    def __init__(self, bdir):
        self.bdir = bdir
        self.cache = {}

    def get(self, name):
        """name: 'formula:wide' | 'formula:narrow' | 'mknet:<kind>:<seed>'"""
        if name in self.cache:
            return self.cache[name]
        parts = name.split(":")
        if parts[0] == "formula":
            p = os.path.join(vlib.BUILD, f"net_formula2_{parts[1]}.bin")
            if not os.path.exists(p):
                anynet = vlib.net_file(self.bdir, "material", 1)
                rc, out, err = vlib.run_lines(os.path.join(self.bdir, "vharness"), [f"nn mknet {parts[1]} {p}.tmp"], {"TEXEL_VERIF_NET": anynet})
                if rc != 0 or out != ["ok"]:
                    raise RuntimeError(f"formula net generation failed: {out} {err[-300:]}")
                os.replace(p + ".tmp", p)
        else:
            p = vlib.net_file(self.bdir, parts[1], int(parts[2]))
        self.cache[name] = p
        return p


def run_impl(bdir, net, lines):
    rc, out, err = vlib.run_lines(os.path.join(bdir, "vharness"), lines, {"TEXEL_VERIF_NET": net})
    return rc, out, err


def impl_died(ctx, what, variant, netname, lines, sessions, rc, out, err):
    k = len(out)
    ctx.violation(f"{what}: implementation harness died (rc={rc}) after {k} of {len(lines)} operations (variant {variant}, net {netname})",
                  {"kind": "impl-crash", "variant": variant, "net": netname, "rc": rc, "stderr": err,
                   "input": vlib.session_of(lines, sessions, min(k, len(lines) - 1))})


def check_history_outputs(ctx, name, variant, netname, lines, out, sessions):
    """property predicate on the implementation: every reply ends with ok (incremental == fresh evaluator)"""
    nbad = 0
    for i, o in enumerate(out):
        if o.endswith(" ok") or o in ("bad-op", "ok wide", "ok narrow"):
            continue
        nbad += 1
        if nbad <= 2:
            ctx.violation(f"{name}: after `{lines[i]}` the incrementally updated evaluator differs from a fresh evaluator on the same position: {o}",
                          {"kind": "incremental-vs-fresh", "variant": variant, "net": netname,
                           "input": vlib.session_of(lines, sessions, i), "impl_output": o})
    return nbad


def diff_model(ctx, name, netname, lines, sessions, nets, bdir):
    net = nets.get(netname)
    rc1, out1, err1 = run_impl(bdir, net, lines)
    if rc1 != 0 or len(out1) != len(lines):
        impl_died(ctx, name, "plain", netname, lines, sessions, rc1, out1, err1)
        return None
    rc2, out2, err2 = vlib.run_lines(vlib.driver_bin(), lines)
    ctx.tie(name, kind="differential (real Position+NNEvaluator vs compiled Lean model of nneval.cpp, same input lines): stack depth, "
            "kingSqComputed, toAdd/toSub queues in order, 4 accumulator lanes of the formula network, after every operation",
            lines=len(lines), net=netname)
    ctx.count(len(lines))
    nbad = check_history_outputs(ctx, name, "plain", netname, lines, out1, sessions)
    if rc2 != 0 or len(out2) != len(lines):
        ctx.violation(f"{name}: Lean driver died (rc={rc2})", {"kind": "model-crash", "stderr": err2[-800:]}, no_input=True)
        return out1
    if nbad == 0:
        for i, (a, b) in enumerate(zip(out1, out2)):
            if a != b:
                ctx.violation(f"{name}: model and implementation disagree on `{lines[i]}`: impl `{a}` model `{b}`",
                              {"kind": "correspondence", "tie": name, "net": netname, "variant": "plain",
                               "theorem_scope": "Props/C07.lean incremental_refines (the Lean model of nneval.cpp / position.cpp notifications no longer corresponds to the code)",
                               "input": vlib.session_of(lines, sessions, i), "impl": a, "model": b}, no_input=True)
                break
    return out1


def gen_sym(ctx, n):
    r = ctx.rng
    lines = []
    for i in range(n):
        x = r.random()
        if x < 0.65:
            p = random_position(r, ENDGAMES[i % len(ENDGAMES)], corner_bias=r.random() < 0.8)
        elif x < 0.9:
            p = random_position(r)
        else:
            b, stm, cas, ep = r.choice(CRAFTED)
            p = (b, stm, cas, ep, r.choice([0, 7, 44, 99]), 1)
        ct = r.choice([0, 0, 0, 25, -40, 100])
        lines.append(f"nne sym {spec_str(p)} {ct}")
    return lines


def check_sym(ctx, variant, netname, lines, out):
    skipped = 0
    for l, o in zip(lines, out):
        if o == "skip":
            skipped += 1
            continue
        p = o.split()
        if len(p) != 3 or p[0] != p[1] or (p[2] != "-" and p[2] != p[0]):
            what = "colour-flipped" if len(p) == 3 and p[0] != p[1] else "left-right mirrored"
            ctx.violation(f"static evaluation differs for the {what} position: `{l}` -> {o} (original, colour-flipped with contempt negated, mirrored)",
                          {"kind": "symmetry", "variant": variant, "net": netname, "input": [l], "impl_output": o})
            return skipped
    return skipped


def gen_cache_sessions(ctx, bdir, net, nsess):
    """Evaluate-level sessions: make/unmake walks with evalPos at every node, contempt and half-move-clock changes"""
    r = ctx.rng
    script = gen_scripts(ctx, nsess, with_set=False, maxops=40)
    conc = concretise(ctx, bdir, net, script)
    lines = []
    # the confirmed-defect pattern first: same position, contempt c then -c
    lines += [f"nne new {START} w 15 -1 0 1", "nne contempt 50", "nne evalpos", "nne contempt -50", "nne evalpos", "nne contempt 0", "nne evalpos"]
    for l in conc:
        t = l.split()
        if t[1] in ("new", "mk", "un", "null", "copy"):
            lines.append("nne " + " ".join(t[1:]))
            if t[1] == "new" and r.random() < 0.7:
                lines.append(f"nne contempt {r.choice([0, 10, 50, -50, 200, -7])}")
        elif t[1] in ("eval", "reconnect"):
            pass
        lines.append("nne evalpos")
        y = r.random()
        if y < 0.12:
            lines.append(f"nne contempt {r.choice([0, 10, 50, -50, 200, -7, 33])}")
            lines.append("nne evalpos")
        elif y < 0.2:
            lines.append(f"nne hmc {r.choice([0, 9, 10, 39, 40, 41, 49, 50, 79, 80, 81, 99, 100])}")
            lines.append("nne evalpos")
    return lines


def check_cache(ctx, variant, netname, lines, out, sessions):
    for i, (l, o) in enumerate(zip(lines, out)):
        if l == "nne evalpos":
            p = o.split()
            if len(p) != 2 or p[0] != p[1]:
                ctx.violation(f"Evaluate::evalPos returned {p[0] if p else o} but evaluating the same position with the same contempt on fresh tables gives {p[1] if len(p) > 1 else '?'} (cache / incremental state changed the result)",
                              {"kind": "evalpos-vs-fresh", "variant": variant, "net": netname, "input": vlib.session_of(lines, sessions, i), "impl_output": o})
                return False
        elif o not in ("ok",):
            ctx.violation(f"unexpected reply `{o}` to `{l}`", {"kind": "harness", "variant": variant, "net": netname, "input": vlib.session_of(lines, sessions, i)}, no_input=True)
            return False
    return True


def gen_search(ctx, n, depth):
    r = ctx.rng
    lines = []
    for i in range(n):
        x = r.random()
        if x < 0.4:
            b, stm, cas, ep = r.choice(CRAFTED)
            p = (b, stm, cas, ep, 0, 1)
        elif x < 0.7:
            p = random_position(r)
        else:
            p = random_position(r, r.choice(ENDGAMES))
        d = depth if p[0].count(".") < 56 else depth + 1
        lines.append(f"nne search {spec_str(p)} {d} {r.choice([0, 0, 30, -30])}")
    return lines


def check_search(ctx, variant, netname, lines, out):
    evals = 0
    for l, o in zip(lines, out):
        if o == "skip":
            continue
        f = dict(x.split("=", 1) for x in o.split() if "=" in x)
        if "evals" not in f:
            ctx.violation(f"unexpected reply `{o}` to `{l}`", {"kind": "harness", "variant": variant, "net": netname, "input": [l]}, no_input=True)
            return evals
        evals += int(f["evals"])
        if f.get("bad") != "0":
            ctx.violation(f"inside a real search ({l.split()[-2]} plies) {f.get('bad')} of {f['evals']} evaluations differed from a fresh evaluator; first at {o.split('first=')[-1]}",
                          {"kind": "search-hook", "variant": variant, "net": netname, "input": [l], "impl_output": o})
            return evals
    return evals


MALFORMED = ["nn", "nn new", "nn new x w 0 -1 0 1", f"nn new {START} x 0 -1 0 1", f"nn new {START} w 16 -1 0 1", f"nn new {START} w 0 64 0 1",
             f"nn new {START} w 0 -2 0 1", f"nn new {START} w 0 -1 101 1", f"nn new {START} w 0 -1 0 0", f"nn new {START[:-1]}x w 0 -1 0 1",
             f"nn new {START[:-1]} w 0 -1 0 1", f"nn new {START.replace('K', 'Q')} w 0 -1 0 1", f"nn new {START.replace('.', 'K', 1)} w 0 -1 0 1",
             f"nn new {START} w 0x1 -1 0 1", f"nn new {START} w 1e1 -1 0 1", f"nn new {START} w 0 -1 0 1 7", "nn mk 12 28", "nn mk 12 28 0 0", "nn mk 64 28 0",
             "nn mk 12 12 0", "nn mk -1 3 0", "nn mk 12 28 1", "nn mk 12 28 6", "nn mk 12 28 7", "nn mk 12 28 12", "nn mk 20 28 0", "nn mk 3 4 0", "nn mk a b c",
             "nn set 4 2", "nn set 12 1", "nn set 12 7", "nn set 12 13", "nn set 64 2", "nn set 12", "nn set 12 -1", "nn un 1", "nn eval 1", "nn copy x",
             "nn null 0", "nn reconnect now", "nn frob", "nn kind", "nn kind tiny", "nn mk 99999999999999999999 1 0", "nn set 0x10 2"]
# well-formed groups that leave the start position (and the legality of e2e4 / g1f3) intact
VALID_GROUPS = [["nn mk 12 28 0", "nn un"], ["nn mk 012 028 0", "nn un"], ["nn mk 12 28 00", "nn un"], ["nn mk 6 21 0", "nn eval", "nn un"], ["nn eval"], ["nn copy"],
                ["nn null", "nn un"], ["nn set 40 3", "nn set 40 0"], ["nn un"], ["nn reconnect"], ["nn mk 12 28 0", "nn set 40 3", "nn un"],
                ["nn mk 12 28 0", "nn copy", "nn set 41 4", "nn un"]]


def gen_malformed(ctx):
    r = ctx.rng
    lines = ["nn kind wide", "nn eval", "nn mk 12 28 0", "nn un", "nn set 20 2"]          # before any `new`: inactive
    lines += MALFORMED
    lines.append(f"nn new {START} w 15 -1 0 1")
    for _ in range(400):
        if r.random() < 0.5:
            lines.append(r.choice(MALFORMED))
        else:
            lines += r.choice(VALID_GROUPS)
    # too many non-king pieces through set
    lines.append(f"nn new {'K' + '.' * 62 + 'k'} w 0 -1 0 1")
    for s in range(8, 42):
        lines.append(f"nn set {s} 6")
    return lines


def run(ctx):
    quick = ctx.tier == "quick"
    bdir = vlib.cxx_build("plain", ("vharness", "mknet"))
    nets = Nets(bdir)
    if ctx.replay:
        return replay(ctx, bdir, nets)
    vlib.lean_obligations(ctx)
    ctx.cov["rule"] = ("histories: start / castling / promotion / en-passant / random-material / endgame positions x random walks of legal moves (special moves preferred), "
                       "take-backs (also below the evaluator's stack bottom after a position copy), null moves, position copies, reconnects, bursts of 1..9 direct setPiece calls, "
                       "explicit evaluations; predicate after every operation; nets: formula (wide = full int16 range, narrow) compared with the model, mknet small/big/material impl-only; "
                       "symmetry pairs: random material + " + str(len(ENDGAMES)) + " endgame signatures x contempt; cache sessions: evalPos at every node with contempt / half-move-clock changes; "
                       "hooked fixed-depth searches; cross-build: identical replies of the SIMD builds; distinct = distinct operation lines")
    ctx.assumptions += ["moves given to the model are legal (the harness rejects others as `illegal`); en passant is recognised in the model as a pawn changing file onto an empty square",
                        "the harness reads private members of NNEvaluator / Evaluate via #define private public",
                        "layers after the accumulator, material correction and endGameEval.cpp are covered by differential runs only (no theorem)",
                        "no 64-bit cache-key collisions (explicit hypothesis of cache_transparent)"]
    nsess = 800 if quick else 8000
    # ---- (a) histories ----------------------------------------------------------------------
    script = gen_scripts(ctx, nsess, with_set=True, maxops=70 if quick else 120)
    conc = concretise(ctx, bdir, nets.get("formula:wide"), script)
    sessions = [(s + 1, e + 1) for s, e in sessions_of(conc)]
    for l in conc: ctx.distinct(l)
    for l in conc[:3]: ctx.sample({"op": l})
    outs = {}
    for kind in ("wide", "narrow"):
        lines = [f"nn kind {kind}"] + conc
        outs[kind] = diff_model(ctx, f"histories-{kind}", f"formula:{kind}", lines, sessions, nets, bdir)
    stats = {"overflow_invalidations": 0, "pop_at_bottom": 0, "max_depth": 0, "max_queue": 0}
    if outs["wide"]:
        prev = None
        for l, o in zip(["nn kind wide"] + conc, outs["wide"]):
            t = o.split()
            if len(t) > 8 and t[1] == "W":
                stats["max_depth"] = max(stats["max_depth"], int(t[0]))
                stats["max_queue"] = max(stats["max_queue"], o.count(","))
                if l.startswith("nn set") and prev and prev.split()[2] != "-" and t[2] == "-":
                    stats["overflow_invalidations"] += 1
                if l == "nn un" and prev and prev.split()[0] == "0" and t[0] == "0":
                    stats["pop_at_bottom"] += 1
                prev = o
    ctx.tie("histories-wide", **{"paths_" + k: v for k, v in stats.items()})
    # malformed / out-of-domain stream
    ml = gen_malformed(ctx)
    diff_model(ctx, "malformed", "formula:wide", ml, None, nets, bdir)
    # other networks: implementation-only predicate
    other = ["mknet:small:%d" % ctx.seed, "mknet:material:%d" % ctx.seed] + ([] if quick else ["mknet:big:%d" % ctx.seed, "mknet:small:%d" % (ctx.seed + 100)])
    sub = conc if not quick else conc[:sessions[len(sessions) // 2][0] - 1]
    for netname in other:
        rc, out, err = run_impl(bdir, nets.get(netname), sub)
        ctx.count(len(sub))
        if rc != 0 or len(out) != len(sub):
            impl_died(ctx, "histories", "plain", netname, sub, None, rc, out, err)
        else:
            check_history_outputs(ctx, "histories", "plain", netname, sub, out, None)
        ctx.tie("histories-" + netname, kind="implementation-only predicate: incremental evaluator == fresh evaluator (512 accumulator lanes, clipped layer, score) after every operation", lines=len(sub))
    # ---- (b) symmetry, (d) cache, (e) hooked searches ------------------------------------------
    symnet = "mknet:material:%d" % ctx.seed
    sym = gen_sym(ctx, 24000 if quick else 400000)
    cache = gen_cache_sessions(ctx, bdir, nets.get(symnet), 200 if quick else 3000)
    search = gen_search(ctx, 50 if quick else 600, 5 if quick else 6)
    csess = sessions_of(cache)
    eval_lines = sym + cache + search
    for l in sym[:2] + search[:1]: ctx.sample({"op": l})
    results = {}
    ctx.log(f"histories done ({len(conc)} ops x 2 formula nets vs model, {len(other)} other nets)")
    enets = [symnet, "formula:narrow"] if quick else [symnet, "formula:narrow", "mknet:small:%d" % ctx.seed, "mknet:big:%d" % ctx.seed]
    from concurrent.futures import ThreadPoolExecutor
    with ThreadPoolExecutor(max_workers=4) as ex:
        futs = {n: ex.submit(run_impl, bdir, nets.get(n), eval_lines) for n in enets}
    for netname in enets:
        rc, out, err = futs[netname].result()
        ctx.log(f"evaluate-level lines done on {netname}")
        ctx.count(len(eval_lines))
        if rc != 0 or len(out) != len(eval_lines):
            impl_died(ctx, "evaluate-level", "plain", netname, eval_lines, None, rc, out, err)
            continue
        results[netname] = out
        o_sym, o_cache, o_search = out[:len(sym)], out[len(sym):len(sym) + len(cache)], out[len(sym) + len(cache):]
        skipped = check_sym(ctx, "plain", netname, sym, o_sym)
        check_cache(ctx, "plain", netname, cache, o_cache, csess)
        evals = check_search(ctx, "plain", netname, search, o_search)
        ctx.tie("symmetry-" + netname, kind="implementation-only predicate: evalPos(pos, c) == evalPos(colour-flipped pos, -c) == evalPos(mirrored pos, c) on fresh tables", pairs=len(sym) - skipped, skipped_illegal=skipped)
        ctx.tie("cache-" + netname, kind="implementation-only predicate: Evaluate::evalPos (shared tables, incremental state) == evalPos on fresh tables, at every node", evalpos=sum(1 for l in cache if l == "nne evalpos"))
        ctx.tie("search-hook-" + netname, kind="TEXEL_VERIF hook in Evaluate::evalPos: every network evaluation inside real fixed-depth searches compared with a fresh evaluator (accumulators + score)", searches=len(search), evaluations=evals)
    for l in eval_lines: ctx.distinct(l)
    # ---- (c) SIMD builds ------------------------------------------------------------------------
    variants = ["avx2"] if quick else ["ssse3", "avx2", "avx512"]
    xlines = ["nn kind wide"] + (conc if not quick else sub)
    vbs = {v: vlib.cxx_build(v, ("vharness",)) for v in variants}
    jobs = [(v, netname, lines, ref) for v in variants
            for netname, lines, ref in [("formula:wide", xlines, (outs["wide"] or [])[:len(xlines)]), (symnet, eval_lines, results.get(symnet))] if ref]
    with ThreadPoolExecutor(max_workers=4) as ex:
        xf = [ex.submit(run_impl, vbs[v], nets.get(netname), lines) for v, netname, lines, ref in jobs]
    for v in variants:
        ctx.log(f"cross-build {v}")
        for (v2, netname, lines, ref), fut in zip(jobs, xf):
            if v2 != v:
                continue
            rc, out, err = fut.result()
            ctx.count(len(lines))
            if rc != 0 or len(out) != len(lines):
                impl_died(ctx, "cross-build", v, netname, lines, None, rc, out, err)
                continue
            for i, (a, b) in enumerate(zip(ref, out)):
                if a != b:
                    ctx.violation(f"SIMD build {v} and the generic build disagree on `{lines[i]}`: generic `{a}` {v} `{b}`",
                                  {"kind": "cross-build", "variant": v, "net": netname,
                                   "input": vlib.session_of(lines, sessions if lines is xlines else None, i), "generic": a, "simd": b})
                    break
        ctx.tie("cross-build-" + v, kind="same input lines through the generic and the SIMD build: identical replies (accumulator lanes, scores, search results)", lines=len(xlines) + len(eval_lines))
    if not quick:
        vlib.leanchecker(ctx, ["TexelVerif.Props.C07"])


def replay(ctx, bdir, nets):
    rp = ctx.replay["replay"]
    lines = rp.get("input", [])
    netname = rp.get("net", "formula:wide")
    variant = rp.get("variant", "plain")
    vlib.lake_build(["driver"])
    if netname.startswith("formula:") and lines and not lines[0].startswith("nn kind") and all(l.startswith("nn ") for l in lines):
        lines = [f"nn kind {netname.split(':')[1]}"] + lines
    rc, out, err = run_impl(bdir, nets.get(netname), lines)
    model = None
    if all(l.startswith("nn ") for l in lines):
        _, model, _ = vlib.run_lines(vlib.driver_bin(), lines)
    other = None
    if variant != "plain":
        vb = vlib.cxx_build(variant, ("vharness",))
        _, other, _ = run_impl(vb, nets.get(netname), lines)
    for i, l in enumerate(lines):
        print(l)
        print("   impl : " + (out[i] if i < len(out) else "<died>"))
        if model: print("   model: " + (model[i] if i < len(model) else "<died>"))
        if other: print(f"   {variant}: " + (other[i] if i < len(other) else "<died>"))
    ctx.count(len(lines)); ctx.distinct("replay"); ctx.distinct("replay2")
    still = False
    if rc != 0 or len(out) != len(lines):
        still = True
    for l, o in zip(lines, out):
        if "MISMATCH" in o: still = True
        if l == "nne evalpos" and len(o.split()) == 2 and o.split()[0] != o.split()[1]: still = True
        if l.startswith("nne sym") and o != "skip":
            p = o.split()
            if len(p) == 3 and (p[0] != p[1] or (p[2] != "-" and p[2] != p[0])): still = True
        if l.startswith("nne search") and " bad=0" not in o and o != "skip": still = True
    if model and out != model: still = True
    if other and out != other: still = True
    if still:
        ctx.violation("replay still fails", rp, no_input=bool(ctx.replay.get("no_failing_input_found")))
