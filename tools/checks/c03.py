"""C03 — every search result is a legal, well-formed answer in any configuration.
Lean: Props/C03.lean (root bookkeeping with arbitrary scores and stop points: best move ∈ root moves, ≥1 root
move at reduced strength, searchmoves filter, multi-PV distinctness, mate formatting; exactness of the PV acceptor).
Tie: the real texel binary (synthetic nets via the TEXEL_VERIF_NET hook) is run over positions x limits x options;
every info/bestmove line is audited with the proven chess model running in the compiled Lean driver."""
import os, concurrent.futures as cf
import vlib, uci, chessgen


def option_sets(rng, n):
    sets = [{}]
    for _ in range(n - 1):
        o = {}
        if rng.random() < 0.5: o["Hash"] = rng.choice([1, 2, 4, 16, 64])
        if rng.random() < 0.5: o["Threads"] = rng.choice([1, 2, 3, 4, 8])
        if rng.random() < 0.5: o["MultiPV"] = rng.choice([1, 2, 3, 5])
        if rng.random() < 0.4: o["Strength"] = rng.choice([0, 1, 50, 199, 200, 500, 999, 1000])
        if rng.random() < 0.15: o["UCI_LimitStrength"] = "true"; o["UCI_Elo"] = rng.choice([-625, 0, 1500, 2900])
        if rng.random() < 0.2: o["MaxNPS"] = rng.choice([2000, 20000, 100000])
        if rng.random() < 0.3: o["UseNullMove"] = rng.choice(["true", "false"])
        if rng.random() < 0.3: o["UCI_AnalyseMode"] = rng.choice(["true", "false"])
        if rng.random() < 0.3: o["Contempt"] = rng.choice([-2000, -50, 0, 50, 2000])
        sets.append(o)
    return sets


def go_cmd(rng, legal, slow=False):
    r = rng.random()
    if slow:      # throttled node rate (MaxNPS / UCI_LimitStrength) or reduced strength (skipped moves defeat
                  # alpha-beta cut-offs, so depth-limited searches explode): keep the node budget small
        r = rng.choice([0.2, 0.5, 0.65, 0.65, 0.8])
    sm = ""
    if legal and rng.random() < 0.3:
        k = rng.randrange(1, min(4, len(legal)) + 1)
        sm = " searchmoves " + " ".join(rng.sample(legal, k))
    if r < 0.45: g = f"go depth {rng.randrange(1, 4 if slow else 8)}"
    elif r < 0.6: g = f"go nodes {rng.choice([1, 10, 500, 3000] if slow else [1, 10, 500, 5000, 20000])}"
    elif r < 0.75: g = f"go movetime {rng.choice([1, 5, 30, 80])}"
    elif r < 0.85:
        g = f"go wtime {rng.choice([1, 50, 2000])} btime {rng.choice([1, 50, 2000])} winc {rng.choice([0, 10])} binc {rng.choice([0, 10])}"
        if rng.random() < 0.5: g += f" movestogo {rng.choice([1, 5, 40])}"
    elif r < 0.93: g = f"go mate {rng.randrange(1, 4)} depth 6"
    else: g = "go infinite"
    # (ponder only with time-based limits: depth/node limits are dropped by startPonder and not re-installed by ponderhit,
    #  so such a search runs until `stop` — noted in DESIGN.md, outside this property)
    if not slow and rng.random() < 0.25 and ("movetime" in g or "wtime" in g):
        g = g.replace("go ", "go ponder ", 1)      # released by `ponderhit` in session()
    return g + sm


def session(args):
    """one engine process: a list of (fen, go) under one option set; returns audit records"""
    variant, net, opts, jobs, legal_of = args
    recs = []
    eng = uci.Engine(variant, net[0], net[1])
    try:
        eng.handshake()
        for k, v in opts.items():
            eng.setoption(k, v)
        eng.isready()
        for fen, go in jobs:
            stop_after = (0.0 if " searchmoves " in go and go.startswith("go infinite") else 0.05) if "infinite" in go else None
            try:
                if " ponder " in go:
                    eng.send(f"position fen {fen}"); eng.send(go)
                    import time as _t; _t.sleep(0.03)
                    eng.send("ponderhit")
                    out = eng.read_until(lambda l: l.startswith("bestmove"), 120)
                else:
                    out = eng.go(f"position fen {fen}", go, timeout=120, stop_after=stop_after)
            except uci.EngineDied as e:
                recs.append({"fen": fen, "go": go, "opts": opts, "error": str(e)[:400], "transcript": eng.transcript[-40:]})
                return recs
            except TimeoutError as e:
                # a limited search that is merely slow (reduced strength / MaxNPS / many threads on a loaded machine) is not a C03 matter
                # (C05/C06 judge answering in time): stop it, audit what it printed; only an engine that does not answer `stop` is reported
                out = list(getattr(e, "lines", []))
                try:
                    eng.send("stop"); out += eng.read_until(lambda l: l.startswith("bestmove"), 60)
                except (uci.EngineDied, TimeoutError) as e2:
                    recs.append({"fen": fen, "go": go, "opts": opts, "error": "no answer to stop after a search that ran over 120 s: " + str(e2)[:300], "transcript": eng.transcript[-40:]})
                    return recs
                recs.append({"fen": fen, "go": go, "opts": opts, "out": out, "stopped_after_120s": True})
                continue
            recs.append({"fen": fen, "go": go, "opts": opts, "out": out})
        rc = eng.quit()
        if rc != 0:
            recs.append({"fen": None, "go": "quit", "opts": opts, "error": f"exit status {rc}", "transcript": eng.transcript[-20:], "stderr": eng.err[-20:]})
    finally:
        eng.kill()
    return recs


def run(ctx):
    quick = ctx.tier == "quick"
    r = ctx.rng
    vlib.lean_obligations(ctx)
    ctx.assumptions += ["the C++ root loop is an instance of the modelled transition system (Search/Root.lean) — by reading; tied only through the output audit",
                        "synthetic evaluation networks (material-like / random) instead of the shipped one (emptied in this sandbox)",
                        "no 64-bit hash collisions"]
    if ctx.replay:
        rp = ctx.replay["replay"]
        recs = session(("plain", tuple(rp.get("net", ("material", 1))), rp.get("opts", {}), [(rp["fen"], rp["go"])], None))
        for x in recs: print(x)
        bad = audit(ctx, recs)
        ctx.count(1); ctx.distinct("a"); ctx.distinct("b")
        return
    # positions: random games + motifs (mates, stalemates, single-move roots come from chessgen seeds and games)
    npos, nsets = (1500, 48) if quick else (30000, 600)
    fens = chessgen.games(ctx, 30 if quick else 600, 140) + chessgen.synthetic(r, npos)
    bdir = vlib.cxx_build("plain", ("vharness", "texel", "mknet"))
    rc, out, err = vlib.run_lines(os.path.join(bdir, "vharness"), [f"chess legal {f}" for f in fens])
    pos = [(f, o.split()[1:]) for f, o in zip(fens, out) if not o.startswith("err") and o != "bad-op"]
    special = [p for p in pos if len(p[1]) <= 1]            # no-legal-move and single-move roots
    r.shuffle(pos)
    pos = special[:40 if quick else 2000] + pos[:npos]
    nets = [("material", 1), ("small", 2), ("big", 3)]
    for k, sd in nets: vlib.net_file(bdir, k, sd)
    # PV extraction under adversarial table contents (legal / only-pseudo-legal / garbage hash moves planted along a line)
    tl = [f"chess ttpv {r.getrandbits(40)} {f}" for f, legal in pos for _ in range(2 if quick else 6) if legal]
    rc, tout, terr = vlib.run_lines(os.path.join(bdir, "vharness"), tl)
    if rc != 0 or len(tout) != len(tl):
        ctx.violation("harness died in extractPVMoves under planted table contents", {"kind": "impl-crash", "input": tl[min(len(tout), len(tl) - 1):][:1], "stderr": terr})
    else:
        ql = [f"chess line {l.split(' ', 3)[3]} {o[3:]}" for l, o in zip(tl, tout) if o.startswith("pv ")]
        rc, qres, qerr = vlib.run_lines(vlib.driver_bin(), ql)
        ctx.count(len(ql)); ctx.tie("pv-extraction-adversarial-tt", kind="TranspositionTable::extractPVMoves on planted hash-move chains, audited by Chess.playLine", lines=len(ql),
                                    pv_len_hist={str(k): sum(1 for o in tout if len(o.split()) - 1 == k) for k in range(1, 14)})
        for q, v in zip(ql, qres):
            if not v.startswith("ok"):
                ctx.violation(f"extractPVMoves produced an unplayable PV under planted table contents ({v}): {q}", {"kind": "property-predicate", "input": [q], "audit": v})
                break
    sets = option_sets(r, nsets)
    jobs_per = max(1, len(pos) // len(sets))
    sessions = []
    for i, o in enumerate(sets):
        chunk = pos[i * jobs_per:(i + 1) * jobs_per]
        if not chunk: continue
        slow = "MaxNPS" in o or "UCI_LimitStrength" in o or o.get("Strength", 1000) < 1000
        jobs = []
        for f, legal in chunk:
            jobs.append((f, go_cmd(r, legal, slow)))
            if legal and len(legal) >= 2 and r.random() < 0.2:
                # a second search of the same root in the same process (warm table, previous best move known to the engine), cut off at
                # once and restricted to other moves: whatever the engine remembers must not leak past the restriction
                k = r.randrange(1, min(3, len(legal) - 1) + 1)
                jobs.append((f, r.choice(["go nodes 1", "go nodes 2", "go depth 1", "go infinite"]) + " searchmoves " + " ".join(r.sample(legal, k))))
        sessions.append(("plain", nets[i % len(nets)], o, jobs, None))
    with cf.ThreadPoolExecutor(max(2, vlib.NCPU // 3)) as ex:
        allrecs = [x for rs in ex.map(session, sessions) for x in rs]
    audit(ctx, allrecs)
    ctx.cov["rule"] = ("searches = positions (random legal games, synthetic motifs incl. mate/stalemate and single-move roots, clocks 98..100) x go limits "
                       "{depth, nodes, movetime, clock, mate, infinite+stop, searchmoves subsets} x option sets {Hash, Threads, MultiPV, Strength, UCI_LimitStrength/UCI_Elo, MaxNPS, UseNullMove, "
                       "UCI_AnalyseMode, Contempt} x 3 synthetic nets; distinct = distinct (position, go, options); every info/bestmove line audited by the Lean chess model")
    if not quick:
        vlib.leanchecker(ctx, ["TexelVerif.Props.C03"])


def audit(ctx, recs):
    """Audit UCI output with the Lean model.  Builds one batch of `chess line` queries."""
    queries, meta = [], []
    stats = {"searches": 0, "info_pv_lines": 0, "multipv_reports": 0, "mate_scores": 0, "null_bestmoves": 0, "ponder_moves": 0, "searchmoves": 0}
    for ri, rec in enumerate(recs):
        if "error" in rec:
            ctx.violation(f"engine failed during `{rec['go']}` on `{rec['fen']}` with options {rec['opts']}: {rec['error']}",
                          {"kind": "engine-failure", **{k: rec[k] for k in ("fen", "go", "opts", "error")}, "transcript": rec.get("transcript")})
            continue
        ctx.count(); ctx.distinct((rec["fen"], rec["go"], str(sorted(rec["opts"].items()))))
        stats["searches"] += 1
        fen, go = rec["fen"], rec["go"]
        sm = go.split(" searchmoves ")[1].split() if " searchmoves " in go else None
        stats["searchmoves"] += sm is not None
        heads = {}      # (depth, report serial) -> first moves, to test multipv distinctness
        last_key, serial = None, 0
        bm = None
        for line in rec["out"]:
            if line.startswith("info") and " pv " in line + " ":
                d = uci.parse_info(line)
                if "pv" not in d: continue
                stats["info_pv_lines"] += 1
                queries.append(f"chess line {fen} " + " ".join(d["pv"])); meta.append((ri, "pv", line))
                sk, sc = d.get("score_kind"), d.get("score")
                if sk == "cp" and not (-16000 <= sc <= 16000):
                    ctx.violation(f"cp score out of range: {line}", {"kind": "property-predicate", "fen": fen, "go": go, "opts": rec["opts"], "line": line})
                if sk == "mate":
                    stats["mate_scores"] += 1
                    if sc == 0 or abs(sc) > 16000:
                        ctx.violation(f"malformed mate distance: {line}", {"kind": "property-predicate", "fen": fen, "go": go, "opts": rec["opts"], "line": line})
                if sm is not None and d["pv"] and d["pv"][0] not in sm:
                    ctx.violation(f"PV starts with a move outside searchmoves: {line}", {"kind": "property-predicate", "fen": fen, "go": go, "opts": rec["opts"], "line": line})
                if "multipv" in d:
                    if d["multipv"] == 1: serial += 1; stats["multipv_reports"] += 1
                    heads.setdefault(serial, []).append(d["pv"][0] if d["pv"] else None)
            elif line.startswith("bestmove"):
                bm = uci.parse_bestmove(line)
        for s, hs in heads.items():
            if len(set(hs)) != len(hs):
                ctx.violation(f"multi-PV report with repeated first move {hs} for `{go}` on `{fen}`", {"kind": "property-predicate", "fen": fen, "go": go, "opts": rec["opts"], "heads": hs})
        if bm is None:
            ctx.violation(f"no bestmove for `{go}` on `{fen}`", {"kind": "property-predicate", "fen": fen, "go": go, "opts": rec["opts"]}); continue
        if bm["best"] == "0000":
            stats["null_bestmoves"] += 1
            queries.append(f"chess line {fen}"); meta.append((ri, "null", bm))
        else:
            mv = [bm["best"]] + ([bm["ponder"]] if bm["ponder"] else [])
            stats["ponder_moves"] += bm["ponder"] is not None
            queries.append(f"chess line {fen} " + " ".join(mv)); meta.append((ri, "best", bm))
            if sm is not None and bm["best"] not in sm:
                ctx.violation(f"bestmove {bm['best']} is not one of the requested searchmoves {sm} on `{fen}`", {"kind": "property-predicate", "fen": fen, "go": go, "opts": rec["opts"], "bestmove": bm})
            # the position had legal moves => must not be null: checked below through `legal=` of the empty line
            queries.append(f"chess line {fen}"); meta.append((ri, "nonnull", bm))
    if not queries:
        return
    rc, res, err = vlib.run_lines(vlib.driver_bin(), queries)
    if rc != 0 or len(res) != len(queries):
        ctx.violation("Lean driver died in the PV audit", {"kind": "model-crash", "stderr": err[-400:]}, no_input=True); return
    for q, (ri, kind, info), v in zip(queries, meta, res):
        rec = recs[ri]
        base = {"kind": "property-predicate", "fen": rec["fen"], "go": rec["go"], "opts": rec["opts"]}
        if kind in ("pv", "best"):
            if not v.startswith("ok"):
                ctx.violation(f"{'PV' if kind == 'pv' else 'bestmove/ponder'} is not a playable sequence of legal moves ({v}): {info} on `{rec['fen']}`", {**base, "line": info, "audit": v})
        elif kind == "null":
            if "legal=0" not in v:
                ctx.violation(f"null bestmove although legal moves exist on `{rec['fen']}` ({rec['go']})", {**base, "audit": v})
        elif kind == "nonnull":
            if "legal=0" in v:
                ctx.violation(f"bestmove {info} in a position without legal moves `{rec['fen']}`", {**base, "audit": v})
    for k, v in stats.items():
        ctx.cov.setdefault("audit_stats", {})[k] = ctx.cov.get("audit_stats", {}).get(k, 0) + v
    ctx.tie("uci-output-audit", kind="every info pv / bestmove line of the real binary checked by Chess.playLine in the Lean driver", lines=len(queries))
    for rec in recs[:2]:
        if "out" in rec:
            ctx.sample({"fen": rec["fen"], "go": rec["go"], "opts": rec["opts"], "tail": rec["out"][-2:]})
