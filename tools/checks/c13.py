"""C13 — with tablebase knowledge the engine reports exact results and keeps them.
Lean: Props/C13.lean (50-move margin = "mate completed by clock 100"; on-demand probe exact iff drawn or within the margin;
what the root may announce; swindle scores never mate scores; certified probe = score of the true distance, from C12).
Tie: translator regenerates rule50Margin / swindleScore (Bridge/TB); the real engine is run with `go infinite` + `stop` on
<= 4-man pawnless roots x half-move clocks x hash sizes x threads, and its final score / best move are audited against the
exact distance to mate (the engine's own generator as oracle — certified exhaustively by the C12 check)."""
import os, time, concurrent.futures as cf
import vlib, uci, xlate

CLASSES3 = ["Q", "R", "B", "N"]
CLASSES4 = ["Qr", "Qb", "Qn", "Qq", "Rr", "Rb", "Rn", "QR", "QB", "QN", "RR", "RB", "RN", "BB", "BN", "NN", "Bb", "Bn", "Nn", "QQ"]


def placements(rng, cls, n):
    """random placements of K + cls vs k (upper = strong side), both colour assignments and sides to move"""
    out = []
    tries = 0
    while len(out) < n and tries < n * 20:
        tries += 1
        board = {}
        sq = rng.sample(range(64), 2 + len(cls))
        flip = rng.random() < 0.5
        board[sq[0]] = "k" if flip else "K"; board[sq[1]] = "K" if flip else "k"
        for i, c in enumerate(cls):
            pc = c if c.isupper() != flip else c.swapcase()
            board[sq[2 + i]] = pc
        rows = []
        for y in range(7, -1, -1):
            row, e = "", 0
            for x in range(8):
                p = board.get(y * 8 + x)
                if p is None: e += 1
                else:
                    if e: row += str(e); e = 0
                    row += p
            if e: row += str(e)
            rows.append(row)
        out.append("/".join(rows) + (" w" if rng.random() < 0.5 else " b") + " - -")
    return out


# four-man classes in which no capture can let a mate outlive the root's 50-move window: a lone king against minor pieces only
# (whatever the king captures, the rest cannot mate), so the window counted from the root clock is exact as for three men
STRICT4 = ("BN", "BB", "NN")

# roots of other four-man material for searches that are stopped while their table is being generated
ABORT_ROOTS = ["8/8/8/3k4/8/2r5/8/KQ6 w - - 0 1", "8/8/4k3/8/2b5/8/1R6/K7 w - - 0 1", "7k/8/8/8/3n4/8/R7/K7 b - - 0 1", "8/8/8/3k4/8/8/1Q6/KR6 w - - 0 1",
               "6k1/8/8/8/8/1q6/8/K2Q4 b - - 0 1", "8/8/8/4k3/8/2B5/3N4/K7 w - - 0 1"]


def job(args):
    opts, items = args      # items: (fen, expect, value[, pre]) — pre: a command sent before `position` ("ucinewgame", "setoption name Clear Hash")
    recs, hist = [], []
    tgen = 0.0          # longest time from `go` to the first iteration line seen so far: an estimate of the table generation time
    eng = uci.Engine("plain", "material", 1)
    try:
        eng.handshake()
        for k, v in opts.items(): eng.setoption(k, v)
        eng.isready()
        for it in items:
            fen, expect, val = it[:3]
            pre = it[3] if len(it) > 3 else ""
            if pre.startswith("abort "):
                # a search on other material whose table generation is cut short by `stop`: whatever it leaves behind must not be used afterwards
                t = pre.split()
                eng.send("position fen " + " ".join(t[2:])); eng.send("go infinite")
                time.sleep(float(t[1]) * (tgen if tgen > 0.3 else 1.5))      # a fraction of the generation time measured in this process
                eng.send("stop")
                try:
                    eng.read_until(lambda l: l.startswith("bestmove"), 60)
                except (uci.EngineDied, TimeoutError) as e:
                    recs.append({"fen": fen, "opts": opts, "error": "interrupted search: " + str(e)[:300], "pre": pre, "history": list(hist)}); return recs
            elif pre:
                eng.send(pre); eng.isready()
            eng.send(f"position fen {fen}"); eng.send("go infinite")
            t_go, t_first = time.time(), None
            out, t_end, done = [], time.time() + 12.0, False
            want_mate = expect.startswith("mate")
            while time.time() < t_end and not done:
                for l in eng.drain(0.05):
                    out.append(l)
                    if l.startswith("info depth") and " pv " in l:
                        if t_first is None:
                            t_first = time.time() - t_go; tgen = max(tgen, t_first)
                        d = uci.parse_info(l)
                        # (an early iteration may announce a longer mate than the exact one: late root moves searched with reduced
                        #  depth are not probed yet — the audit judges the score the search settles on, not the first one)
                        beyond = expect == "nomate" and val != "draw"       # a forced mate exists but does not fit the 50-move window: search on,
                                                                             # a wrong announcement may need depth (and a well-filled table) to appear
                        if (want_mate and d.get("score_kind") == "mate" and "bound" not in d and d["depth"] >= 5) or d.get("depth", 0) >= (40 if beyond else 9):
                            done = True
                        if beyond and time.time() - t_go > 5.0: done = True
            eng.send("stop")
            try:
                out += eng.read_until(lambda l: l.startswith("bestmove"), 60)
            except (uci.EngineDied, TimeoutError) as e:
                recs.append({"fen": fen, "opts": opts, "error": str(e)[:300], "pre": pre, "history": list(hist)}); return recs
            recs.append({"fen": fen, "opts": opts, "expect": expect, "value": val, "out": out, "pre": pre, "history": list(hist)})
            hist.append([fen, pre])
            if len(it) > 4 and it[4]:
                # the table is resident now: a short timed search of the same root must still answer from it
                try:
                    out2 = eng.go(f"position fen {fen}", "go movetime 1200", timeout=60)
                except (uci.EngineDied, TimeoutError) as e:
                    recs.append({"fen": fen, "opts": opts, "error": "timed search: " + str(e)[:300], "pre": "timed", "history": list(hist)}); return recs
                recs.append({"fen": fen, "opts": opts, "expect": expect, "value": val, "out": out2, "pre": "timed", "history": list(hist)})
        eng.quit()
    finally:
        eng.kill()
    return recs


def run(ctx):
    quick = ctx.tier == "quick"
    r = ctx.rng
    xr = xlate.regenerate(ctx, ["TB"])      # first: Props/C13 imports Bridge/TB, which imports the regenerated kernels
    vlib.lean_obligations(ctx)
    ctx.assumptions += ["the distance-to-mate oracle is the engine's own generator (VectorStorage), certified exhaustively per class by the C12 check with the proven Lean checker",
                        "that the search propagates an exact probe result to the root is tied only by this audit (partial)", "synthetic evaluation network; no 64-bit hash collisions"]
    bdir = vlib.cxx_build("plain", ("vharness", "texel", "mknet"))
    vh = os.path.join(bdir, "vharness")
    vlib.net_file(bdir, "material", 1)
    if ctx.replay:
        rp = ctx.replay["replay"]
        if rp.get("pre") == "timed":
            h = rp.get("history", [])
            items = [(f, "nomate", "draw", pre) for f, pre in h[:-1]] + [(rp["fen"], rp.get("expect", "nomate"), rp.get("value", "draw"), h[-1][1] if h else "", True)]
        else:
            items = [(f, "nomate", "draw", pre) for f, pre in rp.get("history", [])] + [(rp["fen"], rp.get("expect", "nomate"), rp.get("value", "draw"), rp.get("pre", ""))]
        recs = job((rp.get("opts", {}), items))
        for x in recs[-1:]: print(x.get("out", x)[-3:] if "out" in x else x)
        ctx.count(1); ctx.distinct("a"); ctx.distinct("b")
        audit(ctx, vh, recs[-1:] if len(recs) >= len(items) else [x for x in recs if "error" in x])
        xlate.report(ctx, xr)
        return
    # on-demand probe kernel: model vs Python re-evaluation of the property's wording on a grid
    ql = []
    for _ in range(4000 if quick else 100000):
        n = r.randrange(1, 60); ply = r.randrange(0, 40); hmc = r.choice([0, 1, 50, 60, 90, 98, 99, 100, r.randrange(0, 101)])
        d = r.choice([32000 - ply - 2 * n, -(32000 - ply - 2 * n - 1), 0])
        ql.append((d, ply, hmc))
    rc, qo, _ = vlib.run_lines(vlib.driver_bin(), [f"tb13 ondemand {d} {p} {h}" for d, p, h in ql])
    ctx.count(len(ql))
    for (d, p, h), o in zip(ql, qo):
        plies = 32000 - 1 - abs(d) - p
        exp = f"{d} exact 0" if d == 0 or h + plies <= 100 else (f"0 lower {h + plies - 100}" if d > 0 else f"0 upper {-(h + plies - 100)}")
        if o != exp:
            ctx.violation(f"on-demand probe model disagrees with the property's wording for dtm={d} ply={p} hmc={h}: {o} vs {exp}", {"kind": "model", "input": [d, p, h]}, no_input=True); break
    # positions
    classes = CLASSES3 + (["Qr", "BN"] + r.sample([c for c in CLASSES4 if c not in ("Qr", "BN")], 1) if quick else CLASSES4)
    per = 14 if quick else 70
    hmcs = [0, 0, 30, 60, 80, 90, 95, 98, 99]
    sessions = []
    optsets = [{}, {"Hash": 8}, {"Threads": 2}, {"Threads": 4, "Hash": 64}, {"Hash": 32, "Threads": 3}, {"Hash": 128}]
    stats = {"classes": classes, "positions": 0, "won": 0, "lost": 0, "drawn": 0, "mate_outside_50_move_window": 0}
    for ci, cls in enumerate(classes):
        cand = [f"{p} {r.choice(hmcs)} {r.randrange(1, 90)}" for p in placements(r, cls, per * 3)]
        rc, fo, _ = vlib.run_lines(vh, [f"chess fen {f}" for f in cand])
        ok = list(dict.fromkeys(o[3:] for o in fo if o.startswith("ok ")))
        rc, dv, _ = vlib.run_lines(vh, [f"dtm of {f}" for f in ok])
        items, seen = [], {"win": 0, "loss": 0, "draw": 0}
        el = []
        for f, v in zip(ok, dv):
            k = v.split()[0]
            if k not in seen or v == "none": continue
            if k == "draw" and seen["draw"] >= per // 3: continue
            seen[k] += 1
            if (len(cls) == 1 or cls in STRICT4) and k != "draw" and r.random() < 0.6:
                # three men: no capture can prolong a win, so the 50-move window is exact — probe both sides of the boundary
                plies = 2 * int(v.split()[1]) - (1 if k == "win" else 0)
                t = f.split(); t[4] = str(min(99, max(0, (100 if r.random() < 0.5 else 101) - plies))); f = " ".join(t)      # the property quantifies over clocks 0..99
            el.append((f, v))
            if len(el) >= per: break
        rc, ex, _ = vlib.run_lines(vlib.driver_bin(), [f"tb13 expect {v.split()[0]} {v.split()[1] if ' ' in v else 0} {f.split()[4]}" for f, v in el])
        for (f, v), e in zip(el, ex):
            # a third of the roots follow `ucinewgame` / Clear Hash in the same process: the hosted table must be dropped or stay valid
            pre = r.choice(["", "", "", "", "ucinewgame", "setoption name Clear Hash"]) if items else ""
            if items and len(cls) == 2 and r.random() < 0.3:
                pre = f"abort {r.choice([0.3, 0.5, 0.7, 0.85, 1.0, 1.2])} {r.choice(ABORT_ROOTS)}"
            items.append((f, e, v, pre, r.random() < 0.25))
            stats["positions"] += 1; stats["won"] += v.startswith("win"); stats["lost"] += v.startswith("loss"); stats["drawn"] += v == "draw"
            stats["mate_outside_50_move_window"] += (v != "draw" and e == "nomate")
        sessions.append((optsets[ci % len(optsets)], items))
    with cf.ThreadPoolExecutor(max(2, vlib.NCPU // 3)) as ex:
        recs = [x for rs in ex.map(job, sessions) for x in rs]
    audit(ctx, vh, recs)
    ctx.cov["class_stats"] = stats
    xlate.report(ctx, xr)
    ctx.cov["rule"] = ("roots = random placements of every 3-man class and of 4-man classes (KQKR always; 2 more in quick, all 20 listed in thorough), both colour assignments and sides to move, "
                       "half-move clocks {0,30,60,80,90,95,98,99}; x {Hash 8..128, Threads 1..4}; a third of the roots preceded by `ucinewgame` / Clear Hash in the same process; `go infinite` until an exact mate score / depth 9 / 12 s, then `stop`; audited: final score vs expectedMate "
                       "(Lean), best move keeps a shortest mate / does not lose a draw (DTM oracle); distinct = distinct roots")
    if not quick:
        vlib.leanchecker(ctx, ["TexelVerif.Props.C13"])


def audit(ctx, vh, recs):
    q1, meta, late = [], [], []
    for rec in recs:
        if "error" in rec:
            ctx.violation(f"engine failed on `{rec['fen']}`: {rec['error']}", {"kind": "engine-failure", "fen": rec["fen"], "opts": rec["opts"], "pre": rec.get("pre", ""), "history": rec.get("history", [])}); continue
        ctx.count(); ctx.distinct(rec["fen"])
        last = None
        for l in rec["out"]:
            if l.startswith("info depth") and " pv " in l and " score " in l:
                d = uci.parse_info(l)
                if "bound" not in d: last = d
        bm = uci.parse_bestmove(rec["out"][-1])
        base = {"kind": "property-predicate", "fen": rec["fen"], "opts": rec["opts"], "expect": rec["expect"], "value": rec["value"],
                "final": last["raw"] if last else None, "bestmove": bm["best"], "pre": rec.get("pre", ""), "history": rec.get("history", [])}
        if last is None:
            if rec["value"].startswith("loss 0") or bm["best"] == "0000": continue
            ctx.violation(f"no exact score reported for `{rec['fen']}`", base); continue
        shown = f"mate {last['score']}" if last.get("score_kind") == "mate" else "nomate"
        men = sum(1 for c in rec["fen"].split()[0] if c.isalpha())
        minors_only = men == 4 and sorted(c.lower() for c in rec["fen"].split()[0] if c.isalpha() and c.lower() != "k") in (["b", "n"], ["b", "b"], ["n", "n"]) and \
            len({c.isupper() for c in rec["fen"].split()[0] if c.isalpha() and c.lower() != "k"}) == 1
        if shown != rec["expect"] and rec["expect"] == "nomate" and men == 4 and not minors_only and shown.startswith("mate") and rec["value"] != "draw":
            # The distance to mate does not fit the 50-move window counted from the root clock, but with four men a capture
            # inside the line resets the clock (e.g. Kxq, then K+Q v K is still mated in time).  Such an announcement is accepted
            # iff it is not shorter than the exact distance, has the right sign, and its PV is a legal line that ends in
            # checkmate after exactly the announced number of plies with a zeroing move before the clock reaches 100.
            n = int(rec["value"].split()[1]); m = last["score"]
            sign_ok = (m > 0) == rec["value"].startswith("win")
            plies = 2 * m - 1 if m > 0 else -2 * m
            late.append((rec, base, last, n, m, sign_ok, plies))
            continue
        if shown != rec["expect"]:
            ctx.violation(f"root `{rec['fen']}` has exact value `{rec['value']}` (half-move clock {rec['fen'].split()[4]}): expected `{rec['expect']}`, engine reported `{last['raw']}`", base)
            continue
        if bm["best"] and bm["best"] != "0000":
            q1.append(f"chess line {rec['fen']} {bm['best']}"); meta.append((rec, base))
    # announcements beyond the naive 50-move window (four men): replay the PV under the specification
    if late:
        lines = []
        for rec, base, last, n, m, sign_ok, plies in late:
            pv = last.get("pv", [])
            for k in range(1, len(pv) + 1):
                lines.append(f"chess line {rec['fen']} " + " ".join(pv[:k]))
        rc, lo, _ = vlib.run_lines(vlib.driver_bin(), lines)
        i = 0
        short = []      # judged further by the exact value of the PV's last position
        for rec, base, last, n, m, sign_ok, plies in late:
            pv = last.get("pv", [])
            res = lo[i:i + len(pv)]; i += len(pv)
            # What the property allows to demand of such an announcement (a PV is a playable line, not a proof of the score):
            # right sign, not shorter than the exact distance, the PV legal, and the PV not running into the 50-move limit
            # before its first zeroing move (in a pawnless ending only a capture lets the mate outlive the root's clock).
            ok = sign_ok and abs(m) >= n and len(pv) > 0 and all(x.startswith("ok") for x in res)
            if ok:
                clocks = [int(x.split()[6]) for x in res]
                prev = int(rec["fen"].split()[4])
                for j, c in enumerate(clocks):
                    if c <= prev and c == 0: break                      # zeroing move played
                    last_pos = j == len(clocks) - 1
                    mated_here = last_pos and "legal=0" in res[j] and "chk=1" in res[j]
                    if c >= 100 and not mated_here: ok = False; break   # the line reaches the limit without capture or mate
                    prev = c
            if ok:
                short.append((rec, base, last, m, plies, len(pv), " ".join(res[-1].split()[2:8]), res[-1]))
            else:
                ctx.violation(f"root `{rec['fen']}` (exact value `{rec['value']}`, clock {rec['fen'].split()[4]}): announced `mate {m}` is not supported by its PV under the 50-move rule: {last['raw']}", base)
        if short:
            rc, dv, _ = vlib.run_lines(vh, [f"dtm of {x[6]}" for x in short])
            for (rec, base, last, m, plies, k, leaf, leafres), v in zip(short, dv):
                winner_to_move = (m > 0) == (k % 2 == 0)
                t = v.split()
                mated = "legal=0" in leafres and "chk=1" in leafres
                good = (mated and not winner_to_move) or (len(t) == 2 and t[0] == ("win" if winner_to_move else "loss"))
                if not good:
                    ctx.violation(f"root `{rec['fen']}` (exact value `{rec['value']}`, clock {rec['fen'].split()[4]}): announced `mate {m}`; its PV ends after {k} plies in `{leaf}` whose exact value `{v}` "
                                  f"contradicts the announcement: {last['raw']}", {**base, "leaf": leaf, "leaf_value": v})
        ctx.cov.setdefault("late_mates_accepted_by_pv_replay", 0)
        ctx.cov["late_mates_accepted_by_pv_replay"] += len(late)
    if not q1: return
    rc, nxt, _ = vlib.run_lines(vlib.driver_bin(), q1)
    q2, m2 = [], []
    for (rec, base), a in zip(meta, nxt):
        if not a.startswith("ok"):
            ctx.violation(f"best move {base['bestmove']} is illegal in `{rec['fen']}`", base); continue
        q2.append("dtm of " + " ".join(a.split()[2:8])); m2.append((rec, base, a))
    rc, dv, _ = vlib.run_lines(vh, q2)
    for (rec, base, a), v in zip(m2, dv):
        val = rec["value"]
        if val.startswith("win") and rec["expect"].startswith("mate"):
            n = int(val.split()[1])
            mated = "legal=0" in a and "chk=1" in a
            ok = mated if n == 1 else v == f"loss {n - 1}"
            if not ok:
                ctx.violation(f"`{rec['fen']}` is won in {n}; after the best move {base['bestmove']} the opponent's value is `{v}` — not on a shortest mate", {**base, "after": v})
        elif val == "draw" or (val.startswith("win") and rec["expect"] == "nomate"):
            if v.startswith("win"):
                ctx.violation(f"`{rec['fen']}` is not lost, but after the best move {base['bestmove']} the opponent wins (`{v}`)", {**base, "after": v})
    ctx.tie("tablebase-root-audit", kind="final score and best move of the real engine vs expectedMate (Lean) and the exact distance to mate", roots=len(recs))
    for rec in recs[:2]:
        if "out" in rec: ctx.sample({"fen": rec["fen"], "value": rec["value"], "expect": rec["expect"], "tail": rec["out"][-2:]})
