"""C12 — on-demand endgame tables hold the exact distance to mate.
Lean: Props/C12.lean (certificate_sound: a table accepted by the executable checker is exact DTM at every legal
placement; probe_score; out-of-scope positions are not answered; updateTB abort state machine).
Tie: every run generates tables with the real TBGenerator in both storage back ends (VectorStorage, and TTStorage
inside a TranspositionTable via updateTB), dumps the bytes and runs the *proven* checker (compiled Lean) over every
placement of the class; index-level data of TBPosition vs the model; probeDTM vs the model incl. out-of-scope
positions; the game model vs Texel's ordinary move generator; abort injection at the points where generate() polls
its time limit, followed by hash traffic and probes; histories of updateTB/clear/stores vs the state-machine model."""
import concurrent.futures, itertools, os, shutil, subprocess, time
import vlib

NAMES = "QRBN"
JOBS = int(os.environ.get("VERIF_JOBS", "0"))
TMP = os.path.join(vlib.EVID, "tmp", "c12")


def classes(extra):
    return [c for c in itertools.product(range(extra + 1), repeat=8) if sum(c) == extra]


def cname(c):
    return "K" + "".join(NAMES[i] * c[i] for i in range(4)) + "K" + "".join(NAMES[i] * c[4 + i] for i in range(4))


def cstr(c):
    return " ".join(map(str, c))


def npos(c):
    return 20 * 64 ** (sum(c) + 1)


def codes_of(c):
    """piece codes of the non-king men of the class"""
    w = [2] * c[0] + [3] * c[1] + [4] * c[2] + [5] * c[3]
    b = [8] * c[4] + [9] * c[5] + [10] * c[6] + [11] * c[7]
    return w + b


def run_cmd(cmd, lines=None, timeout=7200):
    p = subprocess.run(cmd, input=("\n".join(lines) + "\n") if lines is not None else None, stdout=subprocess.PIPE,
                       stderr=subprocess.PIPE, text=True, errors="replace", timeout=timeout)
    out = p.stdout.split("\n")
    if out and out[-1] == "": out.pop()
    return p.returncode, out, p.stderr[-2000:]


# ---------------------------------------------------------------------------------------------
# tables: generation in both back ends + the proven checker
# ---------------------------------------------------------------------------------------------

def gen_tables(ctx, harness, c):
    """Generate the class with VectorStorage and with TTStorage (through updateTB), dump both.  Returns vec path or None."""
    base = os.path.join(TMP, cname(c) + "_" + "".join(map(str, c)))
    lines = [f"tb gen vec {cstr(c)} {base}.vec", f"tb gen tt {cstr(c)} {base}.tt"]
    rc, out, err = run_cmd([harness], lines)
    if rc != 0 or out != [f"ok {npos(c)}"] * 2:
        ctx.violation(f"{cname(c)}: table generation failed: {out} rc={rc}", {"kind": "impl-crash", "input": lines, "stderr": err, "output": out})
        return None
    a, b = open(base + ".vec", "rb").read(), open(base + ".tt", "rb").read()
    ctx.count(2 * npos(c))
    if a != b:
        i = next(k for k in range(min(len(a), len(b))) if a[k] != b[k]) if len(a) == len(b) else -1
        ctx.violation(f"{cname(c)}: the table generated inside the transposition table differs from the VectorStorage table at index {i}",
                      {"kind": "property-predicate", "what": "storage back ends disagree", "input": lines, "index": i,
                       "vec_byte": a[i] if i >= 0 else None, "tt_byte": b[i] if i >= 0 else None})
        # keep going: the checker below says which one (if any) is exact
    os.remove(base + ".tt") if a == b else None
    return base + ".vec"


def checker_jobs(c, path, units):
    """split the unit list into contiguous ranges"""
    chunk = 65 if sum(c) >= 2 else 1057
    jobs, units = [], sorted(units)
    i = 0
    while i < len(units):
        j = i
        while j + 1 < len(units) and units[j + 1] == units[j] + 1 and units[j + 1] - units[i] < chunk: j += 1
        jobs.append((c, path, units[i], units[j] + 1))
        i = j + 1
    return jobs


def run_checker(ctx, jobs, njobs, label):
    """run `driver tbchk` jobs in parallel; returns number of failures"""
    drv = vlib.driver_bin()
    fails = 0

    def one(job):
        c, path, lo, hi = job
        return job, run_cmd(["nice", "-n", "5", drv, "tbchk"] + list(map(str, c)) + [path, str(lo), str(hi)])

    t0 = time.time()
    with concurrent.futures.ThreadPoolExecutor(max_workers=njobs) as ex:
        for job, (rc, out, err) in ex.map(one, jobs):
            c, path, lo, hi = job
            placements = (hi - lo) * 65 ** sum(c) * 2
            ctx.count(placements)
            if rc == 0 and out == [f"ok units {lo} {hi}"]:
                continue
            fails += 1
            msg = out[0] if out else f"no output rc={rc} {err[-300:]}"
            if fails <= 2:
                unit = msg.split()[2:4] if msg.startswith("fail unit") else None
                ctx.violation(f"{cname(c)}: the proven certificate checker rejects the generated table: {msg[:400]}",
                              {"kind": "property-predicate", "what": "table entry is not the exact distance to mate (local rule fails)",
                               "input": {"counts": list(c), "class": cname(c), "unit": unit, "regenerate": f"tb gen vec {cstr(c)} <file>",
                                         "rerun": f"driver tbchk {cstr(c)} <file> {lo} {hi}"}, "checker_output": msg[:2000]})
    ctx.tie(label, kind="exhaustive run of the proven checker TB.checkUnit (compiled Lean) over dumped tables", jobs=len(jobs),
            seconds=round(time.time() - t0, 1))
    return fails


def run_aux(ctx, tables, njobs):
    drv = vlib.driver_bin()

    def one(t):
        c, path = t
        return t, run_cmd(["nice", "-n", "5", drv, "tbaux"] + list(map(str, c)) + [path, "0", str(npos(c))])

    with concurrent.futures.ThreadPoolExecutor(max_workers=njobs) as ex:
        for (c, path), (rc, out, err) in ex.map(one, tables):
            ctx.count(npos(c))
            if rc != 0 or out != [f"ok aux 0 {npos(c)}"]:
                ctx.violation(f"{cname(c)}: index audit failed (an index that is not a position is not INVALID / a king-capture index is not MATE_IN_0): {out[:1]}",
                              {"kind": "property-predicate", "what": "non-position index could be answered", "input": {"counts": list(c), "class": cname(c)},
                               "checker_output": (out or [err])[0][:500]})
    ctx.tie("index-audit", kind="TB.checkAux over every index of every dumped table", tables=len(tables))


# ---------------------------------------------------------------------------------------------
# differential blocks through the ordinary line protocol
# ---------------------------------------------------------------------------------------------

def diff_block(ctx, name, lines, pred=None):
    out1, out2, mis = vlib.diff_lines(ctx, name, lines, "plain")
    ctx.count(len(lines))
    for l in lines[:200000:997]: ctx.distinct(l)
    for l, o in list(zip(lines, out1))[:1]: ctx.sample({"op": l, "impl": o[:200]})
    bad = []
    if pred and len(out1) == len(lines):
        bad = pred(lines, out1)
        for i, msg in bad[:2]:
            ctx.violation(msg, {"kind": "property-predicate", "tie": name, "input": [lines[i]], "impl_output": out1[i][:500]})
    if mis is not None and not bad and len(out1) == len(lines) and len(out2) == len(lines):
        ctx.violation(f"{name}: model and implementation disagree on `{lines[mis]}`: impl `{out1[mis][:300]}` model `{out2[mis][:300]}`",
                      {"kind": "correspondence", "tie": name, "theorem_scope": "Props/C12.lean: the model (TB/Game.lean, TB/Index.lean, TB/Abort.lean) no longer corresponds to the code",
                       "input": [lines[mis]], "impl": out1[mis][:1000], "model": out2[mis][:1000]}, no_input=True)
    return out1


def gen_idx_lines(ctx, quick, three, four, full):
    r = ctx.rng
    lines = ["tb tables"]
    kk = (0,) * 8
    lines += [f"tb idx {cstr(kk)} {i}" for i in range(npos(kk))]
    for c in three:
        idxs = range(npos(c)) if c in full else sorted(r.sample(range(npos(c)), 3000))
        lines += [f"tb idx {cstr(c)} {i}" for i in idxs]
    for c in (r.sample(four, 4) if quick else four):
        lines += [f"tb idx {cstr(c)} {i}" for i in sorted(r.sample(range(npos(c)), 2500 if quick else 20000))]
    return lines


def pred_idx(lines, out):
    bad = []
    for i, (l, o) in enumerate(zip(lines, out)):
        if not l.startswith("tb idx"): continue
        n = npos(tuple(map(int, l.split()[2:10])))
        if o.startswith("m"):
            v = list(map(int, o.split()[1:]))
            if any(x >= n for x in v) or v != sorted(v):
                bad.append((i, f"TBPosition::getMoves returned an index outside the table or an unsorted list for `{l}`"))
    return bad


def check_converse(ctx, harness, lines, out, full):
    """Property of the generator's two move generators, evaluated on the implementation alone: on the positions the
    retrograde loop works with (valid, king not capturable), getUnMoves is the converse relation of getMoves."""
    for c in full:
        pre = f"tb idx {cstr(c)} "
        fw = {}
        for l, o in zip(lines, out):
            if l.startswith(pre) and o.startswith("m"):
                fw[int(l[len(pre):])] = set(map(int, o.split()[1:]))
        V = sorted(fw)
        rc, uo, err = run_cmd([harness], [f"tb unidx {cstr(c)} {i}" for i in V])
        if rc != 0 or len(uo) != len(V):
            ctx.violation(f"harness died in unidx (rc={rc})", {"kind": "impl-crash", "stderr": err, "input": [f"tb unidx {cstr(c)} {V[min(len(uo), len(V) - 1)]}"]}); continue
        conv = {i: set() for i in V}
        for j in V:
            for i in fw[j]:
                if i in conv: conv[i].add(j)
        ctx.count(len(V))
        nbad = 0
        for i, o in zip(V, uo):
            un = set(x for x in map(int, o.split()[1:]) if x in fw)
            if un != conv[i] and nbad < 2:
                nbad += 1
                miss, extra = sorted(conv[i] - un)[:5], sorted(un - conv[i])[:5]
                ctx.violation(f"{cname(c)}: getUnMoves({i}) is not the converse of getMoves: predecessors missing {miss}, spurious {extra}",
                              {"kind": "property-predicate", "what": "un-move generation is not the converse of move generation (retrograde search misses or invents predecessors)",
                               "tie": "unmoves-converse", "input": [f"tb unidx {cstr(c)} {i}"] + [f"tb idx {cstr(c)} {j}" for j in (miss + extra)], "impl_output": o[:500]})
    ctx.tie("unmoves-converse", kind="for every valid index of the fully enumerated classes: {j : i in getMoves(j)} == getUnMoves(i) on the real TBPosition", classes=[cname(c) for c in full])


def random_men(r, codes, extra_ok=True):
    sqs = r.sample(range(64), 2 + len(codes))
    return [(1, sqs[0]), (7, sqs[1])] + list(zip(codes, sqs[2:]))


def gen_legal_lines(ctx, quick):
    r = ctx.rng
    lines = []
    pool = [2, 3, 4, 5, 8, 9, 10, 11]
    for _ in range(15000 if quick else 250000):
        k = r.choice([0, 1, 1, 2, 2, 2])
        men = random_men(r, [r.choice(pool) for _ in range(k)])
        if r.random() < 0.3:   # crowd the kings: checks, mates, stalemates
            ksq = men[1][1]
            near = [s for s in range(64) if abs(s % 8 - ksq % 8) <= 2 and abs(s // 8 - ksq // 8) <= 2 and s != ksq]
            r.shuffle(near)
            used = {ksq}
            men2 = [men[1]]
            for (cd, _), s in zip([men[0]] + men[2:], near):
                men2.append((cd, s)); used.add(s)
            men = men2
        r.shuffle(men)
        lines.append("tb legal " + r.choice("wb") + " " + " ".join(f"{c}@{s}" for c, s in men))
    return lines


# ---------------------------------------------------------------------------------------------
# probeDTM: implementation (both back ends) vs model serving the dumped table
# ---------------------------------------------------------------------------------------------

def conv(byte, ply):
    s = byte - 256 if byte >= 128 else byte
    if s > 64: return 32000 - ply - 2 * (s - 64)
    if 1 <= s <= 63: return -(32000 - ply - 2 * (63 - s) - 1)
    if s == 0: return 0
    return None


def gen_probe_lines(ctx, c, quick):
    r = ctx.rng
    codes = codes_of(c)
    lines, scope = [], []
    allcodes = [2, 3, 4, 5, 8, 9, 10, 11]
    for _ in range(4000 if quick else 40000):
        x = r.random()
        castle, inscope = 0, True
        if x < 0.55:                       # the class itself
            ms = list(codes)
        elif x < 0.75:                     # a sub-class (captures)
            ms = [m for m in codes if r.random() < 0.5]
        elif x < 0.85:                     # other material with at most as many men
            ms = [r.choice(allcodes) for _ in range(r.randrange(0, len(codes) + 1))]
            inscope = all(ms.count(k) <= codes.count(k) for k in set(ms))
        elif x < 0.92:                     # too many men / pawns
            ms = list(codes) + [r.choice(allcodes + [6, 12])]
            if r.random() < 0.5: ms = [6 if r.random() < 0.5 else 12] + ms[:len(codes) - 1] if codes else [6]
            inscope = all(ms.count(k) <= codes.count(k) for k in set(ms))
        else:                              # castling rights
            ms = list(codes); castle = r.randrange(1, 16); inscope = False
        men = random_men(r, ms)
        r.shuffle(men)
        ply = r.choice([0, 0, 1, 2, 5, 17, 40, 99])
        lines.append(f"tb probe {ply} {r.choice('wb')} {castle} " + " ".join(f"{k}@{s}" for k, s in men))
        scope.append(inscope)
    return lines, scope


SYMS = [lambda s: s, lambda s: s ^ 7, lambda s: s ^ 56, lambda s: s ^ 63,
        lambda s: (s % 8) * 8 + s // 8, lambda s: ((s % 8) * 8 + s // 8) ^ 7, lambda s: ((s % 8) * 8 + s // 8) ^ 56, lambda s: ((s % 8) * 8 + s // 8) ^ 63]


def stratified_probes(ctx, c, dump, quick):
    """for every byte value that occurs in the table: some indices holding it, turned into positions by the model
    (`tb posidx`), each probed in a random one of its 8 symmetry images; returns (lines, expected index)"""
    r = ctx.rng
    byval = {}
    per = 6 if quick else 40
    for i in r.sample(range(len(dump)), min(len(dump), 400000)):
        b = dump[i]
        if b != 0xFF and len(byval.setdefault(b, [])) < per: byval[b].append(i)
    idxs = sorted(i for v in byval.values() for i in v)
    rc, pos, err = run_cmd([vlib.driver_bin()], [f"tb posidx {cstr(c)} {i}" for i in idxs])
    lines, want = [], []
    for i, p in zip(idxs, pos):
        f = p.split()
        sym = r.choice(SYMS)
        men = [(int(m.split("@")[0]), sym(int(m.split("@")[1]))) for m in f[1:]]
        r.shuffle(men)
        lines.append(f"tb probe {r.choice([0, 1, 7, 30])} {f[0]} 0 " + " ".join(f"{k}@{s}" for k, s in men))
        want.append(i)
    return lines, want, sorted(byval)


def run_probes(ctx, harness, c, path, quick):
    lines, scope = gen_probe_lines(ctx, c, quick)
    dump = open(path, "rb").read()
    slines, want, values = stratified_probes(ctx, c, dump, quick)
    want = [None] * len(lines) + want
    lines += slines; scope += [True] * len(slines)
    ctx.tie("probe", byte_values_probed=len(values))
    rc2, model, err2 = run_cmd([vlib.driver_bin(), "tbserve"] + list(map(str, c)) + [path], lines)
    if rc2 != 0 or len(model) != len(lines):
        ctx.violation("Lean driver died in tbserve", {"kind": "model-crash", "stderr": err2}, no_input=True)
        return
    for kind in ("vec", "tt"):
        rc, out, err = run_cmd([harness], [f"tb load {kind} {cstr(c)}"] + lines)
        if rc != 0 or len(out) != len(lines) + 1:
            ctx.violation(f"{cname(c)}/{kind}: harness died during probes (rc={rc})", {"kind": "impl-crash", "stderr": err, "input": lines[:50]})
            return
        out = out[1:]
        ctx.count(len(lines))
        nbad = 0
        for l, o, m, insc, wi in zip(lines, out, model, scope, want):
            f = o.split()
            ply = int(l.split()[2])
            msg = None
            if wi is not None and f[0] != str(wi):
                msg = f"{cname(c)}/{kind}: a symmetry image of the position of index {wi} is mapped to index {f[0]} (`{l}`)"
            elif not insc and o != "none miss":
                msg = f"{cname(c)}/{kind}: position outside the table's scope is answered: `{l}` -> `{o}`"
            elif f[0] != "none" and len(f) >= 2:
                exp = conv(dump[int(f[0])], ply)
                got = int(f[2]) if f[1] == "hit" else None
                if exp != got:
                    msg = f"{cname(c)}/{kind}: probeDTM score {got} at index {f[0]} is not the conversion {exp} of the certified table byte {dump[int(f[0])]} (`{l}`)"
            elif f[0] == "none" and f[1:] != ["miss"]:
                msg = f"{cname(c)}/{kind}: setPosition failed but probeDTM answered: `{l}` -> `{o}`"
            if msg and nbad < 2:
                nbad += 1
                ctx.violation(msg, {"kind": "property-predicate", "tie": "probe", "input": [f"tb load {kind} {cstr(c)}", l], "impl_output": o})
            elif o != m and nbad < 2 and not msg:
                nbad += 1
                ctx.violation(f"{cname(c)}/{kind}: probeDTM and its model disagree on `{l}`: impl `{o}` model `{m}`",
                              {"kind": "correspondence", "tie": "probe", "theorem_scope": "Props/C12.lean probe_score / out_of_scope_* (TB/Index.lean no longer corresponds to the code)",
                               "input": [f"tb load {kind} {cstr(c)}", l], "impl": o, "model": m}, no_input=True)
    ctx.tie("probe", kind="TBGenerator::probeDTM / TranspositionTable::probeDTM (both back ends) vs model serving the dumped table; "
            "out-of-scope predicate and score conversion evaluated on the implementation's replies", lines=len(lines), classes=1)


# ---------------------------------------------------------------------------------------------
# abort injection
# ---------------------------------------------------------------------------------------------

def abort_scenarios(ctx, quick, three, four):
    r = ctx.rng
    sc = []
    for c in (r.sample(three, 3) if quick else three):
        pts = [(1, 0, 0), (1, 1, 0), (2, 0, 0), (2, 1, 0), (3, 1, 0), (3, 2, 0), (3, r.randrange(3, 8), 0), (3, 40, 0), (1, 1, 1), (2, 1, 1)]
        for ph, n, newt in (pts if not quick else r.sample(pts, 5) + [(3, 1, 0)]):
            sc.append(f"tbabort {cstr(c)} hook {ph} {n} {newt} {1500000 if quick else 3000000} 1500 {r.randrange(1, 1 << 30)}")
    for c in (r.sample(four, 1) if quick else r.sample(four, 6)):
        pts = [(1, 0, 0), (1, r.randrange(1, 80), 0), (2, r.randrange(0, 80), 0), (3, 1, 0), (3, r.randrange(2, 12), 0), (3, r.randrange(12, 30), 0), (2, 40, 1)]
        for ph, n, newt in (r.sample(pts, 3) if quick else pts) + [(3, 999, 0)]:   # (3, 999): never fires = complete table + hash traffic
            sc.append(f"tbabort {cstr(c)} hook {ph} {n} {newt} 3000000 1500 {r.randrange(1, 1 << 30)}")
        for d in ([r.randrange(1000, 1500000)] if quick else [r.randrange(1000, 2500000) for _ in range(4)]):
            sc.append(f"tbabort {cstr(c)} delay {d} 0 0 3000000 1500 {r.randrange(1, 1 << 30)}")
    return sc


def abort_predicate(line, o):
    """the property's abort clause evaluated on the implementation's reply; returns message or None"""
    try:
        kv = dict(x.split("=") for x in o.split())
        r1, hits, r2s, r2f, tok, after1 = kv["r1"], kv["hits"], kv["r2short"], kv["r2full"], kv["tableok"], kv["after1"]
    except Exception:
        return f"unparsable reply `{o}`"
    nh = int(hits.split("/")[0])
    if r1 == "0":
        if nh != 0: return f"after a failed updateTB probeDTM answered {hits} probes from the partially generated table"
        if after1 != "nogen,full": return f"after a failed updateTB the generator is still installed / the hash size is not restored ({after1})"
        if r2s != "0": return "after a failed updateTB the next updateTB (1 ms budget) claims that a table is present"
    else:
        if after1 != "gen,reduced": return f"updateTB returned true but the table is not installed and protected ({after1})"
        if nh == 0: return "updateTB returned true but probeDTM answers nothing"
        if r2s != "1": return "a table is present but updateTB does not report it"
    if r2f != "1" or tok != "1":
        return f"an unlimited updateTB did not leave a completely generated table (r2full={r2f} tableok={tok})"
    return None


def run_aborts(ctx, harness, quick, three, four, njobs):
    sc = abort_scenarios(ctx, quick, three, four)

    def one(l):
        return l, run_cmd([harness], [l])

    with concurrent.futures.ThreadPoolExecutor(max_workers=min(njobs, 4)) as ex:
        res = list(ex.map(one, sc))
    nfail = 0
    aborted = 0
    for l, (rc, out, err) in res:
        ctx.count(1); ctx.distinct(l)
        if rc != 0 or len(out) != 1:
            ctx.violation(f"harness died in abort scenario (rc={rc})", {"kind": "impl-crash", "input": [l], "stderr": err}); continue
        aborted += "r1=0" in out[0]
        msg = abort_predicate(l, out[0])
        if msg and nfail < 3:
            nfail += 1
            ctx.violation(f"abort injection: {msg}", {"kind": "property-predicate", "tie": "abort-injection", "input": [l], "impl_output": out[0]})
    ctx.sample({"op": sc[0], "impl": res[0][1][1][:1]})
    ctx.tie("abort-injection", kind="updateTB with an abort (maxTimeMillis := 0 or 1 at a polling point of generate(), or := 0 from a second thread after a delay), "
            "then hash inserts, probes, updateTB with 1 ms, updateTB unlimited; predicate on the implementation's replies", scenarios=len(sc), aborted=aborted)


def gen_histories(ctx, quick, three):
    r = ctx.rng
    lines = []
    kk = (0,) * 8
    for _ in range(12 if quick else 120):
        pool = r.sample(three, 3) + [kk]
        evs = []
        for _ in range(r.randrange(6, 22)):
            x = r.random()
            c = r.choice(pool)
            d = "".join(map(str, c))
            if x < 0.25: evs.append(f"u:{d}:f")
            elif x < 0.5:
                ph, n = r.choice([(1, 0), (2, 0), (3, 1)] + ([(1, 1), (2, 1)] if c != kk else []))
                evs.append(f"u:{d}:a:{ph}:{n}")
            elif x < 0.6: evs.append(f"u:{d}:t")
            elif x < 0.8: evs.append("x")
            elif x < 0.95: evs.append(f"s:{r.choice([1000, 200000, 1200000])}")
            else: evs.append("c")
        lines.append("tbseq " + " ".join(evs))
    return lines


def run_histories(ctx, harness, quick, three):
    lines = gen_histories(ctx, quick, three)
    rc, out, err = run_cmd([harness], lines)
    rc2, model, err2 = run_cmd([vlib.driver_bin()], ["tb abortmodel fixed " + l[6:] for l in lines])
    ctx.count(sum(len(l.split()) - 1 for l in lines))
    if rc != 0 or len(out) != len(lines):
        ctx.violation(f"harness died in updateTB histories (rc={rc})", {"kind": "impl-crash", "input": lines[:len(out) + 1][-1:], "stderr": err}); return
    nbad = 0
    for l, o, m in zip(lines, out, model):
        ctx.distinct(l)
        evs = l.split()[1:]
        st = o.split()
        bad = [k for k, s in enumerate(st) if s.split(",")[3] != "1"] if len(st) == len(evs) else [0]
        if bad and nbad < 2:
            nbad += 1
            k = bad[0]
            ctx.violation(f"after `{' '.join(evs[:k + 1])}` a generator is installed whose table is not a completely generated one",
                          {"kind": "property-predicate", "tie": "updateTB-histories", "input": ["tbseq " + " ".join(evs[:k + 1])], "impl_output": o})
        elif o != m and nbad < 2:
            nbad += 1
            ctx.violation(f"updateTB history: implementation `{o}` vs state-machine model `{m}` for `{l}`",
                          {"kind": "correspondence", "tie": "updateTB-histories", "theorem_scope": "Props/C12.lean resident_table_always_complete / abort_not_installed (TB/Abort.lean no longer corresponds to updateTB)",
                           "input": [l], "impl": o, "model": m}, no_input=True)
    ctx.tie("updateTB-histories", kind="random histories of updateTB (finish / abort at a polling point / no time), unsuitable roots, hash stores, clear: "
            "(return value, tbGen set, usedSize reduced) vs TB/Abort.lean stepFixed; after every event: resident bytes == freshly generated table", histories=len(lines))



# ---------------------------------------------------------------------------------------------
# the retrograde generator model (Props/C12.lean retrograde_*): ties of its hypotheses and of its pass structure
# ---------------------------------------------------------------------------------------------

def sum_line(which, c, lo, hi):
    return f"tb sum {which} {cstr(c)} {lo} {hi}"


def sum_pair(harness, drv, which, c, lo, hi):
    l = sum_line(which, c, lo, hi)
    rc1, o1, e1 = run_cmd([harness], [l])
    rc2, o2, e2 = run_cmd([drv], [l])
    return (o1[0] if o1 else f"rc={rc1} {e1[-200:]}"), (o2[0] if o2 else f"rc={rc2} {e2[-200:]}")


def movegen_job(harness, drv, which, c, lo, hi):
    """C++ getMoves / getUnMoves vs their Lean transcriptions over the index range, by digest; on a mismatch the
    range is bisected down to one index and the two lists are returned"""
    a, b = sum_pair(harness, drv, which, c, lo, hi)
    if a == b and a.startswith("sum "):
        return {"which": which, "c": c, "lo": lo, "hi": hi, "ok": True, "legal": int(a.split()[3])}
    if not (a.startswith("sum ") and b.startswith("sum ")):
        return {"which": which, "c": c, "lo": lo, "hi": hi, "ok": False, "crash": [a, b]}
    while hi - lo > 1:
        mid = (lo + hi) // 2
        a, b = sum_pair(harness, drv, which, c, lo, mid)
        if a != b: hi = mid
        else: lo = mid
    op = "unidx" if which == "u" else "midx"
    l = f"tb {op} {cstr(c)} {lo}"
    _, o1, _ = run_cmd([harness], [l])
    _, o2, _ = run_cmd([drv], [l])
    return {"which": which, "c": c, "lo": lo, "hi": hi, "ok": False, "line": l, "impl": (o1 or [""])[0], "model": (o2 or [""])[0]}


def retro_table_job(drv, c, path):
    """run the Lean model of TBGenerator::generate on the class and compare its table with the C++ dump byte for byte"""
    out = path + ".retro"
    t0 = time.time()
    rc, o, err = run_cmd(["nice", "-n", "5", drv, "tbretro"] + list(map(str, c)) + [out])
    res = {"c": c, "rc": rc, "out": (o or [err[-300:]])[0], "seconds": round(time.time() - t0, 1)}
    if rc == 0 and o and o[0].startswith("ok "):
        kv = dict(x.split("=") for x in o[0].split()[1:])
        res.update(passes=int(kv["passes"]), finished=kv["finished"] == "true", lo=int(kv["min"]), hi=int(kv["max"]))
        a, b = open(path, "rb").read(), open(out, "rb").read()
        res["same"] = a == b
        if a != b:
            i = next(k for k in range(min(len(a), len(b))) if a[k] != b[k]) if len(a) == len(b) else -1
            res.update(index=i, impl_byte=a[i] if i >= 0 else None, model_byte=b[i] if i >= 0 else None,
                       ndiff=sum(1 for x, y in zip(a, b) if x != y))
        os.remove(out)
    return res


def simple_job(cmd):
    t0 = time.time()
    rc, o, err = run_cmd(cmd)
    return rc, (o or [err[-300:]])[0], round(time.time() - t0, 1)


def start_retro(ctx, ex, harness, tables, quick, hom4, ok4):
    """submit all jobs of the retrograde ties to the executor; returns the futures"""
    drv = vlib.driver_bin()
    fut = {"movegen": [], "table": [], "ok": [], "hom": []}
    for c, path in tables:
        n = npos(c)
        nchunk = 1 if sum(c) <= 1 else 8
        for which in "um":
            for k in range(nchunk):
                fut["movegen"].append(ex.submit(movegen_job, harness, drv, which, c, n * k // nchunk, n * (k + 1) // nchunk))
        fut["table"].append(ex.submit(retro_table_job, drv, c, path))
        if sum(c) <= 1:
            fut["ok"].append((c, "cached", ex.submit(simple_job, ["nice", "-n", "5", drv, "tbok"] + list(map(str, c)) + ["cached"])))
            fut["hom"].append((c, 0, 4225, ex.submit(simple_job, ["nice", "-n", "5", drv, "tbhom"] + list(map(str, c)) + ["0", "4225"])))
    for c in ok4:
        fut["ok"].append((c, "direct", ex.submit(simple_job, ["nice", "-n", "5", drv, "tbok"] + list(map(str, c)) + ["direct"])))
    for c in hom4:
        for lo in range(0, 4225, 65):
            fut["hom"].append((c, lo, lo + 65, ex.submit(simple_job, ["nice", "-n", "5", drv, "tbhom"] + list(map(str, c)) + [str(lo), str(lo + 65)])))
    return fut


def collect_retro(ctx, fut):
    """evaluate the results of the retrograde ties"""
    # 1. predecessor / successor generation vs the transcriptions
    nbad = {"u": 0, "m": 0}
    legal = 0
    classes = set()
    for f in fut["movegen"]:
        r = f.result()
        c = r["c"]; classes.add(cname(c))
        ctx.count(r["hi"] - r["lo"])
        if r["ok"]:
            legal += r["legal"]; continue
        w = r["which"]
        nbad[w] += 1
        if nbad[w] > 2: continue
        if "crash" in r:
            ctx.violation(f"{cname(c)}: `tb sum {w}` failed: {r['crash']}", {"kind": "impl-crash", "input": [sum_line(w, c, r['lo'], r['hi'])]}); continue
        impl, model = r["impl"], r["model"]
        if w == "u":
            il = set(map(int, impl.split()[1:])) if impl.startswith("u") else None
            ml = set(map(int, model.split()[1:])) if model.startswith("u") else None
            miss = sorted(ml - il)[:6] if il is not None and ml is not None else None
            extra = sorted(il - ml)[:6] if il is not None and ml is not None else None
            ctx.violation(f"{cname(c)}: TBPosition::getUnMoves at index {r['lo']} is not the set of predecessors (converse of the legal-move relation, "
                          f"Retro.getUnMovesIdx certified by okCheck): predecessors missing {miss}, spurious {extra}",
                          {"kind": "property-predicate", "what": "predecessor generation is not complete and sound w.r.t. forward moves (hypothesis `conv` of retrograde_exact)",
                           "tie": "unmoves-vs-model", "input": [r["line"]] + [f"tb midx {cstr(c)} {j}" for j in (miss or []) + (extra or [])],
                           "impl_output": impl[:600], "model_output": model[:600]})
        else:
            ctx.violation(f"{cname(c)}: TBPosition::getMoves at index {r['lo']} differs from its transcription Retro.getMovesIdx: impl `{impl[:200]}` model `{model[:200]}`",
                          {"kind": "correspondence", "tie": "moves-vs-model", "theorem_scope": "Props/C12.lean retrograde_exact_partial (TB/RetroChess.lean getMovesIdx no longer corresponds to tbgen.cpp)",
                           "input": [r["line"]], "impl": impl[:1000], "model": model[:1000]}, no_input=True)
    ctx.tie("unmoves-vs-model", kind="TBPosition::getUnMoves and getMoves vs their Lean transcriptions (Retro.getUnMovesIdx / getMovesIdx) on EVERY index of the listed classes "
            "(digest per range, bisected to the failing index on a mismatch)", classes=sorted(classes), legal_indices_x2=legal)
    # 2. the instance obligations, evaluated by the proven-sound executable checks
    okc, homc = set(), set()
    for c, how, f in fut["ok"]:
        rc, o, secs = f.result()
        ctx.count(npos(c))
        if rc == 0 and o == "ok":
            okc.add(c); continue
        idx = o.split()[2] if o.startswith("fail index") else None
        ctx.violation(f"{cname(c)}: the obligations Retro.OK of the retrograde theorem fail (getUnMoves is not the converse of getMoves on the legal indices, or an index leaves the table): {o[:400]}",
                      {"kind": "property-predicate", "what": "un-move generation is not the converse of move generation", "tie": "retro-obligations",
                       "input": ([f"tb unidx {cstr(c)} {idx}", f"tb midx {cstr(c)} {idx}"] if idx else {"counts": list(c), "class": cname(c)}), "checker_output": o[:1000]})
    homfail = set()
    for c, lo, hi, f in fut["hom"]:
        rc, o, secs = f.result()
        ctx.count((hi - lo) * 65 ** sum(c) * 2)
        if rc == 0 and o == f"ok hom {lo} {hi}": continue
        if c in homfail: continue
        homfail.add(c)
        ctx.violation(f"{cname(c)}: hypothesis homCheck of retrograde_exact_partial fails (legal positions and legal indices / their successors do not correspond): {o[:300]}",
                      {"kind": "correspondence", "tie": "retro-hom", "theorem_scope": "Props/C12.lean retrograde_exact_partial: hypothesis homCheck",
                       "input": {"counts": list(c), "class": cname(c), "rerun": f"driver tbhom {cstr(c)} {lo} {hi}"}, "checker_output": o[:1000]}, no_input=True)
    homc = set(c for c, _, _, _ in fut["hom"]) - homfail
    ctx.tie("retro-obligations", kind="compiled Lean: Retro.okCheckCached/okCheckDirect (index ranges; getUnMoves = converse of getMoves on all legal indices) and Retro.homCheck "
            "(every placement: legal position <-> legal index, successors, in-check) — the hypotheses of retrograde_exact_partial",
            ok_classes=sorted(cname(c) for c in okc), hom_classes=sorted(cname(c) for c in homc))
    # 3. pass structure: the model's table vs the real generator's table
    same, passes = [], {}
    for f in fut["table"]:
        r = f.result()
        c = r["c"]
        ctx.count(npos(c))
        if r["rc"] != 0 or "same" not in r:
            ctx.violation(f"{cname(c)}: the Lean model of TBGenerator::generate did not run: {r['out']}", {"kind": "model-crash", "input": {"counts": list(c)}}, no_input=True); continue
        passes[cname(c)] = r["passes"]
        if not r["finished"] or r["passes"] > 63 or r["lo"] < -1 or r["hi"] > 126:
            ctx.violation(f"{cname(c)}: hypothesis of retrograde_exact fails: passes={r['passes']} finished={r['finished']} cell range {r['lo']}..{r['hi']}",
                          {"kind": "correspondence", "tie": "retro-table", "theorem_scope": "Props/C12.lean retrograde_exact: hypothesis passes <= 63", "input": {"counts": list(c)}}, no_input=True)
        if r["same"]:
            same.append(cname(c)); continue
        proven = c in okc and c in homc
        msg = (f"{cname(c)}: the table of the real TBGenerator differs from the table computed by the Lean model of generate() at {r['ndiff']} indices, first at index {r['index']}: "
               f"impl byte {r['impl_byte']} model byte {r['model_byte']}" + (" (the model's table is the exact one: its hypotheses were checked for this class)" if proven else ""))
        rep = {"kind": "property-predicate" if proven else "correspondence", "tie": "retro-table",
               "what": "table entry is not the value computed by the proven retrograde model (pass structure of generate() differs)",
               "theorem_scope": "Props/C12.lean retrograde_exact_partial / TB/Retro.lean generate",
               "input": {"counts": list(c), "class": cname(c), "retro": True, "index": r["index"], "regenerate": f"tb gen vec {cstr(c)} <file>", "model": f"driver tbretro {cstr(c)} <file2>"},
               "impl_byte": r["impl_byte"], "model_byte": r["model_byte"]}
        ctx.violation(msg, rep, no_input=not proven)
    ctx.tie("retro-table", kind="table of the compiled Lean model Retro.generate (same phases, flags, block skip, counters) vs the dump of the real TBGenerator, byte for byte",
            identical=same, passes=passes)

# ---------------------------------------------------------------------------------------------

def replay(ctx):
    rp = ctx.replay["replay"]
    harness = os.path.join(vlib.cxx_build("plain", ("vharness",)), "vharness")
    vlib.lake_build(["driver"])
    os.makedirs(TMP, exist_ok=True)
    inp = rp.get("input")
    if isinstance(inp, dict) and "counts" in inp:          # certificate / audit failure: regenerate and re-run
        c = tuple(inp["counts"])
        path = gen_tables(ctx, harness, c)
        if path and inp.get("retro"):
            res = retro_table_job(vlib.driver_bin(), c, path)
            print(res)
            if not res.get("same"): ctx.violation(f"replay: the table of the real generator still differs from the model's table at index {res.get('index')}", rp)
            return
        if path:
            if inp.get("unit"):
                u = int(inp["unit"][0]) * 65 + int(inp["unit"][1])
                run_checker(ctx, [(c, path, u, u + 1)], 1, "replay")
            else:
                run_checker(ctx, checker_jobs(c, path, range(4225)), JOBS or 4, "replay")
                run_aux(ctx, [(c, path)], 1)
        return
    lines = inp if isinstance(inp, list) else []
    if lines and lines[0].startswith("tbabort"):
        rc, out, err = run_cmd([harness], lines)
        print(lines[0], "->", out)
        msg = abort_predicate(lines[0], out[0]) if out else "no output"
        if msg: ctx.violation(f"replay: {msg}", rp)
        return
    if lines and lines[0].startswith("tbseq"):
        rc, out, err = run_cmd([harness], lines)
        rc2, model, _ = run_cmd([vlib.driver_bin()], ["tb abortmodel fixed " + l[6:] for l in lines])
        print(lines[0], "\n impl :", out, "\n model:", model)
        if out != model or any(s.split(",")[3] != "1" for s in (out[0].split() if out else ["0,0,0,0"])): ctx.violation("replay still fails", rp)
        return
    if lines and lines[0].startswith("tb load"):
        c = tuple(map(int, lines[0].split()[3:11]))
        path = gen_tables(ctx, harness, c)
        rc, out, err = run_cmd([harness], lines)
        rc2, model, _ = run_cmd([vlib.driver_bin(), "tbserve"] + list(map(str, c)) + [path], lines)
        for l, a, b in zip(lines, out, model): print(f"{l}\n   impl : {a}\n   model: {b}")
        if out != model: ctx.violation("replay still disagrees", rp, no_input=True)
        return
    out1, out2, mis = vlib.diff_lines(ctx, "replay", lines)
    for l, a, b in zip(lines, out1, out2): print(f"{l}\n   impl : {a[:300]}\n   model: {b[:300]}")
    if mis is not None: ctx.violation("replay still disagrees", rp, no_input=True)


def run(ctx):
    quick = ctx.tier == "quick"
    njobs = JOBS or (8 if quick else min(16, vlib.NCPU))
    if ctx.replay:
        ctx.count(1); ctx.distinct("replay"); ctx.distinct("replay2")
        return replay(ctx)
    vlib.lean_obligations(ctx)
    harness = os.path.join(vlib.cxx_build("plain", ("vharness",)), "vharness")
    shutil.rmtree(TMP, ignore_errors=True)
    os.makedirs(TMP, exist_ok=True)
    r = ctx.rng
    two, three, four = classes(0), classes(1), classes(2)
    ctx.cov["rule"] = ("tables: every placement (65^n slot assignments incl. captured men, both sides to move) of the 2-man class, all eight 3-man classes and "
                       + ("one seed-chosen 4-man class" if quick else "all 36 4-man classes") + ", through the proven checker, both storage back ends compared byte for byte; "
                       "every index of every dumped table audited; index-level data on all / sampled indices; probes incl. sub-classes and out-of-scope positions; "
                       "abort scenarios = polling points of generate() x classes x {stop, timeout}; distinct = distinct operation lines (sampled for the big blocks) + classes")
    ctx.assumptions += ["the compiled Lean checker computes what its definition says (Lean compiler and runtime are trusted for the execution of TB.checkUnit; the theorem is about the definition)",
                        "TB/Game.lean is chess for K,Q,R,B,N without castling rights (read it; it is also compared with Texel's MoveGen on random positions and is self-consistent by attacks_iff_reach)",
                        "BitBoard::extractSquare delivers the squares of a piece bitboard in increasing order (model of setPosition)",
                        "the harness reads private members (ttStorage, tbGen, usedSize) via #define private public; abort points are injected through the TEXEL_VERIF hook tbGenVerifHook",
                        "3M random hash inserts stand for 'ordinary hash traffic'",
                        "retrograde_exact_partial: its hypotheses okCheck / homCheck are evaluated by the compiled driver per class (2/3-man classes every run; sampled 4-man classes in thorough); "
                        "the Lean model of generate() is tied to the code by byte-identical tables and by complete comparison of getMoves/getUnMoves with their transcriptions"]
    # 1. model ties through the line protocol
    full = three
    idx_lines = gen_idx_lines(ctx, quick, three, four, full)
    idx_out = diff_block(ctx, "index-level", idx_lines, pred_idx)
    if len(idx_out) == len(idx_lines):
        check_converse(ctx, harness, idx_lines, idx_out, [(0,) * 8] + full)
    diff_block(ctx, "game-vs-movegen", gen_legal_lines(ctx, quick))
    # 2. tables + proven checker
    todo = two + three + ([r.choice(four)] if quick else four)
    tables = []
    with concurrent.futures.ThreadPoolExecutor(max_workers=min(njobs, 6)) as ex:
        for c, path in zip(todo, ex.map(lambda c: gen_tables(ctx, harness, c), todo)):
            if path: tables.append((c, path))
    ctx.log(f"generated {len(tables)} tables in both back ends")
    jobs = []
    for c, path in tables:
        jobs += checker_jobs(c, path, range(4225))
        ctx.distinct(cname(c))
    jobs.sort(key=lambda j: -sum(j[0]))
    # the retrograde-model ties run beside the certificate checker (their own small pool)
    four_done = [c for c, _ in tables if sum(c) == 2]
    hom4 = [] if quick else r.sample(four_done, min(3, len(four_done)))
    ok4 = [] if quick else r.sample(four_done, min(3, len(four_done)))
    rex = concurrent.futures.ThreadPoolExecutor(max_workers=4 if quick else max(4, njobs // 2))
    rfut = start_retro(ctx, rex, harness, tables, quick, hom4, ok4)
    fails = run_checker(ctx, jobs, njobs, "certificate")
    ctx.log(f"certificate checker: {len(jobs)} jobs, {fails} failures")
    collect_retro(ctx, rfut)
    rex.shutdown()
    ctx.log("retrograde-model ties done")
    run_aux(ctx, tables, njobs)
    ctx.sample({"tables_certified": [cname(c) for c, _ in tables]})
    # 3. probes on a 3-man and a 4-man class (thorough: more)
    pt = [t for t in tables if sum(t[0]) == 1]
    probe_tabs = r.sample(pt, 2 if quick else 4) + [t for t in tables if sum(t[0]) == 2][: (1 if quick else 4)]
    for c, path in probe_tabs:
        run_probes(ctx, harness, c, path, quick)
    # 4. abort clause
    run_aborts(ctx, harness, quick, three, four, njobs)
    run_histories(ctx, harness, quick, three)
    if not quick:
        # memory safety of the table region inside the transposition table (ASan + UBSan build)
        asan = os.path.join(vlib.cxx_build("asan", ("vharness",)), "vharness")
        c3, c4 = r.choice(three), r.choice(four)
        al = [f"tb gen tt {cstr(c3)} {TMP}/asan3.tt", f"tb gen tt {cstr(c4)} {TMP}/asan4.tt",
              f"tbabort {cstr(c3)} hook 3 2 0 500000 500 7", f"tbabort {cstr(c4)} hook 2 40 0 500000 500 7", f"tbabort {cstr(c4)} hook 3 999 0 2000000 500 7"]
        al += gen_histories(ctx, True, three)[:4]
        rc, out, err = run_cmd([asan], al)
        ctx.count(len(al))
        ctx.tie("sanitizer", kind="generation inside the transposition table, abort scenarios and histories under ASan+UBSan", ops=len(al), rc=rc)
        if rc != 0 or len(out) != len(al):
            ctx.violation(f"sanitizer build died after {len(out)} of {len(al)} operations (rc={rc})",
                          {"kind": "impl-crash", "variant": "asan", "input": al[:len(out) + 1], "stderr": err})
    shutil.rmtree(TMP, ignore_errors=True)
    if not quick:
        vlib.leanchecker(ctx, ["TexelVerif.Props.C12"])
