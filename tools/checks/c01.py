"""C01 — generated legal moves are exactly the legal moves of chess.
Lean: Props/C01.lean — (a) oracle = legality predicate, soundness of the acceptor `genCheck`, king-ray core;
(b) theorems about the ALGORITHMS of moveGen.cpp, modelled in Chess/TexelGen*.lean on bitboards: sqAttacked / inCheck =
spec, sliding attacks depend on the inner mask only (table comparison lifted to all occupancies), isLegal (all five
paths) and removeIllegal = "king not attacked after the move", pseudoLegalMoves = movement rules without duplicates,
pseudoLegalMoves + removeIllegal is a permutation of the legal moves; givesCheck = "the opponent is in check after the
move" for every pseudo-legal move that does not put the kings next to each other (hence every legal move): direct,
discovered, promotion through the vacated square, castling rook, both en-passant lines; pseudoLegalCapturesAndChecks =
exactly the pseudo-legal moves described by its masks (CCGen) and omits no capture, promotion (Q/N) or checking move.
Tie: for every generated position (1) the real MoveGen's six lists and per-move verdicts are dumped by the harness and
judged by the proven acceptor in the compiled Lean driver; (2) the same dump IN GENERATION ORDER (in-check flag,
pseudo-legal list, isLegal and givesCheck per move, list after removeIllegal, evasions, captures, captures-and-checks) is
compared line by line with the Lean model of the algorithms, after the driver has checked the hypotheses of the
theorems (GenWF, kings not adjacent, GcWF: opponent's king unique and not attacked, e.p. square sane) on that position; FEN accept/reject + canonical FEN compared; sliding attack tables compared with the
spec's AND the model's ray walk for the subsets of the implementation's own relevant-occupancy masks (compared with
the model's inner masks), king/knight/pawn tables, squares-between and direction tables exhaustively; perft."""
import os
import vlib, chessgen


def subsets(mask):
    s = 0
    while True:
        yield s
        s = (s - mask) & mask
        if s == 0: break


def inner_mask(sq, rook):
    x0, y0 = sq % 8, sq // 8
    m = 0
    dirs = [(1, 0), (-1, 0), (0, 1), (0, -1)] if rook else [(1, 1), (1, -1), (-1, 1), (-1, -1)]
    for dx, dy in dirs:
        x, y = x0 + dx, y0 + dy
        while 0 <= x + dx < 8 and 0 <= y + dy < 8:
            m |= 1 << (y * 8 + x); x += dx; y += dy
    return m


def table_lines(ctx, quick):
    r = ctx.rng
    lines = []
    for sq in range(64):
        for pc, rook in ((3, True), (4, False)):
            subs = list(subsets(inner_mask(sq, rook)))
            if quick and len(subs) > 160:
                m = inner_mask(sq, rook)
                edge = [0, m] + [m & ~(1 << b) for b in range(64) if m >> b & 1] + [1 << b for b in range(64) if m >> b & 1]
                subs = list(dict.fromkeys(edge + r.sample(subs, 160)))       # thorough enumerates all 107 648 entries
            for occ in subs:
                lines.append(f"chess atk {pc} {sq} {hex(occ)}")
                lines.append(f"chess tatk {pc} {sq} {hex(occ)}")      # same entry against the generator model's ray walk
            for _ in range(4):                   # full random occupancies (outside the inner mask too)
                o1, o2 = r.getrandbits(64), r.getrandbits(64) & r.getrandbits(64)
                lines.append(f"chess atk {pc} {sq} {hex(o1)}"); lines.append(f"chess tatk {pc} {sq} {hex(o1)}")
                lines.append(f"chess atk 2 {sq} {hex(o2)}"); lines.append(f"chess tatk 2 {sq} {hex(o2)}")
        for pc in (1, 5, 6, 12):
            lines.append(f"chess atk {pc} {sq} 0x0")
            lines.append(f"chess tatk {pc} {sq} 0x0")
        lines.append(f"chess imask 3 {sq}"); lines.append(f"chess imask 4 {sq}")
    for a in range(64):
        for b in range(64):
            lines.append(f"chess dir {a} {b}")
            lines.append(f"chess between {a} {b}")
    return lines


def gives_check_motifs(rng, n):
    """positions aimed at the blocks of MoveGen::givesCheck / the masks of pseudoLegalCapturesAndChecks that random
    games rarely reach: castling where the rook gives check (king on the rook's file, or on the back rank behind the
    king's home square) or just misses (neighbouring file), promotions whose new piece attacks through the vacated
    square, pieces standing between an own slider and the enemy king (discovered checks; moves along the line)"""
    out = []
    for _ in range(n):
        b = [None] * 64
        white = rng.random() < 0.5
        r = rng.random()
        def put(s, pc):
            if 0 <= s < 64 and b[s] is None: b[s] = pc if white else pc.swapcase()
        row = 0 if white else 7
        up = 1 if white else -1
        if r < 0.4:                                   # castling with / almost with check
            put(row * 8 + 4, "K")
            short = rng.random() < 0.5
            if rng.random() < 0.9: put(row * 8 + (7 if short else 0), "R")
            if rng.random() < 0.5: put(row * 8 + (0 if short else 7), "R")
            m = rng.random()
            if m < 0.6:                                # enemy king on / next to the rook's file
                fx = (5 if short else 3) + rng.choice([0, 0, 0, 1, -1])
                fy = row + up * rng.randrange(2, 8)
                put(fy * 8 + fx, "k")
            else:                                      # enemy king on the back rank on the other side
                xs = [0, 1, 2] if short else [6, 7]
                put(row * 8 + rng.choice(xs), "k")
            for _ in range(rng.randrange(0, 4)):       # blockers / bystanders
                put(rng.randrange(64), rng.choice("NBPnbpQq"))
            castle = ("KQ" if white else "kq") if rng.random() < 0.8 else ("K" if white else "k")
        elif r < 0.7:                                  # promotion, king behind the pawn on the file or a diagonal
            x = rng.randrange(8)
            y7 = 6 if white else 1
            put(y7 * 8 + x, "P")
            dx = rng.choice([0, 0, 1, -1])             # direction from the king towards the pawn (file or diagonal)
            k = rng.randrange(1, 7)
            kx, ky = x - dx * k, y7 - up * k
            if 0 <= kx < 8 and 0 <= ky < 8: put(ky * 8 + kx, "k")
            if dx != 0 and 0 <= x + dx < 8: put((y7 + up) * 8 + x + dx, rng.choice("rnbq"))    # something to capture on the line
            if rng.random() < 0.5 and 0 <= x - 1: put((y7 + up) * 8 + x - 1, rng.choice("rnbq"))
            for _ in range(rng.randrange(0, 3)): put(rng.randrange(64), rng.choice("NBnbRr"))
            castle = "-"
        else:                                          # a piece between an own slider and the enemy king
            kx, ky = rng.randrange(8), rng.randrange(8)
            put(ky * 8 + kx, "k")
            dx, dy = rng.choice([(1, 0), (-1, 0), (0, 1), (0, -1), (1, 1), (1, -1), (-1, 1), (-1, -1)])
            line = []
            x, y = kx + dx, ky + dy
            while 0 <= x < 8 and 0 <= y < 8:
                line.append(y * 8 + x); x += dx; y += dy
            if len(line) >= 2:
                i = rng.randrange(0, len(line) - 1); j = rng.randrange(i + 1, len(line))
                mid = rng.choice("QRBNPK")
                if mid == "P" and not (8 <= line[i] < 56): mid = "N"
                put(line[i], mid)
                put(line[j], rng.choice("QR" if dx == 0 or dy == 0 else "QB"))
                if rng.random() < 0.3 and j + 1 < len(line): put(line[j + 1], rng.choice("QRB"))
            for _ in range(rng.randrange(0, 4)): put(rng.randrange(64), rng.choice("NBnbPp"))
            castle = "-"
        for kk in ("K", "k"):                          # make sure both kings exist
            if kk not in b:
                for _ in range(50):
                    s = rng.randrange(64)
                    if b[s] is None:
                        b[s] = kk; break
        for s in list(range(0, 8)) + list(range(56, 64)):
            if b[s] in ("P", "p"): b[s] = None
        out.append(chessgen.board_to_fen(b, white, castle, "-", 0, 20))
    return out


def driver_parallel(lines):
    """run the Lean driver over `lines` split across cores (the ops used here are stateless); None if it died"""
    import concurrent.futures as cf
    n = max(1, min(vlib.NCPU, len(lines) // 500 + 1))
    parts = [lines[i::n] for i in range(n)]
    with cf.ThreadPoolExecutor(n) as ex:
        res = list(ex.map(lambda p: vlib.run_lines(vlib.driver_bin(), p), parts))
    out = [None] * len(lines)
    for i, (rc2, o, e) in enumerate(res):
        if rc2 != 0 or len(o) != len(parts[i]):
            return None
        out[i::n] = o
    return out


def run(ctx):
    quick = ctx.tier == "quick"
    bdir = vlib.cxx_build("plain", ("vharness",))
    vh = os.path.join(bdir, "vharness")
    if ctx.replay:
        rp = ctx.replay["replay"]
        vlib.lake_build(["driver"])
        fens = rp.get("input", [])
        ctx.count(len(fens)); ctx.distinct("r1"); ctx.distinct("r2")
        for fen in fens:
            rc, o, _ = vlib.run_lines(vh, [f"chess mg {fen}"])
            rc2, o2, _ = vlib.run_lines(vlib.driver_bin(), [f"chess mgchk {fen} {o[0]}"])
            print(fen, "\n  impl:", o[0][:400], "\n  acceptor:", o2[0])
            if not o2[0].startswith("ok"):
                ctx.violation("replay: acceptor still rejects", rp)
            _, a, _ = vlib.run_lines(vh, [f"chess tmg {fen}"])
            _, b, _ = vlib.run_lines(vlib.driver_bin(), [f"chess tmg {fen}"])
            print("  MoveGen  :", a[0][:400], "\n  Lean model:", b[0][:400])
            if a != b:
                ctx.violation("replay: MoveGen and the Lean model of its algorithms still disagree", rp, no_input=True)
        return
    vlib.lean_obligations(ctx)
    ctx.assumptions += ["the rules of chess are those of lean/TexelVerif/Chess/Spec.lean (trusted text, perft-validated)",
                        "generator model: Position's bitboards are the from-scratch bitboards of the board and makeMove's board effect is Chess.apply (both C02: Inv, makeMove_refines; makeMoveB is read as the board part of makeMove); "
                        "`while (m) extractSquare(m)` visits set bits in ascending order; BitBoard::rook/bishopAttacks have the shape table[sq][f(occ & mask[sq])] (bitBoard.hpp:302-316, by reading); MoveList never overflows (256 entries)",
                        "class of the capture / capture-and-check generators: promotions to queen or knight only (rook/bishop under-promotions are deliberately omitted by the code)"]
    # 1. tables, exhaustive in thorough
    tl = table_lines(ctx, quick)
    out1, out2, mis = vlib.diff_lines(ctx, "attack-tables", tl)
    ctx.count(len(tl))
    ctx.cov["tables_exhaustive"] = not quick
    if mis is not None:
        ctx.violation(f"attack/geometry table entry differs from the ray-walk definition: `{tl[mis]}` impl {out1[mis]} spec {out2[mis]}",
                      {"kind": "table", "input": [tl[mis]], "impl": out1[mis], "spec": out2[mis]})
    # the masks whose subsets are enumerated are the implementation's rMasks/bMasks (= the model's rookInner/bishopInner,
    # compared above): Props.C01.rook_table_lift then extends the table comparison to all 2^64 occupancies
    for i, l in enumerate(tl):
        w = l.split()
        if w[1] == "imask" and mis is None and int(out1[i], 16) != inner_mask(int(w[3]), w[2] == "3"):
            ctx.violation(f"relevant-occupancy mask of square {w[3]} is not the set of inner ray squares: {out1[i]}",
                          {"kind": "table", "input": [l], "impl": out1[i]})
    # 2. positions
    ngames, plies, nsyn = (300, 160, 20000) if quick else (4000, 220, 200000)
    fens = chessgen.games(ctx, ngames, plies) + chessgen.synthetic(ctx.rng, nsyn) + gives_check_motifs(ctx.rng, nsyn // 5)
    fens = list(dict.fromkeys(fens))
    fl = [f"chess fen {f}" for f in fens]
    o1, o2, mis = vlib.diff_lines(ctx, "fen-reader", fl)
    ctx.count(len(fl))
    if mis is not None:
        ctx.violation(f"FEN reader and its model disagree on `{fens[mis]}`: impl `{o1[mis]}` model `{o2[mis]}`",
                      {"kind": "correspondence", "tie": "fen-reader", "input": [fens[mis]], "impl": o1[mis], "model": o2[mis]}, no_input=True)
    accepted = [o[3:] for o in o1 if o.startswith("ok ")]
    accepted = list(dict.fromkeys(accepted))
    rejected = sum(1 for o in o1 if o.startswith("err"))
    rc, dumps, err = vlib.run_lines(vh, [f"chess mg {f}" for f in accepted])
    if rc != 0 or len(dumps) != len(accepted):
        k = min(len(dumps), len(accepted) - 1)
        ctx.violation(f"harness died in MoveGen on `{accepted[k]}` (rc={rc})", {"kind": "impl-crash", "input": [accepted[k]], "stderr": err})
        return
    chk = [f"chess mgchk {f} {d}" for f, d in zip(accepted, dumps)]
    verdicts = driver_parallel(chk)
    if verdicts is None:
        ctx.violation("Lean driver died in the acceptor", {"kind": "model-crash"}, no_input=True); return
    # 2b. the Lean model of the generator itself (Chess/TexelGen*.lean) against the real one, list order included
    tl2 = [f"chess tmg {f}" for f in accepted]
    rc, impl2, err = vlib.run_lines(vh, tl2)
    model2 = driver_parallel(tl2)
    if rc != 0 or len(impl2) != len(tl2) or model2 is None:
        ctx.violation("harness or driver died in the generator differential", {"kind": "impl-crash", "stderr": err[-500:]}, no_input=True); return
    ctx.count(len(tl2))
    ctx.tie("movegen-model", kind="differential (real MoveGen vs the Lean model of its algorithms: in-check flag, pseudo-legal list in generation order, "
            "isLegal verdict per move, list after removeIllegal, givesCheck per move, evasion / capture / capture-and-check lists in order)", positions=len(tl2))
    nd = 0
    for f, a, b in zip(accepted, impl2, model2):
        if a != b:
            nd += 1
            if nd <= 3:
                ctx.violation(f"MoveGen and the Lean model of its algorithms (Chess.Texel.*) disagree on `{f}`: impl `{a[:300]}` model `{b[:300]}` — "
                              "the theorems Props.C01.texel_* no longer describe this code",
                              {"kind": "correspondence", "tie": "movegen-model", "input": [f], "impl": a, "model": b}, no_input=True)
    stats = {"positions": len(accepted), "rejected_by_reader": rejected, "in_check": 0, "no_legal_move": 0, "with_ep": 0,
             "with_castling_rights": 0, "with_promotions": 0, "legal_moves_total": 0, "capture_class_moves": 0, "check_class_moves": 0}
    nbad = 0
    for f, d, v in zip(accepted, dumps, verdicts):
        ctx.count(); ctx.distinct(f.rsplit(" ", 2)[0])
        if v.startswith("ok"):
            kv = dict(x.split("=") for x in v.split()[1:])
            stats["legal_moves_total"] += int(kv["legal"]); stats["capture_class_moves"] += int(kv["caps"]); stats["check_class_moves"] += int(kv["cc"])
            stats["in_check"] += kv["chk"] == "1"; stats["no_legal_move"] += kv["legal"] == "0"
            fs = f.split()
            stats["with_ep"] += fs[3] != "-"; stats["with_castling_rights"] += fs[2] != "-"
            stats["with_promotions"] += any(len(t) == 5 and t[0] in "abcdefgh" and t[1] in "27" for t in d.split(" R ")[1].split(" E ")[0].split())
        else:
            nbad += 1
            if nbad <= 3:
                ctx.violation(f"move generation violates the rules in `{f}`: {v}", {"kind": "property-predicate", "input": [f], "impl_dump": d, "acceptor": v})
    ctx.cov["position_stats"] = stats
    ctx.sample({"fen": accepted[0], "impl_dump": dumps[0][:300], "acceptor": verdicts[0]})
    ctx.sample({"fen": accepted[-1], "impl_dump": dumps[-1][:300], "acceptor": verdicts[-1]})
    ctx.tie("movegen-acceptor", kind="implementation dump judged by the proven Lean acceptor Chess.genCheck", positions=len(accepted))
    # 3. perft cross-check
    roots = chessgen.SEED_FENS[:6] if quick else chessgen.SEED_FENS + accepted[:200]
    pl = [f"chess perft {2 if quick else 3} {f}" for f in roots]
    a, b, mis = vlib.diff_lines(ctx, "perft", pl)
    ctx.count(len(pl))
    if mis is not None:
        ctx.violation(f"perft differs on `{roots[mis]}`: impl {a[mis]} spec {b[mis]}", {"kind": "property-predicate", "input": [roots[mis]], "impl": a[mis], "spec": b[mis]})
    ctx.cov["rule"] = ("positions = all positions of random legal games from the initial and seeded start positions (real generator used only to produce inputs) + synthetic placements "
                       "(random sparse/dense with promotion-consistent counts, pins, en-passant pins on rank/diagonal, castling through/into attacked squares, promotions with capture, checks and double checks; castling with the rook giving or just missing check, promotions attacking through the vacated square, pieces between an own slider and the enemy king); "
                       "distinct = distinct board+side+castling+ep; every position: FEN accept/reject and canonical FEN compared with the model, MoveGen dump judged by the acceptor; "
                       "tables: rook/bishop attacks for subsets of the inner mask (all 107 648 in thorough) + random full occupancies, each against the spec's and the generator model's ray walk, the masks themselves, king/knight/pawn attacks, 64x64 direction and squares-between; "
                       "every accepted position additionally: hypotheses GenWF / kingsApart / GcWF of the generator, evasion, givesCheck and captures-and-checks theorems evaluated (a failing hypothesis is a disagreement), ordered dump of the real MoveGen == Lean model of its algorithms")
    if not quick:
        vlib.leanchecker(ctx, ["TexelVerif.Props.C01"])
