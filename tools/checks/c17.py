"""C17 — move, position and game text formats round-trip and reject garbage safely.
Lean: Props/C17.lean (SAN/long/UCI round trip and injectivity on the model, parsers never index out of range,
counters in range after readFEN, PGN scanner progress / writer-reader round trip on the token level).
Tie: (1) per position, every legal move's short/long/UCI text from the real TextIO next to the model's, each parsed back
by the real stringToMove/uciStringToMove (the property's own predicate, evaluated on the implementation);
(2) malformed byte strings (mutated + random, up to 4 KB, hex on the line protocol) offered as FEN / move text /
UCI move / PGN to the real parsers on the ASan+UBSan build, result class compared with the model, accessors exercised
on every accepted FEN; (3) UCI command lines through the real `texel` binary (verifdump hook); (4) random game
trees built with the GameTree API, written by the real writer, decorated with comments/NAGs/move numbers and read back."""
import concurrent.futures as cf
import os, re, subprocess
import vlib, chessgen

WS = b" \t\n\v\f\r"
HEXD = "0123456789abcdef"


def hx(b):
    return b.hex() if b else "-"


def unhx(h):
    return b"" if h == "-" else bytes.fromhex(h)


# ------------------------------------------------------------------------------------------------
# position generators biased as the property says (in addition to chessgen's)
# ------------------------------------------------------------------------------------------------

def _attack_squares(t, kind):
    """squares from which a piece of `kind` could attack square t on an empty board, grouped by line"""
    tx, ty = t % 8, t // 8
    out = []
    if kind == "N":
        for dx, dy in ((1, 2), (2, 1), (-1, 2), (-2, 1), (1, -2), (2, -1), (-1, -2), (-2, -1)):
            x, y = tx + dx, ty + dy
            if 0 <= x < 8 and 0 <= y < 8: out.append([y * 8 + x])
        return out
    dirs = []
    if kind in "RQ": dirs += [(1, 0), (-1, 0), (0, 1), (0, -1)]
    if kind in "BQ": dirs += [(1, 1), (1, -1), (-1, 1), (-1, -1)]
    for dx, dy in dirs:
        x, y, line = tx + dx, ty + dy, []
        while 0 <= x < 8 and 0 <= y < 8:
            line.append(y * 8 + x); x += dx; y += dy
        if line: out.append(line)
    return out


def motif_multi(rng):
    """several like pieces of the side to move attacking one square (file / rank / both disambiguation)"""
    board = [None] * 64
    white = rng.random() < 0.5
    kind = rng.choice("QQQRRNNB")
    t = rng.randrange(64)
    lines = _attack_squares(t, kind)
    rng.shuffle(lines)
    n = rng.choice([2, 2, 3, 3, 4, 5, 6])
    placed = []
    for line in lines[:n]:
        s = rng.choice(line)          # one piece per line so that none blocks another
        board[s] = kind if white else kind.lower(); placed.append(s)
    # force shared files / ranks now and then: put a further like piece on the file or rank of a placed one
    for _ in range(rng.randrange(0, 3)):
        if not placed: break
        s = rng.choice(placed)
        cands = [q for l in lines for q in l if board[q] is None and (q % 8 == s % 8 or q // 8 == s // 8)]
        if cands:
            q = rng.choice(cands); board[q] = kind if white else kind.lower(); placed.append(q)
    if rng.random() < 0.5 and board[t] is None:
        board[t] = rng.choice("qrbnp" if white else "QRBNP")
        if board[t] in "pP" and not (8 <= t < 56): board[t] = "n" if white else "N"
    # a second kind elsewhere so that piece letters differ
    for _ in range(rng.randrange(0, 4)):
        s = rng.randrange(64)
        if board[s] is None and s != t: board[s] = rng.choice("QRBNqrbn")
    for k in ("K", "k"):
        for _ in range(200):
            s = rng.randrange(64)
            if board[s] is None and s != t:
                o = board.index("K") if "K" in board else None
                if o is not None and max(abs(o % 8 - s % 8), abs(o // 8 - s // 8)) <= 1: continue
                board[s] = k; break
    if "K" not in board or "k" not in board: return chessgen.decorate(rng, chessgen.random_placement(rng))
    return chessgen.board_to_fen(board, white, "-", "-", rng.randrange(0, 50), rng.randrange(1, 60))


def motif_promo_cc(rng):
    """promotions with capture and with check: pawns on the 7th, capturable pieces and the enemy king on the 8th"""
    board = [None] * 64
    white = rng.random() < 0.5
    y7, y8 = (6, 7) if white else (1, 0)
    kx = rng.randrange(8)
    board[y8 * 8 + kx] = "k" if white else "K"
    for x in range(8):
        if rng.random() < 0.5: board[y7 * 8 + x] = "P" if white else "p"
        if x != kx and rng.random() < 0.45: board[y8 * 8 + x] = rng.choice("rnbq" if white else "RNBQ")
    if rng.random() < 0.3:                       # two pawns that can capture onto the same square
        x = rng.randrange(1, 7)
        if x != kx:
            board[y8 * 8 + x] = rng.choice("rnbq" if white else "RNBQ")
            board[y7 * 8 + x - 1] = board[y7 * 8 + x + 1] = "P" if white else "p"
    for _ in range(100):
        s = rng.randrange(64)
        if board[s] is None and abs(s // 8 - y8) > 1:
            board[s] = "K" if white else "k"; break
    else:
        return chessgen.motif_promo(rng)
    for _ in range(rng.randrange(0, 5)):
        s = rng.randrange(8, 56)
        if board[s] is None: board[s] = rng.choice("QRBNPqrbnp")
    for x in range(8):
        for yy in (0, 7):
            if board[yy * 8 + x] in ("P", "p"): board[yy * 8 + x] = None
    return chessgen.board_to_fen(board, white, "-", "-", 0, rng.randrange(1, 90))


def gen_positions(ctx, quick):
    ngames, plies, nsyn, nmulti, npromo = (260, 150, 5000, 6000, 3000) if quick else (2500, 220, 80000, 120000, 50000)
    fens = chessgen.games(ctx, ngames, plies) + chessgen.synthetic(ctx.rng, nsyn)
    fens += [motif_multi(ctx.rng) for _ in range(nmulti)] + [motif_promo_cc(ctx.rng) for _ in range(npromo)]
    return [f for f in dict.fromkeys(fens) if matid_ok(f)]      # see FOREIGN_DEFECTS


# ------------------------------------------------------------------------------------------------
# running lines on several cores
# ------------------------------------------------------------------------------------------------

def run_par(binary, lines, nproc, env=None, timeout=7200):
    """Run contiguous chunks of `lines` in parallel.  Returns list of (start, chunk, rc, out, err)."""
    nproc = max(1, min(nproc, (len(lines) + 199) // 200))
    size = (len(lines) + nproc - 1) // nproc
    chunks = [(i, lines[i:i + size]) for i in range(0, len(lines), size)]
    with cf.ThreadPoolExecutor(len(chunks) or 1) as ex:
        res = list(ex.map(lambda c: vlib.run_lines(binary, c[1], env, timeout), chunks))
    return [(st, ch, rc, out, err) for (st, ch), (rc, out, err) in zip(chunks, res)]


# sanitizer reports that belong to another property's recorded defect: the input is skipped, the run continues
FOREIGN_DEFECTS = []      # was: C02 MatId overflow (repaired)


def matid_ok(fen):
    """False for placements on which the MatId sum overflows `int` (C02's finding; such positions abort the UBSan build inside setPiece)"""
    return True      # C02's MatId overflow is repaired (fix: MatId and the material hash key use unsigned arithmetic)
    b = fen.split(" ")[0]
    return 5903 * b.count("q") + 767 * b.count("b") + 91 * b.count("n") + 9 * b.count("r") + b.count("p") < 32768


def run_impl_chunk(binary, ch, env=None):
    """run one chunk; restart after inputs that die with a foreign defect.  Returns (outputs, crash or None, skipped)"""
    out, skipped, pos = [], [], 0
    while pos < len(ch):
        rc, o, err = vlib.run_lines(binary, ch[pos:], env, 7200)
        if rc == 0 and len(o) == len(ch) - pos:
            out += o; break
        k = min(len(o), len(ch) - pos - 1)
        foreign = next((why for pat, why in FOREIGN_DEFECTS if pat in err and "runtime error" in err), None)
        if foreign is None:
            return out + o[:k], (pos + k, rc, err), skipped
        out += o[:k] + ["skipped-foreign-defect"]; skipped.append((ch[pos + k], foreign)); pos += k + 1
    return out, None, skipped


def pdiff(ctx, name, lines, variant, nproc):
    """differential on several cores; returns (impl_out, model_out) or None after reporting a crash"""
    bdir = vlib.cxx_build(variant, ("vharness",))
    binary = os.path.join(bdir, "vharness")
    n = max(1, min(nproc, (len(lines) + 199) // 200))
    size = (len(lines) + n - 1) // n
    chunks = [lines[i:i + size] for i in range(0, len(lines), size)]
    with cf.ThreadPoolExecutor(2 * len(chunks) or 1) as ex:
        fi = [ex.submit(run_impl_chunk, binary, c) for c in chunks]
        fm = [ex.submit(vlib.run_lines, vlib.driver_bin(), c, None, 7200) for c in chunks]
        impl = [f.result() for f in fi]; model = [f.result() for f in fm]
    ctx.tie(name, kind="differential (C++ harness vs compiled Lean model, same input lines)", lines=len(lines), variant=variant)
    out1, out2 = [], []
    for ch, (out, crash, skipped) in zip(chunks, impl):
        for l, why in skipped:
            ctx.tie(name, skipped_foreign_defect=1)
            if why not in ctx.notes: ctx.notes.append(why)
        if crash:
            k, rc, err = crash
            hang = rc == -14
            san = "ERROR: AddressSanitizer" in err or "runtime error" in err
            what = ("parser did not terminate (watchdog)" if hang else "sanitizer report" if san else f"harness died rc={rc}")
            known = None
            dec = decode_line(ch[k])
            ctx.violation(f"{name}: {what} on `{ch[k][:120]}`", {"kind": "impl-hang" if hang else "impl-crash", "tie": name, "variant": variant,
                          "rc": rc, "stderr": err[-1500:], "input": [ch[k]], "decoded": dec})
            return None
        out1 += out
    for ch, (rc, out, err) in zip(chunks, model):
        if rc != 0 or len(out) != len(ch):
            ctx.violation(f"{name}: Lean driver died (rc={rc})", {"kind": "model-crash", "tie": name, "stderr": err[-800:]}, no_input=True)
            return None
        out2 += out
    return out1, out2


def decode_line(l):
    p = l.split()
    try:
        if len(p) >= 3 and p[1] in ("fenx", "ucix", "pgnx", "sanx"):
            return repr(unhx(p[2]))
    except ValueError:
        pass
    return l


# ------------------------------------------------------------------------------------------------
# block 1: every legal move of every position
# ------------------------------------------------------------------------------------------------

def block_moves(ctx, fens, variant, nproc, stats):
    lines = [f"text moves {f}" for f in fens]
    r = pdiff(ctx, "move-text-" + variant, lines, variant, nproc)
    if r is None: return {}
    out1, out2 = r
    nviol = 0
    san_by_fen = {}
    for f, a, b in zip(fens, out1, out2):
        ctx.count()
        if a == "skipped-foreign-defect": continue
        if not a.startswith("ok "):
            if a != b and nviol < 3:
                nviol += 1
                ctx.violation(f"FEN reader and model disagree on `{f}`: impl `{a}` model `{b}`", {"kind": "correspondence", "input": [f"text moves {f}"], "impl": a, "model": b}, no_input=True)
            stats["rejected"] += 1
            continue
        ents = [e.split(",") for e in a.split()[2:]]
        stats["positions"] += 1; stats["moves"] += len(ents)
        ctx.distinct(f.rsplit(" ", 2)[0])
        shorts = {}
        bad = None
        for e in ents:
            if len(e) != 4: bad = f"malformed entry {e}"; break
            uci, sh, lo, fl = e
            if fl[0] != "1": bad = f"short form `{sh}` of {uci} does not parse back to the move"
            elif fl[1] != "1": bad = f"long form `{lo}` of {uci} does not parse back to the move"
            elif fl[2] != "1": bad = f"UCI text `{uci}` does not parse back to the move"
            elif fl[3] != "1": bad = f"0-0 / o-o spelling of {uci} does not parse to the move"
            elif sh in shorts: bad = f"legal moves {shorts[sh]} and {uci} share the short form `{sh}`"
            if bad: break
            shorts[sh] = uci
            # shape statistics
            core = sh.rstrip("+#")
            if sh.endswith("+"): stats["check"] += 1
            if sh.endswith("#"): stats["mate"] += 1
            if core.startswith("O-O"): stats["castle"] += 1
            elif core[0] in "KQRBN":
                d = len(core) - 3 - ("x" in core)
                stats["disamb_file"] += d == 1 and core[1] in "abcdefgh"
                stats["disamb_rank"] += d == 1 and core[1] in "12345678"
                stats["disamb_both"] += d == 2
            elif core[-1] in "QRBN":
                stats["promo"] += 1; stats["promo_capture"] += "x" in core; stats["promo_capture_check"] += "x" in core and sh[-1] in "+#"
            if "x" in core and core[0] in "abcdefgh" and f.split()[3] != "-" and core[2:4] == f.split()[3]: stats["ep"] += 1
        if bad and nviol < 3:
            nviol += 1
            ctx.violation(f"in `{f}`: {bad}", {"kind": "property-predicate", "tie": "move-text", "input": [f"text moves {f}"], "impl_output": a, "model_output": b})
        elif a != b and nviol < 3:
            nviol += 1
            ea, eb = a.split(), b.split()
            d = next((x for x in zip(ea, eb) if x[0] != x[1]), (a[:80], b[:80]))
            ctx.violation(f"move text differs from the model in `{f}`: impl `{d[0]}` model `{d[1]}`",
                          {"kind": "correspondence", "tie": "move-text", "theorem_scope": "Props/C17.lean san_roundtrip / san_injective speak about a model that no longer matches textio.cpp",
                           "input": [f"text moves {f}"], "impl": a, "model": b}, no_input=True)
        san_by_fen[f] = [e[1] for e in ents] + [e[2] for e in ents]
    if out1: ctx.sample({"op": lines[0], "impl": out1[0][:300]})
    return san_by_fen


# ------------------------------------------------------------------------------------------------
# block 2: malformed byte strings
# ------------------------------------------------------------------------------------------------

def mutate(rng, b, alphabet, maxlen=4096):
    b = bytearray(b)
    for _ in range(rng.choice([1, 1, 1, 2, 3, 6])):
        op = rng.randrange(10)
        pos = rng.randrange(len(b) + 1)
        if op == 0 and b: b[rng.randrange(len(b))] = rng.randrange(256)
        elif op == 1 and b: b[rng.randrange(len(b))] = rng.choice(alphabet)
        elif op == 2: b[pos:pos] = bytes(rng.choice(alphabet) for _ in range(rng.choice([1, 1, 2, 5])))
        elif op == 3 and b:
            e = min(len(b), pos + rng.choice([1, 1, 2, 4, 16])); del b[pos:e]
        elif op == 4 and b:
            e = min(len(b), pos + rng.choice([1, 3, 8, 30])); b[pos:pos] = b[pos:e]
        elif op == 5: del b[pos:]
        elif op == 6: b[pos:pos] = bytes([rng.choice(alphabet)]) * rng.choice([2, 9, 70, 700, 3000])
        elif op == 7 and b: b[rng.randrange(len(b))] ^= 1 << rng.randrange(8)
        elif op == 8: b[pos:pos] = rng.choice([b" ", b"  ", b"\t", b"\0", b"\xff", b"-", b"/", b"\n", b"\r"])
        elif op == 9 and len(b) > 2:
            i, j = sorted((rng.randrange(len(b)), rng.randrange(len(b)))); b[i], b[j] = b[j], b[i]
    return bytes(b[:maxlen])


def rand_bytes(rng, alphabet, maxlen):
    n = rng.choice([0, 1, 2, 3, 5, 8, 13, 30, 80, 300, maxlen]) if rng.random() < 0.7 else rng.randrange(maxlen + 1)
    if rng.random() < 0.5: return bytes(rng.choice(alphabet) for _ in range(n))
    return bytes(rng.randrange(256) for _ in range(n))


NUMS = [b"0", b"1", b"-1", b"-5", b"-500000", b"99", b"100", b"101", b"255", b"256", b"65535", b"65536", b"2147483647", b"2147483648",
        b"-2147483648", b"-2147483649", b"99999999999999999999", b"+7", b"+-7", b"7x", b"x7", b"0x10", b"1e3", b"\t12", b"\v3", b"--3", b"-", b"+", b"",
        b"007", b"-0", b"4294967295", b"4294967291", b"18446744073709551615", b"3.5", b"1 2 3"]


def gen_fen_bytes(rng, fens, n):
    alpha = b"KQRBNPkqrbnp12345678/ w-abcdefgh0 9"
    out = []
    for _ in range(n):
        r = rng.random()
        base = rng.choice(fens).encode()
        if r < 0.10: s = base
        elif r < 0.40:                       # counter fields replaced by boundary values
            f = base.split(b" ")
            if len(f) >= 6:
                if rng.random() < 0.8: f[4] = rng.choice(NUMS)
                if rng.random() < 0.5: f[5] = rng.choice(NUMS)
                if rng.random() < 0.2: f = f[:rng.randrange(1, 7)]
                if rng.random() < 0.2 and len(f) > 3: f[3] = rng.choice([b"e3", b"e6", b"a", b"h", b"e", b"-", b"z9", b"e\xff", b"a3b", b"\xe1\xb1"])
                if rng.random() < 0.1 and len(f) > 2: f[2] = rng.choice([b"KQkq", b"-", b"kK-", b"KQkqKQkq", b"A", b"K q"])
            s = rng.choice([b" ", b" ", b"  "]).join(f)
        elif r < 0.85: s = mutate(rng, base, alpha)
        else: s = rand_bytes(rng, alpha, 4096)
        out.append(s[:4096])
    return out


def gen_san_bytes(rng, san_by_fen, n):
    alpha = b"KQRBNPkqrbnpabcdefgh12345678x-=+#O0o "
    keys = list(san_by_fen)
    out = []
    for _ in range(n):
        f = rng.choice(keys)
        sans = san_by_fen[f]
        r = rng.random()
        if not sans or r < 0.12: s = rand_bytes(rng, alpha, rng.choice([6, 6, 12, 4096]))
        else:
            base = rng.choice(sans).encode()
            if r < 0.25:                     # under-specified / over-specified / respelled variants of a real move
                s = base.replace(b"x", b"") if rng.random() < 0.5 else base.replace(b"-", b"")
                if rng.random() < 0.3: s = s.lower()
                if rng.random() < 0.3 and len(s) > 2: s = s[:1] + s[2:]
                if rng.random() < 0.2: s = s.replace(b"O", rng.choice([b"0", b"o"]))
                if rng.random() < 0.2 and s[-1:] in b"QRBN": s = s[:-1] + b"=" + s[-1:]
            elif r < 0.30: s = base
            else: s = mutate(rng, base, alpha)
        out.append((f, s[:4096]))
    return out


def gen_uci_bytes(rng, n):
    alpha = b"abcdefgh12345678qrbn kQ0"
    out = []
    for _ in range(n):
        r = rng.random()
        if r < 0.5:
            s = bytes([rng.choice(b"abcdefgh"), rng.choice(b"12345678"), rng.choice(b"abcdefgh"), rng.choice(b"12345678")])
            if rng.random() < 0.5: s += bytes([rng.choice(b"qrbnk QN")])
            if rng.random() < 0.4: s = mutate(rng, s, alpha)
        elif r < 0.8: s = bytes(rng.choice(alpha) for _ in range(rng.choice([0, 1, 2, 3, 4, 4, 5, 5, 6])))
        else: s = rand_bytes(rng, alpha, rng.choice([5, 8, 4096]))
        out.append(s)
    return out


# ---- PGN ----------------------------------------------------------------------------------------

def decorate_pgn(rng, fen, w, plain=False):
    """PGN text around the real writer's move text `w`: tags, move numbers, comments, NAGs, annotation suffixes, escape lines.
    `plain`: only what keeps the token stream in the SYMBOL / ( / ) sublanguage of the token-level model (plus skipped tokens)."""
    toks = re.findall(r"\(|\)|[^\s()]+", w)
    out = []
    if plain:
        n = 1
        for t in toks:
            if t not in "()" and rng.random() < 0.4: out.append(f"{n}." + rng.choice(["", " ", ".. "])); n += 1
            out.append(t.rstrip("+"))            # the reader strips a final '+' itself; '#' is left to stringToMove
            if t not in "()":
                if rng.random() < 0.15: out.append(" $" + str(rng.choice([1, 7, 139])))
                if rng.random() < 0.15: out.append(" {" + rng.choice(["c", "a (b", ")"]) + "}")
            out.append(rng.choice([" ", " ", "\n", "  "]))
        return "".join(out).encode("latin-1", "replace")
    if fen != chessgen.START or rng.random() < 0.3:
        out.append(f'[FEN "{fen}"]\n')
    if rng.random() < 0.6:
        for name in rng.sample(["Event", "Site", "Date", "Round", "White", "Black", "Result", "ECO", "Annotator", "Setup"], rng.randrange(0, 6)):
            val = rng.choice(["?", "x", "a b", "1-0", "say \\\"hi\\\"", "back\\\\slash", "", "2016.04.09", "{not a comment}", "semi;colon"])
            out.append(f'[{name} "{val}"]' + rng.choice(["\n", " ", "\n\n", "\r\n"]))
    n = 1
    for t in toks:
        if t not in "()":
            if rng.random() < 0.5: out.append(f"{n}." + rng.choice(["", " ", "..", ".. "])); n += 1
            if rng.random() < 0.15: out.append("{" + rng.choice(["pre", "a (b) c", "[%clk 0:01]", "", "x;y", "1. e4", "é"]) + "} ")
        out.append(t)
        if t not in "()":
            r = rng.random()
            if r < 0.12: out.append(rng.choice(["!", "?", "!!", "??", "!?", "?!"]))
            elif r < 0.22: out.append(" $" + str(rng.choice([0, 1, 7, 14, 139, 255])))
            if rng.random() < 0.2: out.append(" {" + rng.choice(["post", "c1", "(", ")", "$3", "long " * 5, ""]) + "}")
            if rng.random() < 0.05: out.append(" ;rest of line " + rng.choice(["", "{", "e4 (", "\""]) + "\n")
            if rng.random() < 0.04: out.append("\n%escape ( { line\n")
        out.append(rng.choice([" ", " ", "\n", "  ", "\t", ""]) if t == "(" else rng.choice([" ", " ", "\n", "  ", "\r\n"]))
    if rng.random() < 0.6: out.append(rng.choice(["1-0", "0-1", "1/2-1/2", "*"]) + "\n")
    return "".join(out).encode("latin-1", "replace")


def gen_pgn(ctx, fens, ntrees, nmut):
    """returns (list of (kind, bytes, expected_writer_text or None), number of trees whose real round trip failed)"""
    rng = ctx.rng
    bdir = vlib.cxx_build("asan", ("vharness",))
    starts = [chessgen.START] * 3 + rng.sample(fens, min(len(fens), 40))
    lines = []
    for i in range(ntrees):
        st = rng.choice(starts)
        lines.append(f"text pgngen {rng.getrandbits(48)} {rng.choice([0, 1, 2, 5, 12, 30, 60])} {st}")
    res = run_par(os.path.join(bdir, "vharness"), lines, min(4, vlib.NCPU))
    out = []
    for st, ch, rc, o, err in res:
        if rc != 0 or len(o) != len(ch):
            k = min(len(o), len(ch) - 1)
            ctx.violation((f"PGN reader did not terminate (watchdog) on the text written for `{ch[k]}`" if rc == -14 else f"pgn tree generator/round trip crashed on `{ch[k]}`"),
                          {"kind": "impl-hang" if rc == -14 else "impl-crash", "input": [ch[k]], "stderr": err[-1500:], "rc": rc, "variant": "asan"})
            return [], 0
        out += o
    items, bad = [], 0
    for l, o in zip(lines, out):
        ctx.count()
        if not o.startswith("tree "):
            continue                       # start position rejected by the reader (synthetic FEN)
        kv = dict(x.split("=", 1) for x in o.split()[1:])
        fen = " ".join(l.split()[4:])
        if kv["eq"] != "1" or kv["same-text"] != "1":
            bad += 1
            if bad <= 3:
                ctx.violation(f"game tree written by getGameTreeString does not read back to an equal tree: {o[:200]}",
                              {"kind": "property-predicate", "tie": "pgn-roundtrip", "input": [l], "impl_output": o})
            continue
        w = unhx(kv["W"]).decode("latin-1")
        canon = None
        for _ in range(2):
            items.append(("decorated", decorate_pgn(rng, fen, w), w, fen))
        if fen == chessgen.START:
            items.append(("decorated", w.encode("latin-1"), w, fen))
            items.append(("decorated", decorate_pgn(rng, fen, w, plain=True), w, fen))
    alpha = b"abcdefgh12345678KQRBNOx-+#=!?.()[]{};\"$%* \n\r\t10/\\"
    base = [it[1] for it in items] or [b"1. e4 e5"]
    for _ in range(nmut):
        r = rng.random()
        if r < 0.75: s = mutate(rng, rng.choice(base), alpha)
        elif r < 0.9: s = rand_bytes(rng, alpha, 4096)
        else:
            lvl = rng.choice([3, 30, 300, 1300])
            s = (rng.choice([b"a3(", b"e4 (", b"(", b"{", b"a3 (a6 ", b"[", b"\"", b"[a \"b\" ", b"$", b"a3!?"]) * lvl)[:4096]
        items.append(("malformed", s, None, None))
    return items, bad


def probe_deep_nesting(ctx):
    """beyond the 4 KB bound of the property: variation nesting deep enough to exhaust the stack (recorded finding)"""
    bdir = vlib.cxx_build("plain", ("vharness",))
    for n in (1365, 8000):
        rc, out, err = vlib.run_lines(os.path.join(bdir, "vharness"), ["text pgnx " + (b"a3(" * n).hex()])
        ctx.count()
        if rc != 0 or len(out) != 1:
            if n * 3 <= 4096:
                ctx.violation(f"PGN reader dies on {n} nested variations ({n * 3} bytes)", {"kind": "impl-crash", "input": ["text pgnx " + (b"a3(" * n).hex()], "rc": rc, "variant": "plain"})
            else:
                ctx.violation(f"PGN reader dies on {n} nested variations ({n * 3} bytes, rc={rc})", {"finding_id": "C17-pgn-nesting-stack", "kind": "impl-crash", "rc": rc})
    ctx.tie("pgn-deep-nesting", kind="implementation only: `a3(` repeated 1365 times (the deepest nesting 4 KB allow) must be read; 8000 times is the recorded finding", runs=2)


def block_malformed(ctx, fens, san_by_fen, quick, nproc):
    rng = ctx.rng
    nf, ns, nu, ntree, npg = (22000, 12000, 6000, 1000, 8000) if quick else (110000, 60000, 30000, 4000, 50000)   # per round
    lines, meta = [], []
    for s in gen_fen_bytes(rng, fens, nf):
        lines.append("text fenx " + hx(s)); meta.append(("fen", s))
    if san_by_fen:
        for f, s in gen_san_bytes(rng, san_by_fen, ns):
            lines.append(f"text sanx {hx(s)} {f}"); meta.append(("san", s))
    for s in gen_uci_bytes(rng, nu):
        lines.append("text ucix " + hx(s)); meta.append(("uci", s))
    items, _ = gen_pgn(ctx, fens, ntree, npg)
    for kind, s, w, fen in items:
        lines.append("text pgnx " + hx(s)); meta.append(("pgn-" + kind, s, w, fen))
    order = list(range(len(lines))); rng.shuffle(order)          # PGN inputs are the expensive ones: spread them over the chunks
    lines = [lines[i] for i in order]; meta = [meta[i] for i in order]
    r = pdiff(ctx, "malformed-stream", lines, "asan", nproc)
    if r is None: return
    out1, out2 = r
    cls = {}
    nviol = 0
    for l, m, a, b in zip(lines, meta, out1, out2):
        ctx.count()
        if a == "skipped-foreign-defect": continue
        key = m[0] + ":" + ("accepted" if a.startswith(("ok", "mv ", "G ")) and a != "mv none" else a.split("|")[-1].strip()[:28])
        cls[key] = cls.get(key, 0) + 1
        ctx.distinct(l)
        bad = None
        if a.startswith("uncaught-exception"):
            bad = f"a parser let `{a}` escape (only ChessError is handled by the callers; the engine would terminate)"
        elif m[0] == "pgn-decorated" and m[2] is not None:
            # property predicate on the implementation: the decorated text of a written tree reads back to a tree that is written identically
            got = re.search(r" w=(\S+)", a)
            if m[2] == "" and a == "nogame":
                pass                        # an empty tree without tags is "no game" for the reader
            elif not a.startswith("G ") or " | " in a or got is None or unhx(got.group(1)).decode("latin-1") != m[2]:
                bad = "decorated PGN of a tree written by the real writer does not read back to the same tree"
        if bad and nviol < 3:
            nviol += 1
            ctx.violation(bad + f": {m[1][:200]!r}", {"kind": "property-predicate", "tie": "pgn-roundtrip", "input": [l], "impl_output": a[:2000], "expected_writer_text": m[2] if len(m) > 2 else None})
        elif a != b and nviol < 3:
            nviol += 1
            ctx.violation(f"malformed-stream: result class differs on {m[0]} input {m[1][:80]!r}: impl `{a[:160]}` model `{b[:160]}`",
                          {"kind": "correspondence", "tie": "malformed-stream", "theorem_scope": "Props/C17.lean parsers_total / readFEN_counters_in_range speak about a model that no longer matches the parsers",
                           "input": [l], "impl": a[:3000], "model": b[:3000]}, no_input=True)
    old = ctx.cov.get("malformed_classes", {})
    for k, v in old.items(): cls[k] = cls.get(k, 0) + v
    ctx.cov["malformed_classes"] = dict(sorted(cls.items(), key=lambda kv: -kv[1])[:40])
    for i in (0, len(lines) // 2, len(lines) - 1):
        ctx.sample({"op": lines[i][:160], "impl": out1[i][:160]})


# ---- UCI command lines through the real binary ---------------------------------------------------

def gen_uci_lines(rng, fens, n):
    cmds = {b"uci", b"isready", b"setoption", b"ucinewgame", b"go", b"stop", b"ponderhit", b"quit"}
    alpha = b"abcdefgh12345678qrbn position fen startpos moves \t\r\v\f/KQRBNPw-"
    out = []
    while len(out) < n:
        r = rng.random()
        fen = rng.choice(fens).encode()
        mv = b" ".join(bytes([rng.choice(b"abcdefgh"), rng.choice(b"12345678"), rng.choice(b"abcdefgh"), rng.choice(b"12345678")]) + rng.choice([b"", b"", b"q", b"n", b"x"])
                       for _ in range(rng.randrange(0, 6)))
        if r < 0.25: s = b"position startpos" + (b" moves " + mv if rng.random() < 0.7 else b"")
        elif r < 0.6: s = b"position fen " + fen + (b" moves " + mv if rng.random() < 0.6 else b"")
        elif r < 0.8: s = b"verifdump " + rand_bytes(rng, alpha, rng.choice([10, 50, 4000]))
        else: s = rand_bytes(rng, alpha, rng.choice([10, 50, 4000]))
        if rng.random() < 0.5: s = mutate(rng, s, alpha)
        if rng.random() < 0.3: s = s.replace(b" ", rng.choice([b"  ", b"\t", b" \r", b"\v", b"\f "]))
        if rng.random() < 0.2: s = rng.choice([b" ", b"\t\t", b"\r"]) + s + rng.choice([b" ", b"\r", b"\t "])
        s = s.replace(b"\n", b" ")[:4096]
        tk = s.translate(None, b"").split()     # bytes.split() splits on ASCII whitespace: space \t \n \r \v \f
        if tk and tk[0] in cmds: continue
        out.append(s)
        if not (tk and tk[0] == b"verifdump"): out.append(b"verifdump")
    return out


def block_uci(ctx, fens, quick):
    n = 3000 if quick else 300000
    lines = gen_uci_lines(ctx.rng, fens, n)
    bdir = vlib.cxx_build("asan", ("texel",))
    texel = os.path.join(bdir, "texel")
    size = 300
    sessions = [lines[i:i + size] for i in range(0, len(lines), size)]

    def run_session(sess):
        data = b"\n".join(sess) + b"\nquit\n"
        try:
            p = subprocess.run([texel, "-nonuma"], input=data, stdout=subprocess.PIPE, stderr=subprocess.PIPE, timeout=900)
        except subprocess.TimeoutExpired:
            return None
        return p.returncode, p.stdout.decode("latin-1").split("\n")[:-1], p.stderr.decode("latin-1")[-1500:]

    with cf.ThreadPoolExecutor(4) as ex:
        res = list(ex.map(run_session, sessions))
    mlines = []
    for sess in sessions:
        mlines += ["text ucireset"] + ["text uciline " + hx(l) for l in sess]
    rc2, model, err2 = vlib.run_lines(vlib.driver_bin(), mlines)
    ctx.tie("uci-lines", kind="real texel binary (ASan+UBSan) fed position/verifdump command lines vs tokenizer + position-command model", lines=len(lines), sessions=len(sessions))
    ctx.count(len(lines))
    if rc2 != 0 or len(model) != len(mlines):
        ctx.violation("Lean driver died on the UCI lines", {"kind": "model-crash", "stderr": err2[-500:]}, no_input=True); return
    pos = 0
    for sess, r in zip(sessions, res):
        mod = [(i, o) for i, o in enumerate(model[pos + 1:pos + 1 + len(sess)]) if o != "-"]
        pos += 1 + len(sess)
        if r is None:
            ctx.violation("UCI command loop did not terminate on the generated command lines", {"kind": "impl-hang", "tie": "uci-lines", "input": [l.hex() for l in sess]}); return
        rc, impl, err = r
        if rc != 0:
            foreign = next((why for pat, why in FOREIGN_DEFECTS if pat in err and "runtime error" in err), None)
            if foreign is None:
                ctx.violation(f"texel died (rc={rc}) while reading UCI command lines, after {len(impl)} verifdump replies of the session",
                              {"kind": "impl-crash", "tie": "uci-lines", "rc": rc, "stderr": err, "input": [l.hex() for l in sess]}); return
            ctx.tie("uci-lines", skipped_foreign_defect=1)
            if foreign not in ctx.notes: ctx.notes.append(foreign)
            mod = mod[:len(impl)]            # the replies before the foreign defect still count
        for (i, o), a in zip(mod, impl):
            if o != a:
                ctx.violation(f"UCI command line handling differs from the model after line {sess[i - 1][:80]!r}: impl `{a[:200]}` model `{o[:200]}`",
                              {"kind": "correspondence", "tie": "uci-lines", "input": [l.hex() for l in sess[:i + 1]], "impl": a, "model": o,
                               "theorem_scope": "Props/C17.lean tokenize_no_oob (model no longer matches uciprotocol.cpp)"}, no_input=True)
                return
        if len(mod) != len(impl):
            ctx.violation(f"UCI: {len(impl)} replies from the engine, {len(mod)} from the model in one session", {"kind": "correspondence", "tie": "uci-lines", "input": [l.hex() for l in sess]}, no_input=True)
            return
    if res and res[0] and res[0][1]: ctx.sample({"uci_line": repr(sessions[0][0][:100]), "impl": res[0][1][0][:200]})


# ------------------------------------------------------------------------------------------------

def replay(ctx):
    rp = ctx.replay["replay"]
    vlib.lake_build(["driver"])
    lines = rp.get("input", [])
    variant = rp.get("variant", "asan")
    if rp.get("tie") == "uci-lines":
        bdir = vlib.cxx_build("asan", ("texel",))
        data = b"\n".join(bytes.fromhex(l) for l in lines) + b"\nverifdump\nquit\n"
        p = subprocess.run([os.path.join(bdir, "texel"), "-nonuma"], input=data, stdout=subprocess.PIPE, stderr=subprocess.PIPE, timeout=600)
        print(p.stdout.decode("latin-1")[-2000:], p.stderr.decode("latin-1")[-2000:])
        ctx.count(len(lines)); ctx.distinct("r1"); ctx.distinct("r2")
        if p.returncode != 0: ctx.violation("replay: texel still dies", rp)
        return
    bdir = vlib.cxx_build(variant, ("vharness",))
    rc, o1, err = vlib.run_lines(os.path.join(bdir, "vharness"), lines)
    rc2, o2, _ = vlib.run_lines(vlib.driver_bin(), lines)
    for l, a, b in zip(lines, o1 + ["<died>"] * len(lines), o2):
        print(f"{l[:200]}\n   decoded: {decode_line(l)[:200]}\n   impl : {a[:400]}\n   model: {b[:400]}")
    ctx.count(len(lines)); ctx.distinct("r1"); ctx.distinct("r2")
    if rc != 0 or len(o1) != len(lines):
        print(err[-1500:]); ctx.violation(f"replay: harness still dies (rc={rc})", rp)
    elif o1 != o2 or any(a.startswith("ok ") and not all(e.endswith(",1111") for e in a.split()[2:])
                         for l, a in zip(lines, o1) if l.startswith("text moves")) or any(a.startswith("uncaught-exception") for a in o1):
        ctx.violation("replay still fails", rp)


def run(ctx):
    quick = ctx.tier == "quick"
    if ctx.replay:
        return replay(ctx)
    vlib.lean_obligations(ctx)
    nproc = 4 if quick else 8
    ctx.assumptions += ["the rules of chess are those of lean/TexelVerif/Chess/Spec.lean; the real code obtains the legal list and the check flag from MoveGen (tied to the specification by C01)",
                        "a byte is modelled as one Char (Char.ofNat b); `char` signedness only matters for differences that are out of range on both sides",
                        "isspace/isdigit in the \"C\" locale", "memory safety of libstdc++ string and stream operations themselves is trusted"]
    fens = gen_positions(ctx, quick)
    stats = {k: 0 for k in ("positions", "rejected", "moves", "check", "mate", "castle", "disamb_file", "disamb_rank", "disamb_both", "promo", "promo_capture", "promo_capture_check", "ep")}
    san_by_fen = {}
    B = 40000                                    # batches bound the memory of the thorough tier
    for i in range(0, len(fens), B):
        san_by_fen.update(block_moves(ctx, fens[i:i + B], "plain", nproc, stats))
        if ctx.violations: break
    sub = ctx.rng.sample(fens, max(1, len(fens) // (8 if quick else 6)))
    for i in range(0, len(sub), B):
        block_moves(ctx, sub[i:i + B], "asan", nproc, dict(stats))
    ctx.cov["move_text_stats"] = stats
    accepted = [f for f in san_by_fen]
    if not quick and len(san_by_fen) > 60000:      # keep a sample of the move texts as mutation bases
        san_by_fen = {f: san_by_fen[f] for f in ctx.rng.sample(accepted, 60000)}
    for rnd in range(1 if quick else 8):
        block_malformed(ctx, accepted or [chessgen.START], san_by_fen, quick, nproc)
        if ctx.violations: break
    block_uci(ctx, accepted or [chessgen.START], quick)
    probe_deep_nesting(ctx)
    ctx.cov["rule"] = ("positions = all positions of random legal games + chessgen's synthetic motifs + placements with 2..8 like pieces attacking one square (shared files/ranks forced) "
                       "+ seventh-rank pawns with capturable pieces and the enemy king on the eighth; every legal move: short, long, UCI text vs model and parsed back by the real parsers, short forms pairwise distinct; "
                       "malformed stream: valid FEN / move text / UCI move / decorated PGN mutated by byte flips, insertions, deletions, duplications, truncations, long runs (to 4 KB), boundary counters, plus random bytes; "
                       "PGN trees built by the GameTree API and written by getGameTreeString; UCI command lines through the real binary; distinct = distinct positions + distinct malformed inputs")
    if not quick:
        vlib.leanchecker(ctx, ["TexelVerif.Props.C17"])
