"""C06 — time limits are honoured.
Lean: Props/C06.lean (limits_ok & co. for every clock input; stop rule bound "hard + one polling interval").
Tie:  (a) differential of the real EngineControl::computeTimeLimit / Search::shouldStop / Search::setStrength (harness
          `tm ...`) against the compiled Lean model over boundary + random grids, and the property's own predicate
          (1 <= soft <= hard <= budget) evaluated on the implementation's outputs;
      (b) the real UCI engine under the virtual clock hook (TEXEL_VERIF_CLOCK): for every scenario the reported
          allocation / limits handed to Search::timeLimit / ponderhit limits are compared with the model, and the recorded
          virtual time stamps of search end and bestmove must satisfy the bounds of stop_within_poll / go_deadline /
          ponderhit_deadline / stop_after_zero / wait_loop_bound with the polling interval measured by the hook."""
import os, json, subprocess, concurrent.futures
import vlib

HUGE = 10 ** 9
# (fen, white to move, exactly one legal move)
POSITIONS = [
    ("rnbqkbnr/pppppppp/8/8/8/8/PPPPPPPP/RNBQKBNR w KQkq - 0 1", True, False),
    ("rnbqkbnr/pppppppp/8/8/4P3/8/PPPP1PPP/RNBQKBNR b KQkq - 0 1", False, False),
    ("r3k2r/p1ppqpb1/bn2pnp1/3PN3/1p2P3/2N2Q1p/PPPBBPPP/R3K2R w KQkq - 0 1", True, False),
    ("r3k2r/p1ppqpb1/bn2pnp1/3PN3/1p2P3/2N2Q1p/PPPBBPPP/R3K2R b KQkq - 0 1", False, False),
    ("8/2p5/3p4/KP5r/1R3p1k/8/4P1P1/8 w - - 0 1", True, False),
    ("r4rk1/1pp1qppp/p1np1n2/2b1p1B1/2B1P1b1/P1NP1N2/1PP1QPPP/R4RK1 w - - 0 10", True, False),
    ("rnbq1k1r/pp1Pbppp/2p5/8/2B5/8/PPP1NnPP/RNBQK2R w KQ - 1 8", True, False),
    ("q3k1nr/1pp1nQpp/3p4/1P2p3/4P3/B1PP1b2/B5PP/5K2 b k - 0 17", False, False),
    ("4k3/pp6/8/8/8/8/PP2q3/4K3 w - - 0 1", True, True),      # only Kxe2
    ("4k3/pp2Q3/8/8/8/8/PP6/4K3 b - - 0 1", False, True),     # only Kxe7
    ("6k1/5ppp/8/8/8/8/5PPP/R5K1 w - - 0 1", True, False),    # mate in one: the search ends by itself, also while pondering
    ("r5k1/5ppp/8/8/8/8/5PPP/6K1 b - - 0 1", False, False),
]
TAUS = [10, 100, 1000, 10 ** 4, 10 ** 5, 10 ** 6]   # microseconds of virtual time per node
QCAP = 100000      # nodes: sanity cap on what a quiescence search may add to the nominal polling period (17 000 observed)
NODE_BUDGET = 40000


def net_env(bdir):
    return {"TEXEL_VERIF_NET": vlib.net_file(bdir, "material", 1)}


# ---------------------------------------------------------------------------------------------
# (a) pure arithmetic
# ---------------------------------------------------------------------------------------------

def budget_of(buffer, time):
    return time - min(buffer, time * 9 // 10)


def alloc_line(white, ponder, buffer, wt, bt, wi, bi, mtg, mt=0, depth=0, nodes=0, mate=0, inf=0):
    return f"tm alloc {white} {ponder} {buffer} {wt} {bt} {wi} {bi} {mtg} {mt} {depth} {nodes} {mate} {inf}"


def gen_alloc(ctx, n_random):
    r = ctx.rng
    lines = ["tm params"]
    bufs = [1, 2, 9, 10, 11, 100, 999, 1000, 1001, 5000, 9999, 10000]
    times = sorted(set([1, 2, 3, 4, 9, 10, 11, 12, 19, 20, 21, 99, 100, 101, 999, 1000, 1001, 1110, 1111, 1112, 1200, 5000,
                        11110, 11111, 11112, 11113, 60000, 10 ** 6, 10 ** 7 - 1, 10 ** 7]))
    incs = [0, 1, 7, 1000, 10 ** 5]
    mtgs = [0, 1, 2, 3, 34, 35, 36, 99, 100]
    # boundary grid (side, ponder) x buffer x mover time x other time x inc x movestogo
    for white in (0, 1):
        for ponder in (0, 1):
            for buf in bufs:
                for t in times + [buf * 10 // 9 + d for d in (-1, 0, 1, 2) if buf * 10 // 9 + d >= 1] + [buf + d for d in (-1, 0, 1) if buf + d >= 1]:
                    for ot in (1, 50, t, 10 ** 7):
                        for inc in (r.sample(incs, 2)):
                            for mtg in r.sample(mtgs, 3):
                                oi = r.choice(incs)
                                wt, bt, wi, bi = (t, ot, inc, oi) if white else (ot, t, oi, inc)
                                lines.append(alloc_line(white, ponder, buf, wt, bt, wi, bi, mtg))

    def logu(lo, hi):
        import math
        return int(round(math.exp(r.uniform(math.log(lo), math.log(hi + 1))))) if r.random() < 0.8 else r.randint(lo, hi)

    for _ in range(n_random):
        white, ponder = r.randrange(2), r.randrange(2)
        buf = r.choice(bufs) if r.random() < 0.3 else r.randint(1, 10000)
        wt, bt = min(logu(1, 10 ** 7), 10 ** 7), min(logu(1, 10 ** 7), 10 ** 7)
        wi = 0 if r.random() < 0.3 else min(logu(1, 10 ** 5), 10 ** 5)
        bi = 0 if r.random() < 0.3 else min(logu(1, 10 ** 5), 10 ** 5)
        mtg = r.choice(mtgs) if r.random() < 0.4 else r.randint(0, 100)
        x = r.random()
        mt = 0 if x < 0.85 else min(logu(1, 10 ** 5), 10 ** 5)
        extra = [0, 0, 0, 0]
        if r.random() < 0.1:
            extra = [r.choice([0, 0, 3, 17]), r.choice([0, 0, 1, 5000]), r.choice([0, 0, 1, 4]), 1 if r.random() < 0.3 else 0]
        lines.append(alloc_line(white, ponder, buf, wt, bt, wi, bi, mtg, mt, *extra))
    # outside the property's domain (differential only): zero / negative clocks and increments, negative moves-to-go,
    # no time control at all, malformed operations
    for _ in range(max(2000, n_random // 50)):
        white, ponder = r.randrange(2), r.randrange(2)
        v = lambda: r.choice([0, 0, -1, -1000, 1, 5, 1000, 123456])
        lines.append(alloc_line(white, ponder, r.choice(bufs), v(), v(), v(), v(), r.choice([-3, -1, 0, 1, 40, 300]), r.choice([0, 0, -5, 20])))
    lines += ["tm alloc 1 0 0 1000 1000 0 0 0 0 0 0 0 0", "tm alloc 1 0 10001 1000 1000 0 0 0 0 0 0 0 0", "tm alloc 1 0 1000 1000",
              "tm alloc 1 0 1000 x 1000 0 0 0 0 0 0 0 0", "tm alloc 1 0 1000 99999999999 1000 0 0 0 0 0 0 0 0", "tm", "tm nosuch 1"]
    return lines


def alloc_predicate(line, out):
    """The property's own predicate on one implementation output.  Returns None or a message."""
    a = line.split()
    if len(a) != 15 or a[1] != "alloc":
        return None
    try:
        white, ponder, buf, wt, bt, wi, bi, mtg, mt, depth, nodes, mate, inf = [int(x) for x in a[2:]]
        o = [int(x) for x in out.split()]
    except ValueError:
        return None
    if len(o) != 5 or not (1 <= buf <= 10000):
        return None
    if not (1 <= wt <= 10 ** 7 and 1 <= bt <= 10 ** 7 and 0 <= wi <= 10 ** 5 and 0 <= bi <= 10 ** 5 and 0 <= mtg <= 100 and 0 <= mt <= 10 ** 5):
        return None   # outside the property's quantifier
    mn, mx, early = o[0], o[1], o[2]
    if inf:
        return None if (mn, mx) == (-1, -1) else f"go infinite but limits ({mn},{mx})"
    if mt > 0:
        if (mn, mx, early) != (mt, mt, 10000):
            return f"movetime {mt}: limits (soft {mn}, hard {mx}, early {early}) instead of ({mt},{mt},10000)"
        return None
    t = wt if white else bt
    b = budget_of(buf, t)
    if not (1 <= mn <= mx <= b):
        return f"clock {t} ms, BufferTime {buf}: soft {mn}, hard {mx} violate 1 <= soft <= hard <= budget {b}"
    if buf <= t * 9 // 10 and mx > t - buf:
        return f"clock {t} ms, BufferTime {buf}: hard limit {mx} eats into the buffer (clock - buffer = {t - buf})"
    return None


def gen_poll(ctx, n):
    r = ctx.rng
    lines = []
    for _ in range(n):
        tstart = r.choice([0, 1000, 10 ** 6, 123456789])
        kind = r.random()
        if kind < 0.6:
            mx = r.choice([1, 2, 10, 100, 1000, 30000, 10 ** 7]); mn = r.randint(1, mx) if r.random() < 0.8 else mx
        elif kind < 0.7:
            mn = mx = -1
        elif kind < 0.8:
            mn = mx = 0
        elif kind < 0.9:
            mn = mx = r.choice([1, 500, 10 ** 5])
        else:
            mn, mx = r.choice([(5, -1), (-1, 5), (10, 3), (0, 7)])      # torn / unordered limits (differential only)
        early = r.choice([85, 85, 1, 100, 101, 10000])
        need = r.randrange(2)
        hf = r.choice([307, 308, 1024, 2048, 3584, r.randint(300, 3600)])
        el = r.choice([0, 1, mn - 1, mn, mn + 1, mx - 1, mx, mx + 1, mn * hf // 1024 - 1, mn * hf // 1024, mn * hf // 1024 + 1, r.randint(0, 2 * abs(mx) + 5)])
        el = max(0, el)
        tot = r.choice([0, 1, 999, 1000, 50000, 10 ** 6])
        mxn = r.choice([-1, -1, -1, 0, 1000, 10 ** 6])
        nps = r.choice([0, 0, 0, 1, 7, 99, 100, 1000, 12345, 10 ** 7])
        lines.append(f"tm poll {tstart + el} {tstart} {mn} {mx} {early} {need} {hf} {mxn} {tot} {nps}")
    for nps in [0, 1, 2, 99, 100, 101, 199, 200, 201, 5000, 99999, 100000, 100001, 10 ** 6, 10 ** 7] + [r.randint(0, 10 ** 7) for _ in range(200)]:
        lines.append(f"tm nbtc {nps}")
    lines += ["tm poll 1 2 3", "tm nbtc -1", "tm poll 10 0 1 1 85 0 -5 -1 0 0"]
    return lines


def poll_predicate(line, out):
    a = line.split()
    if len(a) != 12 or a[1] != "poll":
        if len(a) == 3 and a[1] == "nbtc" and out != "bad-op":
            return None if 1 <= int(out) <= 1000 else f"nodesBetweenTimeCheck {out} outside 1..1000 for MaxNPS {a[2]}"
        return None
    now, ts, mn, mx, early, need, hf, mxn, tot, nps = [int(x) for x in a[2:]]
    o = out.split()
    if len(o) != 2:
        return None
    stop = o[0] == "1"
    el = now - ts
    if 0 <= mn <= mx and el >= mx and not stop:
        return f"shouldStop is false at elapsed {el} >= hard limit {mx} (soft {mn})"
    if mn == -1 and mx == -1 and mxn < 0 and stop:
        return "shouldStop is true although no limit is set"
    return None


def run_block(ctx, name, lines, pred, env, variant="plain"):
    out1, out2, mis = vlib.diff_lines(ctx, name, lines, variant, env=env)
    ctx.count(len(lines))
    for l in lines:
        ctx.distinct(hash(l))
    for l, o in list(zip(lines, out1))[1:3]:
        ctx.sample({"op": l, "impl": o})
    if len(out1) != len(lines):
        return
    nbad = 0
    for i, (l, o) in enumerate(zip(lines, out1)):
        msg = pred(l, o)
        if msg:
            nbad += 1
            if nbad <= 3:
                ctx.violation(msg, {"kind": "property-predicate", "tie": name, "input": [l], "impl_output": o})
    if mis is not None and nbad == 0:
        ctx.violation(f"{name}: model and implementation disagree on `{lines[mis]}`: impl `{out1[mis]}` model `{out2[mis]}`",
                      {"kind": "correspondence", "tie": name, "theorem_scope": "Props/C06.lean (Time/Alloc.lean, Time/StopRule.lean no longer correspond to the code)",
                       "input": [lines[mis]], "impl": out1[mis], "model": out2[mis]}, no_input=True)


# ---------------------------------------------------------------------------------------------
# (b) real engine under the virtual clock
# ---------------------------------------------------------------------------------------------

def nbtc(max_nps):
    return min(max(max_nps // 100, 1), 1000) if max_nps > 0 else 1000


def gen_scenarios(ctx, n):
    """Scenarios over the property's quantifier.  The virtual cost of a node (tau) is chosen after the time control so that a
    search that uses its whole budget stays within about 2*NODE_BUDGET nodes."""
    import math
    r = ctx.rng

    def logu(lo, hi):
        return min(hi, max(lo, int(round(math.exp(r.uniform(math.log(lo), math.log(hi + 1)))))))

    scs = []
    for i in range(n):
        pos = r.randrange(len(POSITIONS)) if r.random() < 0.7 else r.choice([8, 9, 10, 11])
        white = POSITIONS[pos][1]
        opts = {"Ponder": r.random() < 0.4, "BufferTime": r.choice([1, 10, 100, 1000, 1000, 3000, 10000]),
                "MaxNPS": r.choice([0, 0, 0, 0, 1, 50, 150, 1000, 20000, 10 ** 6]), "Threads": r.choice([1, 1, 1, 1, 2, 3, 4])}
        x = r.random()
        if x < 0.25:
            tc = {"movetime": r.choice([1, 2, 10, 100, 10 ** 5, logu(1, 10 ** 5), logu(1, 10 ** 5)])}
        elif x < 0.9:
            clk = r.choice([1, 2, 10, 10 ** 7, opts["BufferTime"], opts["BufferTime"] * 10 // 9 + 1, logu(1, 10 ** 7), logu(1, 10 ** 7), logu(100, 10 ** 6)])
            oclk = r.choice([1, clk, max(1, clk // 10), min(10 ** 7, clk * 10), logu(1, 10 ** 7)])
            inc = r.choice([0, 0, 1, clk // 50, clk // 5, min(10 ** 5, clk), 10 ** 5]); inc = max(0, min(inc, 10 ** 5))
            oinc = r.choice([0, inc, 10 ** 5])
            tc = {"wtime": clk if white else oclk, "btime": oclk if white else clk, "winc": inc if white else oinc, "binc": oinc if white else inc}
            mtg = r.choice([0, 0, 1, 2, 5, 20, 40, 100])
            if mtg: tc["movestogo"] = mtg
        else:
            tc = {"infinite": True}
        sc = {"id": i, "pos": pos, "opts": opts, "tc": tc}
        b = scenario_budget(sc)
        if b is None:
            tau = r.choice(TAUS)
        else:
            ok = [t for t in TAUS if b * 1000 <= 2 * NODE_BUDGET * t]
            tau = r.choice(ok[:2]) if r.random() < 0.8 else r.choice(ok)
        dmax = NODE_BUDGET * tau // 1000            # longest stretch we want to search, in virtual ms
        y = r.random()
        mode = "stop" if b is None else "go" if y < 0.45 else "stop" if y < 0.6 else "ponder-hit" if y < 0.85 else "ponder-stop"
        at = None
        if mode != "go":
            at = r.choice([0, 1, 5, dmax // 100, dmax // 10, dmax // 3, dmax // 2, r.randint(0, max(1, dmax // 2))])
            if b is not None and r.random() < 0.3:
                at = r.choice([b // 2, b, b + 1, 2 * b])        # around / after the budget ("limits exhausted")
                at = min(at, 2 * dmax)
        sc.update({"tau": tau, "mode": mode, "at": at})
        # (`go ponder searchmoves ...` is not generated: startPonder ignores the list and keeps the previous one, see notes/C06.md)
        if not POSITIONS[pos][2] and r.random() < 0.12 and pos in (0, 1) and not mode.startswith("ponder"):
            sc["searchmoves"] = "e2e4" if pos == 0 else "e7e5"
        scs.append(sc)
    return scs


def scenario_lines(sc):
    o = sc["opts"]
    L = [f"setoption name Ponder value {'true' if o['Ponder'] else 'false'}", f"setoption name BufferTime value {o['BufferTime']}",
         f"setoption name MaxNPS value {o['MaxNPS']}", f"setoption name Threads value {o['Threads']}",
         f"position fen {POSITIONS[sc['pos']][0]}"]
    tc = sc["tc"]
    go = "go" + (" ponder" if sc["mode"].startswith("ponder") else "")
    go += " infinite" if "infinite" in tc else "".join(f" {k} {tc[k]}" for k in ("wtime", "btime", "winc", "binc", "movestogo", "movetime") if k in tc)
    if "searchmoves" in sc:
        go += " searchmoves " + sc["searchmoves"]
    if sc["mode"] == "go":
        L += [f"verifwait {HUGE}", go]
    elif sc["mode"] in ("stop", "ponder-stop"):
        L += [f"verifwait {sc['at']}", go, "stop"]
    else:
        L += [f"verifwait {sc['at']}", go, f"verifwait {HUGE}", "ponderhit"]
    return L


def run_batch(bdir, tau, scs, cap_ms, timeout):
    lines = ["isready"]
    for sc in scs:
        lines += scenario_lines(sc)
    lines.append("quit")
    env = dict(os.environ)
    env.update(net_env(bdir))
    env.update({"TEXEL_VERIF_CLOCK": f"{tau},trace", "TEXEL_VERIF_CLOCK_CAP": str(cap_ms)})
    try:
        p = subprocess.run([os.path.join(bdir, "texel")], input="\n".join(lines) + "\n", env=env, stdout=subprocess.PIPE, stderr=subprocess.PIPE,
                           text=True, errors="replace", timeout=timeout)
        rc, err = p.returncode, p.stderr
    except subprocess.TimeoutExpired as e:
        rc, err = -999, (e.stderr or b"").decode(errors="replace") if isinstance(e.stderr, bytes) else (e.stderr or "")
    # split the report stream into one segment per computeTimeLimit call
    segs, cur = [], None
    for l in err.split("\n"):
        a = l.split()
        if len(a) < 3 or a[0] != "verif":
            continue
        if a[2] == "alloc":
            cur = []
            segs.append(cur)
        if cur is not None:
            cur.append(a)
    return rc, segs


def time_of(sc):
    tc = sc["tc"]
    white = POSITIONS[sc["pos"]][1]
    return tc.get("wtime" if white else "btime")


def scenario_budget(sc):
    tc = sc["tc"]
    if "movetime" in tc: return tc["movetime"]
    if "infinite" in tc: return None
    return budget_of(sc["opts"]["BufferTime"], time_of(sc))


def model_queries(sc, seg):
    """Lines for the Lean driver whose answers must equal what the hook reported, as (line, reported, what)."""
    q = []
    tc, o = sc["tc"], sc["opts"]
    white = 1 if POSITIONS[sc["pos"]][1] else 0
    one = POSITIONS[sc["pos"]][2] or "searchmoves" in sc
    nmoves = 1 if one else 20
    al = next((a for a in seg if a[2] == "alloc"), None)
    if al is None:
        return q
    q.append((alloc_line(white, 1 if o["Ponder"] else 0, o["BufferTime"], tc.get("wtime", 0), tc.get("btime", 0), tc.get("winc", 0), tc.get("binc", 0),
                         tc.get("movestogo", 0), tc.get("movetime", 0), 0, 0, 0, 1 if "infinite" in tc else 0), " ".join(al[3:8]), "computeTimeLimit"))
    lims = [a for a in seg if a[2] == "limits"]
    if lims:
        if sc["mode"].startswith("ponder"):
            q.append(("tm ponder", " ".join(lims[0][3:6]), "limits handed to the search by startPonder"))
        else:
            q.append((f"tm start {' '.join(al[3:8])} {nmoves}", " ".join(lims[0][3:6]), "limits handed to the search by startSearch"))
    hit = next((i for i, a in enumerate(seg) if a[2] == "ponderhit"), None)
    if hit is not None:
        # the limits line printed by Search::timeLimit precedes the ponderhit line
        prev = [a for a in seg[:hit] if a[2] == "limits"]
        if len(prev) >= 2:
            q.append((f"tm hit {al[3]} {al[4]} {al[5]} {nmoves}", " ".join(prev[-1][3:6]), "limits handed to the search by ponderHit"))
    for a in seg:
        if a[2] == "limits" and a[3:5] == ["0", "0"]:
            q.append(("tm stop", " ".join(a[3:6]), "limits set by stop"))
            break
    return q


def eval_scenario(sc, seg, complete):
    """Property predicates on the recorded time stamps.  Returns list of messages."""
    bad = []
    tau, o = sc["tau"], sc["opts"]
    N = nbtc(o["MaxNPS"])
    idx = {k: next((i for i, a in enumerate(seg) if a[2] == k), None) for k in ("searchend", "bestmove", "searchdone", "ponderhit")}
    lims = [(i, a) for i, a in enumerate(seg) if a[2] == "limits"]
    if not lims:
        return ["no limits were handed to the search"]
    tstart_ms = int(lims[0][1][6])
    t0 = int(lims[0][1][1])
    if idx["bestmove"] is None or idx["searchend"] is None or idx["searchdone"] is None:
        what = "the virtual-clock cap was reached" if not complete else "the engine ended"
        # which deadline applies is decided below with the data we have; without a best move the scenario fails outright
        return [f"no best move: {what} before a best move was produced (search start {t0} us)"]
    t_end, t_best = int(seg[idx["searchend"]][1]), int(seg[idx["bestmove"]][1])
    sd = seg[idx["searchdone"]]
    gap_us = int(sd[5].split("=")[1])
    gap_nodes = int(sd[4].split("=")[1])
    # sanity cap on the measured polling interval (nominal period + quiescence remainder [+ helper results], + throttle sleep)
    # (with MaxNPS the throttle sleeps until nodes*1000/MaxNPS ms have passed, i.e. at most gap_nodes*1000/MaxNPS + 1 ms per poll)
    k = 1 if o["Threads"] == 1 or o["MaxNPS"] > 0 else 20
    s_max = (gap_nodes * 1000 // o["MaxNPS"] + 2) * 1000 if o["MaxNPS"] > 0 else 0
    if gap_nodes > k * N + QCAP or gap_us > gap_nodes * tau + s_max:
        bad.append(f"polling interval {gap_us} us / {gap_nodes} nodes exceeds the nominal {N} nodes (x{k}) + {QCAP} at {tau} us/node + throttle sleep {s_max} us")
    # user stop / ponderhit before the search ended
    user_stop = next((int(a[1]) for i, a in enumerate(seg) if a[2] == "stop" and i < idx["searchend"]), None)
    t_hit = int(seg[idx["ponderhit"]][1]) if idx["ponderhit"] is not None and idx["ponderhit"] < idx["bestmove"] else None
    hit_before_end = idx["ponderhit"] is not None and idx["ponderhit"] < idx["searchend"]
    ponder = sc["mode"].startswith("ponder")
    # limits in force and the deadline for the end of the search
    deadlines = []
    if not ponder:
        mn, mx = int(lims[0][1][3]), int(lims[0][1][4])
        b = scenario_budget(sc)
        if b is not None:
            if not (1 <= mn <= mx <= b):
                bad.append(f"limits handed to the search (soft {mn}, hard {mx}) violate 1 <= soft <= hard <= budget {b}")
            deadlines.append(("hard limit", max(t0, (tstart_ms + mx) * 1000) + gap_us))
            deadlines.append(("budget", (tstart_ms + b) * 1000 + gap_us))
    elif hit_before_end:
        hl = [a for i, a in lims if i < idx["ponderhit"]][-1]
        mn, mx = int(hl[3]), int(hl[4])
        b = scenario_budget(sc)
        if b is not None:
            if not (1 <= mn <= mx <= b):
                bad.append(f"limits installed by ponderhit (soft {mn}, hard {mx}) violate 1 <= soft <= hard <= budget {b}")
            if POSITIONS[sc["pos"]][2] and mx != 1:
                bad.append(f"ponderhit with a single legal move installed hard limit {mx}, expected 1")
            deadlines.append(("ponderhit: max(hit, start + hard)", max(t_hit, (tstart_ms + mx) * 1000) + gap_us))
    if user_stop is not None:
        deadlines.append(("stop", user_stop + gap_us))
    # known finding: the MaxNPS throttle sleeps (uninterruptibly) in proportion to ALL nodes since the previous test, so a
    # quiescence search between two tests turns into a long sleep past the limit
    if o["MaxNPS"] > 0 and deadlines:
        base = min(d for _, d in deadlines) - gap_us
        if t_end > base + gap_nodes * tau + 1000000:
            bad.append(("C06-maxnps-sleep", f"MaxNPS {o['MaxNPS']}: search ended {(t_end - base) // 1000} ms after its limit; the throttle slept through "
                        f"a polling interval of {gap_us // 1000} ms ({gap_nodes} nodes)"))
    if deadlines and gap_us > 0:
        sc["_used"] = max(0.0, (t_end - (min(d for _, d in deadlines) - gap_us)) / gap_us)   # fraction of the polling interval used
    for what, d in deadlines:
        if t_end > d:
            bad.append(f"search ended at {t_end} us, later than the deadline {d} us ({what} + one polling interval of {gap_us} us); start {tstart_ms} ms")
    # best move relative to the end of the search
    if ponder or "infinite" in sc["tc"]:
        flags = [int(a[1]) for i, a in enumerate(seg) if a[2] in ("stop", "ponderhit") and i < idx["bestmove"]]
        if not flags:
            bad.append("best move was sent while pondering / searching infinitely without stop or ponderhit")
        else:
            # the command is delivered at the first clock step at or after its scheduled time, so the latency of the
            # 10 ms wait loop shows against the scheduled time (wait_loop_bound)
            tf, ts = flags[0], (tstart_ms + sc["at"]) * 1000
            if t_best < tf or t_best > max(t_end, ts + 10000):
                bad.append(f"best move at {t_best} us; search ended {t_end} us, stop/ponderhit scheduled {ts} us, delivered {tf} us: "
                           f"outside [delivered, max(end, scheduled + 10 ms)]")
    elif t_best != t_end:
        bad.append(f"best move at {t_best} us but the search ended at {t_end} us")
    # poll trace: hypotheses of the model and the stop rule on the implementation
    polls = [(i, a) for i, a in enumerate(seg) if a[2] == "poll"]
    for j, (i, a) in enumerate(polls):
        el, mn, mx, early, need, x, tl = [int(v) for v in a[3:10]]
        if mn >= 0 and x < 0:
            bad.append(f"(S64)(minT*hardFactor) = {x} < 0 at a poll (hypothesis 0 <= x of the model)")
        if 0 <= mn <= mx and not (0 <= tl <= mx):
            bad.append(f"shouldStop compared the clock with {tl}, outside [0, hard {mx}] (soft {mn})")
        if 0 <= mn <= mx and el >= mx and j != len(polls) - 1:
            bad.append(f"a poll at elapsed {el} ms >= hard {mx} ms did not stop the search")
        if tl >= 0 and el >= tl and (j != len(polls) - 1 or int(a[1]) != t_end):
            bad.append(f"a poll with elapsed {el} >= limit {tl} did not end the search at that time")
    return bad[:6]


def engine_block(ctx, bdir, scs, label):
    by_tau = {}
    for sc in scs:
        nps = sc["opts"]["MaxNPS"]
        by_tau.setdefault((sc["tau"], nps if 0 < nps < 1000 else 0), []).append(sc)
    jobs = []
    for (tau, lownps), lst in by_tau.items():
        for i in range(0, len(lst), 12):
            # ponder scenarios first, searchmoves last: EngineControl::startPonder does not reset the searchmoves filter of an
            # earlier `go searchmoves` (incidental finding, see notes/C06.md), so the order keeps scenarios independent
            chunk = sorted(lst[i:i + 12], key=lambda s: (0 if s["mode"].startswith("ponder") else 1, 1 if "searchmoves" in s else 0, s["id"]))
            # virtual-clock cap per search: generous multiple of the longest intended search + polling interval (+ throttle sleeps)
            need = max([NODE_BUDGET * tau // 1000] + [max(scenario_budget(x) or 0, x["at"] or 0) for x in chunk])
            cap = 2 * need + 4 * (1000 + QCAP) * tau // 1000 + 5000
            cap += max([0] + [2 * (nbtc(s["opts"]["MaxNPS"]) + 3000) * 1000 // s["opts"]["MaxNPS"] for s in chunk if s["opts"]["MaxNPS"] > 0])
            jobs.append((tau, chunk, cap))
    results = []
    with concurrent.futures.ThreadPoolExecutor(max_workers=4) as ex:
        futs = {ex.submit(run_batch, bdir, tau, chunk, cap, 600): (tau, chunk) for tau, chunk, cap in jobs}
        for f in concurrent.futures.as_completed(futs):
            tau, chunk = futs[f]
            rc, segs = f.result()
            results.append((tau, chunk, rc, segs))
    queries, nsearch = [], 0
    maxgap = maxgap_mt = 0
    used, modes = 0.0, {}
    for tau, chunk, rc, segs in results:
        for k, sc in enumerate(chunk):
            if k >= len(segs):
                if k == len(segs):
                    ctx.violation(f"engine ended (rc={rc}) before scenario {sc['id']} of a batch reported anything",
                                  {"kind": "engine", "scenario": sc, "rc": rc, "batch": [x["id"] for x in chunk]}, no_input=True)
                continue
            seg = segs[k]
            nsearch += 1
            ctx.count(1)
            ctx.distinct(json.dumps(sc, sort_keys=True))
            complete = not (k == len(segs) - 1 and rc != 0)
            msgs = eval_scenario(sc, seg, complete)
            sd = next((a for a in seg if a[2] == "searchdone"), None)
            if sd:
                g = int(sd[4].split("=")[1])
                if sc["opts"]["Threads"] == 1 or sc["opts"]["MaxNPS"] > 0: maxgap = max(maxgap, g)
                else: maxgap_mt = max(maxgap_mt, g)
            used = max(used, sc.pop("_used", 0.0))
            modes[sc["mode"]] = modes.get(sc["mode"], 0) + 1
            known = [m for m in msgs if isinstance(m, tuple)]
            msgs = [m for m in msgs if not isinstance(m, tuple)]
            for fid, m in known[:1]:
                ctx.violation(f"scenario {sc['id']} ({label}): {m}", {"kind": "engine", "finding_id": fid, "scenario": sc, "messages": [m],
                                                                     "input": scenario_lines(sc), "env": {"TEXEL_VERIF_CLOCK": f"{sc['tau']},trace"}})
            for m in msgs[:1]:
                ctx.violation(f"scenario {sc['id']} ({label}): {m}", {"kind": "engine", "scenario": sc, "messages": msgs,
                                                                     "input": scenario_lines(sc), "env": {"TEXEL_VERIF_CLOCK": f"{sc['tau']},trace"}})
            for q in model_queries(sc, seg):
                queries.append((sc, q))
            if nsearch <= 2:
                ctx.sample({"scenario": sc, "reports": [" ".join(a[1:]) for a in seg if a[2] != "poll"][:12]})
    # model comparison of the reported allocations / limits
    if queries:
        rc, out, err = vlib.run_lines(vlib.driver_bin(), [q[0] for _, q in queries])
        if rc != 0 or len(out) != len(queries):
            ctx.violation("Lean driver died on the engine-trace queries", {"kind": "model-crash", "stderr": err[-500:]}, no_input=True)
        else:
            nb = 0
            for (sc, (line, rep, what)), mo in zip(queries, out):
                mo3 = " ".join(mo.split()[:len(rep.split())])
                if mo3 != rep:
                    nb += 1
                    if nb <= 3:
                        ctx.violation(f"scenario {sc['id']} ({label}): {what}: engine reported `{rep}`, model `{line}` gives `{mo}`",
                                      {"kind": "engine-correspondence", "scenario": sc, "query": line, "impl": rep, "model": mo,
                                       "theorem_scope": "Props/C06.lean start_limits_ok / ponderhit_limits_ok / limits_ok (model no longer corresponds)"}, no_input=True)
    ctx.tie("engine-" + label, kind="real UCI engine under the virtual clock; hook reports vs model and vs the deadline predicates",
            searches=nsearch, model_comparisons=len(queries), max_poll_gap_nodes_single_thread=maxgap,
            max_poll_gap_nodes_multi_thread=maxgap_mt, max_fraction_of_polling_interval_used=round(used, 3), modes=modes)
    return nsearch


def determinism(ctx, bdir):
    scs = [s for s in gen_scenarios(ctx, 40) if s["opts"]["Threads"] == 1 and s["tau"] in (100, 1000)][:6]
    if not scs:
        return
    tau = scs[0]["tau"]
    scs = [s for s in scs if s["tau"] == tau]
    a = run_batch(bdir, tau, scs, 10 ** 7, 300)
    b = run_batch(bdir, tau, scs, 10 ** 7, 300)
    ctx.count(2 * len(scs))
    if a != b:
        ctx.violation("two runs of the same single-thread scenarios under the virtual clock differ (the clock hook is not deterministic)",
                      {"kind": "determinism", "scenarios": scs}, no_input=True)
    ctx.tie("determinism", kind="same batch twice, identical report streams", searches=len(scs))


def run(ctx):
    quick = ctx.tier == "quick"
    bdir = vlib.cxx_build("plain", ("texel", "vharness", "mknet"))
    env = net_env(bdir)
    if ctx.replay:
        rp = ctx.replay["replay"]
        vlib.lake_build(["driver"])
        if rp.get("kind") in ("engine", "engine-correspondence", "determinism"):
            scs = [rp["scenario"]] if "scenario" in rp else rp["scenarios"]
            for sc in scs:
                rc, segs = run_batch(bdir, sc["tau"], [sc], 10 ** 8, 600)
                for a in (segs[0] if segs else []):
                    if a[2] != "poll": print(" ".join(a))
            n = engine_block(ctx, bdir, scs, "replay")
            ctx.distinct("replay"); ctx.distinct("replay2")
            return
        lines = rp.get("input", [])
        e = dict(env)
        if any(l.startswith("tm poll") for l in lines): e["TEXEL_VERIF_CLOCK"] = "10"
        out1, out2, mis = vlib.diff_lines(ctx, "replay", lines, env=e)
        for l, a, b in zip(lines, out1, out2):
            print(f"{l}\n   impl : {a}\n   model: {b}")
            m = alloc_predicate(l, a) or poll_predicate(l, a)
            if m:
                ctx.violation(m, rp)
        ctx.count(len(lines)); ctx.distinct("replay"); ctx.distinct("replay2")
        if mis is not None:
            ctx.violation("replay still disagrees", rp, no_input=True)
        return
    vlib.lean_obligations(ctx)
    ctx.cov["rule"] = ("(a) computeTimeLimit: boundary grid side x Ponder x BufferTime x mover clock (incl. 1, 2, buffer*10/9 +-1, buffer +-1, 10^7) x opponent clock x "
                       "increment x movestogo, plus log-uniform random tuples over the property's ranges, plus out-of-domain and malformed lines (differential only); "
                       "shouldStop: limits x elapsed around soft*hardFactor and hard x need x hardFactor x node limit x MaxNPS; "
                       "(b) engine scenarios: position (many / one legal move, searchmoves) x time control (movetime, clock+inc+movestogo, infinite) x "
                       "mode (go, stop at T, go ponder + ponderhit at T, go ponder + stop at T) x Ponder x BufferTime x MaxNPS x Threads 1..4 x virtual us/node; "
                       "distinct = distinct operation lines / scenarios")
    ctx.assumptions += ["floating point: (int)(m * clamp(moves*0.5, 2.0, maxTimeUsage*0.01)) >= m for m >= 1 (FP.ScaleOk; proved for the exact rational instance, "
                        "differentially tested for IEEE doubles) and (S64)(minT*hardFactor) >= 0 (checked on every recorded poll)",
                        "the three relaxed stores of Search::timeLimit are modelled as one atomic step",
                        "virtual clock: time advances only by searched nodes of the main search thread and by the engine's own sleeps; "
                        "real wall-clock behaviour (OS scheduling, on-demand tablebase generation) is not claimed",
                        "polling interval = longest stretch between two evaluations of Search::shouldStop measured by the hook in that search "
                        f"(nominally nodesBetweenTimeCheck nodes; sanity cap nominal + {QCAP} nodes)",
                        "the harness reads private members of EngineControl / Search via #define private public"]
    for rnd in range(1 if quick else 10):
        lines = gen_alloc(ctx, 600000 if quick else 1000000)
        ctx.log(f"alloc grid: {len(lines)} lines")
        run_block(ctx, "alloc-grid", lines, alloc_predicate, env)
        lines = gen_poll(ctx, 100000 if quick else 300000)
        run_block(ctx, "stop-rule-grid", lines, poll_predicate, dict(env, TEXEL_VERIF_CLOCK="10"))
        if ctx.violations:
            break
    if not quick and not ctx.violations:
        # the same grids on the ASan+UBSan build: no signed overflow / invalid conversion inside the property's ranges
        ctx.log("grids on the asan/ubsan build")
        run_block(ctx, "alloc-grid-asan", gen_alloc(ctx, 300000), alloc_predicate, env, "asan")
        run_block(ctx, "stop-rule-grid-asan", gen_poll(ctx, 100000), poll_predicate, dict(env, TEXEL_VERIF_CLOCK="10"), "asan")
    ctx.log("engine scenarios")
    scs = gen_scenarios(ctx, 1000 if quick else 20000)
    engine_block(ctx, bdir, scs, "grid")
    determinism(ctx, bdir)
    if not quick:
        vlib.leanchecker(ctx, ["TexelVerif.Props.C06"])
