"""C18 — the opening book never yields an illegal move.
Lean: Props/C18.lean (probe_safe for arbitrary bytes, only_own_key, bsearch_complete, positive_weight_reachable,
pg_codec, record_codec, termination and read-range of the binary search, 64-bit weight-sum bound, witnesses of the
pre-repair defects).
Tie: the real Book / PolyglotBook classes (harness word `pgbook`) against the compiled Lean model on generated
polyglot files: valid sorted books built from random legal moves of random positions, duplicate keys, castling
encodings, zero weights, collisions; their truncations at every record boundary +-1 byte, byte corruptions,
unsorted files, empty / missing file, huge equal-key runs, sparse files beyond 2 GiB; the table of 781 hash
constants is re-extracted from the C++ source and compared with the Lean file.  The property's own predicates
are evaluated on the implementation's outputs with an independent Python reading of the polyglot format:
returned move legal (harness MoveGen AND the Lean specification's genLegal), candidates carry the probe key,
all records with the key on a sorted book, exact weighted selection for the observed 64-bit draw, reachability of
every positive-weight move over many seeds.  `python3 tools/checks/c18.py regen` regenerates Book/PGRandoms.lean."""
import os, re, shutil, subprocess, sys, json, tempfile
from concurrent.futures import ThreadPoolExecutor

if __name__ == "__main__":
    sys.path.insert(0, os.path.dirname(os.path.dirname(os.path.abspath(__file__))))
import vlib
import chessgen

START = chessgen.START
RANDOMS_LEAN = os.path.join(vlib.LEAN, "TexelVerif", "Book", "PGRandoms.lean")
NSEEDS = 48


# ---------------------------------------------------------------------------------------------
# the table of hash constants: regenerated from the C++ source
# ---------------------------------------------------------------------------------------------

def randoms_from_source():
    src = open(os.path.join(vlib.REPO, "lib/texellib/book/polyglot.cpp")).read()
    body = src[src.index("PolyglotBook::hashRandoms[] = {"):]
    body = body[:body.index("};")]
    return [int(v, 16) for v in re.findall(r"0x([0-9A-Fa-f]{1,16})ULL", body)]


def randoms_lean_text(vals):
    out = ["/-! GENERATED from lib/texellib/book/polyglot.cpp (`PolyglotBook::hashRandoms`, 781 constants) by",
           "    `python3 tools/checks/c18.py regen`; the C18 check re-extracts the table from the source on every run and",
           "    fails if this file differs, and additionally compares every entry with the running binary (`pgbook rand i`). -/",
           "namespace Book", "", "def hashRandoms : Array UInt64 := #["]
    for i in range(0, len(vals), 4):
        out.append("  " + ", ".join("0x%016X" % v for v in vals[i:i + 4]) + ("," if i + 4 < len(vals) else ""))
    out += ["]", "", "end Book", ""]
    return "\n".join(out)


# ---------------------------------------------------------------------------------------------
# independent reading of the polyglot format (http://hgm.nubati.net/book_format.html)
# ---------------------------------------------------------------------------------------------

PROMO_CODE = {"n": 5, "b": 4, "r": 3, "q": 2}


def fen_board(fen):
    rows = fen.split()[0].split("/")
    b = {}
    for ri, row in enumerate(rows):
        y, x = 7 - ri, 0
        for c in row:
            if c.isdigit(): x += int(c)
            else:
                b[y * 8 + x] = c; x += 1
    return b


def sqn(s):
    return (ord(s[0]) - 97) + 8 * (ord(s[1]) - 49)


def enc_move(fen, uci):
    """polyglot 16-bit move for a UCI move in the position: castling is king-takes-own-rook"""
    b = fen_board(fen)
    f, t = sqn(uci[0:2]), sqn(uci[2:4])
    if f == 4 and b.get(4) == "K":
        t = {6: 7, 2: 0}.get(t, t)
    if f == 60 and b.get(60) == "k":
        t = {62: 63, 58: 56}.get(t, t)
    pr = {"n": 1, "b": 2, "r": 3, "q": 4}[uci[4]] if len(uci) > 4 else 0
    return (t % 8) | ((t // 8) << 3) | ((f % 8) << 6) | ((f // 8) << 9) | (pr << 12)


def dec_move(fen, mv):
    """(from, to, promotion piece code) a reader of the format gets in this position"""
    b = fen_board(fen)
    wtm = fen.split()[1] == "w"
    t = (mv & 7) + 8 * ((mv >> 3) & 7)
    f = ((mv >> 6) & 7) + 8 * ((mv >> 9) & 7)
    pr = (mv >> 12) & 7
    promo = {1: 5, 2: 4, 3: 3, 4: 2}.get(pr, 0)
    if promo and not wtm: promo += 6
    if f == 4 and b.get(4) == "K": t = {7: 6, 0: 2}.get(t, t)
    if f == 60 and b.get(60) == "k": t = {63: 62, 56: 58}.get(t, t)
    return (f, t, promo)


PG_PIECE = {"p": 0, "P": 1, "n": 2, "N": 3, "b": 4, "B": 5, "r": 6, "R": 7, "q": 8, "Q": 9, "k": 10, "K": 11}


def pg_key(fen, randoms):
    """polyglot key of a FEN whose castling and en-passant fields are already normalised the way the engine keeps them
    (castling right only with king and rook at home; en-passant square only when a capture is possible)"""
    parts = fen.split()
    k = 0
    for sq, c in fen_board(fen).items():
        k ^= randoms[64 * PG_PIECE[c] + sq]
    for ch, i in (("K", 0), ("Q", 1), ("k", 2), ("q", 3)):
        if ch in parts[2]: k ^= randoms[768 + i]
    if parts[3] != "-": k ^= randoms[772 + ord(parts[3][0]) - 97]
    if parts[1] == "w": k ^= randoms[780]
    return k


def triple_of_uci(fen, uci):
    wtm = fen.split()[1] == "w"
    pr = PROMO_CODE[uci[4]] + (0 if wtm else 6) if len(uci) > 4 else 0
    return (sqn(uci[0:2]), sqn(uci[2:4]), pr)


def triple_str(t):
    return f"{t[0]}.{t[1]}.{t[2]}"


def record(key, mv, w, learn=0):
    return key.to_bytes(8, "big") + mv.to_bytes(2, "big") + w.to_bytes(2, "big") + learn.to_bytes(4, "big")


def records_of(data):
    n = len(data) // 16
    return [(int.from_bytes(data[16 * i:16 * i + 8], "big"), int.from_bytes(data[16 * i + 8:16 * i + 10], "big"),
             int.from_bytes(data[16 * i + 10:16 * i + 12], "big")) for i in range(n)]


def is_sorted(recs):
    return all(recs[i][0] <= recs[i + 1][0] for i in range(len(recs) - 1))


# ---------------------------------------------------------------------------------------------
# positions
# ---------------------------------------------------------------------------------------------

class PosInfo:
    __slots__ = ("fen", "key", "legal", "incheck", "idx")

    def __init__(self, fen, key, legal, incheck=False):
        self.fen, self.key, self.legal, self.incheck, self.idx = fen, key, legal, incheck, -1


def position_pool(ctx, quick, randoms):
    """FENs with their polyglot key (implementation and model must agree) and their legal moves
    (MoveGen and the Lean specification must agree)."""
    r = ctx.rng
    fens = [START] + chessgen.SEED_FENS
    fens += chessgen.games(ctx, 25 if quick else 400, 60)
    normalised = set(fens[len(chessgen.SEED_FENS) + 1:]) | {START}     # written by TextIO::toFEN after fixupEPSquare
    fens += chessgen.synthetic(r, 250 if quick else 4000)
    fens += [chessgen.motif_castle(r) for _ in range(120 if quick else 1500)]
    fens += [chessgen.motif_promo(r) for _ in range(40 if quick else 500)]
    # six or more queens of one colour overflow MatId (known defect of property C02, material.hpp) and would abort
    # the sanitizer build inside readFEN before the book is ever looked at
    fens = list(dict.fromkeys(fens))      # (positions with >= 6 queens were excluded until C02's MatId overflow was repaired)
    lines = []
    for f in fens:
        lines += [f"chess legal {f}", f"pgbook key {f}"]
    out1, out2, mis = vlib.diff_lines(ctx, "keys-and-legal-lists", lines, "plain")
    ctx.count(len(lines))
    if mis is not None and len(out1) == len(lines) and len(out2) == len(lines):
        what = "legal move list" if lines[mis].startswith("chess") else "polyglot hash key"
        ctx.violation(f"model and implementation disagree on the {what}: `{lines[mis]}` impl `{out1[mis]}` model `{out2[mis]}`",
                      {"kind": "correspondence", "tie": "keys-and-legal-lists", "theorem_scope": "Book.getHashKey / Chess.genLegal no longer correspond to the code",
                       "input": [lines[mis]], "impl": out1[mis], "model": out2[mis]}, no_input=True)
    pool = []
    if len(out1) != len(lines) or len(out2) != len(lines):
        return pool
    for i, f in enumerate(fens):
        lg, ky = out2[2 * i], out1[2 * i + 1]
        if ky.startswith("0x") and (f in normalised or (f.split()[3] == "-" and f.split()[2] == "-")) and len(randoms) == 781:
            ctx.count()
            if pg_key(f, randoms) != int(ky, 16):
                ctx.violation(f"PolyglotBook::getHashKey({f}) = {ky}, the polyglot format gives {hex(pg_key(f, randoms))}",
                              {"kind": "property-predicate", "tie": "keys-and-legal-lists", "input": [f"pgbook key {f}"], "impl_output": ky})
                return []
        if lg.startswith("err") or lg == "bad-op" or not ky.startswith("0x") or out1[2 * i] != lg or out2[2 * i + 1] != ky:
            continue
        moves = lg.split()[1:]
        if moves:
            pool.append(PosInfo(f, int(ky, 16), moves, lg.split()[0] == "1")); pool[-1].idx = len(pool) - 1
            ctx.distinct(("pos", f))
    return pool


# ---------------------------------------------------------------------------------------------
# book generators.  A session = one book file + its probes.
# ---------------------------------------------------------------------------------------------

class Session:
    def __init__(self, family, data=None, special=None):
        self.family, self.data, self.special = family, data, special   # special: "nofile" | ("run", n, key, mv, w)
        self.probes = []      # (PosInfo, seed)
        self.entries = []     # PosInfo for `entries` lines
        self.wellformed = False

    def lines(self):
        if self.special == "nofile": ls = ["pgbook nofile"]
        elif self.special: ls = ["pgbook run %d 0x%x 0x%x 0x%x" % self.special[1:]]
        else: ls = ["pgbook file " + (self.data.hex() if self.data else "-")]
        ls += [f"pgbook entries {p.fen}" for p in self.entries]
        ls += [f"pgbook probe {s} {p.fen}" for (p, s) in self.probes]
        return ls

    def bytes_(self):
        if self.special == "nofile": return b""
        if self.special: return record(self.special[2], self.special[3], self.special[4]) * self.special[1]
        return self.data or b""


def weights(r, n, style):
    if style == "zero": return [0] * n
    if style == "mixed": return [r.choice([0, 0, 1, 2, 100, 65535, r.randrange(65536)]) for _ in range(n)]
    if style == "max": return [65535] * n
    return [r.randrange(1, 2000) for _ in range(n)]


def build_book(ctx, pool, castlers, promoters):
    """a sorted book over a few positions; returns (bytes, positions in the book)"""
    r = ctx.rng
    npos = r.choice([1, 1, 2, 3, 4, 6, 8])
    chosen = []
    for _ in range(npos):
        x = r.random()
        checked = [p for p in pool if p.incheck]
        src = castlers if (x < 0.3 and castlers) else promoters if (x < 0.4 and promoters) else checked if (x < 0.55 and checked) else pool
        chosen.append(r.choice(src))
    chosen = list({p.key: p for p in chosen}.values())
    recs = []
    for p in chosen:
        k = min(len(p.legal), r.choice([1, 1, 2, 3, 4, 5, 8]))
        mvs = r.sample(p.legal, k)
        # prefer the interesting encodings when available
        for special in ("e1g1", "e1c1", "e8g8", "e8c8"):
            if special in p.legal and r.random() < 0.7 and special not in mvs: mvs.append(special)
        if r.random() < 0.15: mvs.append(r.choice(mvs))            # the same move twice
        ws = weights(r, len(mvs), r.choice(["pos", "pos", "mixed", "mixed", "zero", "max"]))
        for m, w in zip(mvs, ws):
            mv = enc_move(p.fen, m)
            if r.random() < 0.1: mv |= 0x8000                        # bit 15 is ignored by readers
            if r.random() < 0.08 and m in ("e1g1", "e1c1", "e8g8", "e8c8"):
                mv = (mv & ~7) | (sqn(m[2:4]) % 8)                   # non-standard literal king destination
            recs.append((p.key, mv, w, r.getrandbits(32) if r.random() < 0.3 else 0))
        if r.random() < (0.5 if p.incheck else 0.12):               # a hash collision: a move that is not legal here
            bad = r.getrandbits(15)
            # ... preferably one that obeys the movement rules: a legal move of a neighbouring position of the same game with the
            # same side to move (in a position with the king in check most of those ignore the check)
            nb = [pool[j] for j in (p.idx - 2, p.idx + 2, p.idx - 4, p.idx + 4) if 0 <= j < len(pool) and pool[j].fen.split()[1] == p.fen.split()[1]]
            cand = [m for q in nb for m in q.legal if m not in p.legal]
            if cand and r.random() < 0.8: bad = enc_move(p.fen, r.choice(cand))
            recs.append((p.key, bad, r.randrange(1, 100), 0))
    for _ in range(r.choice([0, 0, 2, 5, 20])):                     # unrelated records around them
        recs.append((r.getrandbits(64), r.getrandbits(16), r.getrandbits(16), 0))
    if r.random() < 0.2:
        recs += [(0, r.getrandbits(16), 1, 0), ((1 << 64) - 1, r.getrandbits(16), 1, 0)]
    order = list(range(len(recs)))
    order.sort(key=lambda i: recs[i][0])                            # stable: equal keys keep their order
    data = b"".join(record(*recs[i]) for i in order)
    return data, chosen


def add_probes(ctx, s, inbook, pool, nprobe, seeds):
    r = ctx.rng
    outside = [r.choice(pool) for _ in range(2)]
    targets = list(inbook) + outside
    s.entries = list(targets)
    while len(s.probes) < nprobe:
        p = r.choice(inbook) if (inbook and r.random() < 0.8) else r.choice(targets)
        s.probes.append((p, r.choice(seeds)))


def gen_sessions(ctx, pool, nbooks, nprobe, seeds):
    """valid books and the malformed families derived from them"""
    r = ctx.rng
    castlers = [p for p in pool if any(m in p.legal for m in ("e1g1", "e1c1", "e8g8", "e8c8"))]
    promoters = [p for p in pool if any(len(m) == 5 for m in p.legal)]
    ctx.notes.append(f"position pool {len(pool)} (castling available in {len(castlers)}, promotions in {len(promoters)})")
    sessions = []
    for _ in range(nbooks):
        data, inbook = build_book(ctx, pool, castlers, promoters)
        s = Session("valid-sorted", data); s.wellformed = True
        add_probes(ctx, s, inbook, pool, nprobe, seeds)
        sessions.append(s)
        n = len(data) // 16
        x = r.random()
        if x < 0.04 and n <= 24:
            # truncation at every record boundary, one byte before and one byte after
            for k in range(n + 1):
                for d in (-1, 0, 1):
                    ln = 16 * k + d
                    if 0 <= ln <= len(data) and ln != len(data):
                        t = Session("truncated", data[:ln]); t.wellformed = True
                        add_probes(ctx, t, inbook, pool, max(4, nprobe // 6), seeds)
                        sessions.append(t)
            t = Session("truncated", data + bytes(r.getrandbits(8) for _ in range(r.randrange(1, 16)))); t.wellformed = True
            add_probes(ctx, t, inbook, pool, max(4, nprobe // 6), seeds)
            sessions.append(t)
        elif x < 0.24 and n:
            for _ in range(3):
                bs = bytearray(data)
                for _ in range(r.choice([1, 1, 2, 5])):
                    i = r.randrange(len(bs))
                    if r.random() < 0.5: i = 16 * (i // 16) + r.choice([0, 7, 8, 9, 10, 11])   # key / move / weight bytes
                    bs[i] = r.choice([0, 0xff, bs[i] ^ (1 << r.randrange(8)), r.getrandbits(8)])
                t = Session("corrupted", bytes(bs))
                add_probes(ctx, t, inbook, pool, max(6, nprobe // 4), seeds)
                sessions.append(t)
        elif x < 0.40 and n > 1:
            recs = [data[16 * i:16 * i + 16] for i in range(n)]
            how = r.choice(["shuffle", "reverse", "swap", "rotate"])
            if how == "shuffle": r.shuffle(recs)
            elif how == "reverse": recs.reverse()
            elif how == "swap":
                i, j = r.randrange(n), r.randrange(n); recs[i], recs[j] = recs[j], recs[i]
            else:
                k = r.randrange(n); recs = recs[k:] + recs[:k]
            t = Session("unsorted", b"".join(recs))
            add_probes(ctx, t, inbook, pool, max(6, nprobe // 3), seeds)
            sessions.append(t)
        elif x < 0.45:
            t = Session("random-bytes", bytes(r.getrandbits(8) for _ in range(r.choice([1, 15, 16, 17, 160, 1000]))))
            add_probes(ctx, t, inbook, pool, 6, seeds)
            sessions.append(t)
        elif x < 0.48:
            t = Session("empty", b""); t.wellformed = True
            add_probes(ctx, t, inbook, pool, 4, seeds); sessions.append(t)
            t = Session("missing", special="nofile"); t.wellformed = True
            add_probes(ctx, t, inbook, pool, 4, seeds); sessions.append(t)
    return sessions


def gen_reach_sessions(ctx, pool, n, seeds_many):
    """well-formed one-position books with comparable positive weights, probed with many seeds:
    every positive-weight move must come back at least once"""
    r = ctx.rng
    out = []
    cands = [p for p in pool if len(p.legal) >= 2]
    for _ in range(n):
        p = r.choice(cands)
        mvs = r.sample(p.legal, min(len(p.legal), r.choice([2, 3, 4])))
        ws = [r.randrange(5, 21) for _ in mvs] + [0]
        zero = r.choice(p.legal)
        recs = [(p.key, enc_move(p.fen, m), w, 0) for m, w in zip(mvs + [zero], ws)]
        recs += [(r.getrandbits(64), r.getrandbits(16), r.getrandbits(16), 0) for _ in range(r.choice([0, 3, 9]))]
        recs.sort(key=lambda x: x[0])
        s = Session("reach", b"".join(record(*x) for x in recs)); s.wellformed = True
        s.entries = [p]
        s.probes = [(p, sd) for sd in seeds_many]
        out.append(s)
    return out


def gen_huge_sessions(ctx, pool, quick):
    """huge equal-key runs: the weight sum passes 2^30 (Random::nextInt's limit), 2^31 (int) and 2^32"""
    r = ctx.rng
    out = []
    p0 = next(p for p in pool if p.fen == START)
    others = [r.choice(pool) for _ in range(2)]
    for (n, w) in ([(16385, 65535), (40000, 65535), (65538, 65535), (20000, 0), (16385, 65534)] if quick else
                   [(16384, 65535), (16385, 65535), (32768, 65535), (32769, 65535), (40000, 65535), (65537, 65535), (65538, 65535),
                    (131073, 65535), (20000, 0), (70000, 1), (16385, 65534)]):
        for p in [p0] + ([] if quick else others[:1]):
            m = r.choice(p.legal)
            s = Session("huge-run", special=("run", n, p.key, enc_move(p.fen, m), w)); s.wellformed = True
            s.entries = []          # the entries line would be megabytes long
            s.probes = [(p, sd) for sd in (1, 2, 3)] + [(others[1], 1)]
            out.append(s)
    # an illegal move far inside a long run must still block the probe
    return out


# ---------------------------------------------------------------------------------------------
# running and judging
# ---------------------------------------------------------------------------------------------

_built = {}
STATS = {}     # (variant, family) -> [probes, probes that returned a move]


def built(variant):
    """build a variant once per run (never from worker threads: a relink would race with a running harness)"""
    if variant not in _built:
        _built[variant] = vlib.cxx_build(variant, ("vharness",))
    return _built[variant]


def run_impl(lines, variant="plain", timeout=300, env=None):
    """implementation only, with a time limit: returns (status, outputs, stderr) with status ok|crash|hang"""
    bdir = built(variant)
    e = dict(os.environ)
    e.setdefault("UBSAN_OPTIONS", "print_stacktrace=1")
    if env: e.update(env)
    # the harness keeps the book in $TMPDIR/pgbook_<pid>.bin; a private directory so that nothing is left behind
    # when the process is killed (time-out) or aborted (sanitizer)
    tmpd = tempfile.mkdtemp(prefix="c18_")
    e["TMPDIR"] = tmpd
    try:
        p = subprocess.run([os.path.join(bdir, "vharness")], input="\n".join(lines) + "\n", stdout=subprocess.PIPE,
                           stderr=subprocess.PIPE, text=True, errors="replace", env=e, timeout=timeout)
    except subprocess.TimeoutExpired as ex:
        out = (ex.stdout or b"")
        out = out.decode(errors="replace") if isinstance(out, bytes) else out
        return "hang", out.split("\n")[:-1], f"no answer within {timeout}s"
    finally:
        shutil.rmtree(tmpd, ignore_errors=True)
    outs = p.stdout.split("\n")[:-1]
    if p.returncode != 0 or len(outs) != len(lines):
        return "crash", outs, p.stderr[-3000:]
    return "ok", outs, p.stderr[-500:]


def run_model(lines):
    rc, out, err = vlib.run_lines(vlib.driver_bin(), lines)
    return (rc == 0 and len(out) == len(lines)), out, err


def parse_entries(o):
    """'n f.t.p:w ...' -> list of ((f,t,p), w) or None"""
    try:
        parts = o.split()
        n = int(parts[0])
        res = []
        for x in parts[1:]:
            mv, w = x.split(":")
            f, t, p = (int(v) for v in mv.split("."))
            res.append(((f, t, p), int(w)))
        return res if len(res) == n else None
    except (ValueError, IndexError):
        return None


def parse_probe(o):
    """'none' -> None ; 'f.t.p legal=b' -> ((f,t,p), b) ; anything else -> 'garbage'"""
    if o == "none": return None
    m = re.fullmatch(r"(\d+)\.(\d+)\.(\d+) legal=([01])", o)
    if not m: return "garbage"
    return ((int(m.group(1)), int(m.group(2)), int(m.group(3))), m.group(4) == "1")


def judge_session(ctx, s, lines, out, u64, variant):
    """the property's predicates on the implementation's outputs for one session.  Returns list of (msg, line idx, kind):
    kind "property" = the statement of C18 fails on this input; kind "selection" = the weighted pick differs from the
    modelled one for the observed draw (a correspondence failure, not by itself a failure of the property)."""
    bad = []
    data = s.bytes_()
    recs = records_of(data)
    srt = is_sorted(recs)
    ne = len(s.entries)
    ent_of = {}
    for i, p in enumerate(s.entries):
        o = out[1 + i]
        es = parse_entries(o)
        if es is None:
            bad.append((f"unparsable entries answer {o!r}", 1 + i, "property")); continue
        ent_of[p.fen] = es
        mine = [(dec_move(p.fen, mv), w) for (k, mv, w) in recs if k == p.key]
        # only_own_key: a contiguous run of the file's records that carry the probe key
        ok_sub = any(es == [(dec_move(p.fen, mv), w) for (k, mv, w) in recs[a:a + len(es)]] and all(k == p.key for (k, _, _) in recs[a:a + len(es)])
                     for a in range(len(recs) - len(es) + 1)) if es else True
        if not ok_sub:
            bad.append((f"book entries returned for key {hex(p.key)} are not records of the file stored under that key: {o}", 1 + i, "property"))
        elif srt and es != mine:
            bad.append((f"sorted book: {len(mine)} records carry key {hex(p.key)} but the probe saw {len(es)} of them ({o})", 1 + i, "property"))
    for j, (p, seed) in enumerate(s.probes):
        idx = 1 + ne + j
        o = out[idx]
        pr = parse_probe(o)
        ctx.count()
        st_ = STATS.setdefault((variant, s.family), [0, 0])
        st_[0] += 1
        st_[1] += 0 if pr is None else 1
        if pr == "garbage":
            bad.append((f"unparsable probe answer {o!r}", idx, "property")); continue
        legal_triples = [triple_of_uci(p.fen, m) for m in p.legal]
        if pr is not None:
            mv, hl = pr
            if not hl or mv not in legal_triples:
                bad.append((f"book probe returned {triple_str(mv)} which is not a legal move (MoveGen says {'legal' if hl else 'illegal'}, "
                            f"Lean genLegal says {'legal' if mv in legal_triples else 'illegal'}) in {p.fen}", idx, "property"))
                continue
            if not any(k == p.key and dec_move(p.fen, m16) == mv for (k, m16, w) in recs):
                bad.append((f"book probe returned {triple_str(mv)} but no record of the file under key {hex(p.key)} decodes to it", idx, "property"))
                continue
        # exact selection for the observed draw, from the candidates the implementation itself reported
        es = ent_of.get(p.fen)
        if es is None and s.special and s.special != "nofile":
            es = [(dec_move(p.fen, s.special[3]), s.special[4])] * s.special[1] if s.special[2] == p.key else []
        if es is not None and seed in u64:
            exp = None
            if es and all(m in legal_triples for (m, w) in es):
                tot = sum(w for (_, w) in es)
                if tot > 0:
                    x, acc = u64[seed] % tot, 0
                    for (m, w) in es:
                        acc += w
                        if x < acc:
                            exp = m; break
            got = pr[0] if pr is not None else None
            if got != exp:
                bad.append((f"selection: candidates {es[:6]}{'...' if len(es) > 6 else ''} draw {hex(u64[seed])}: expected "
                            f"{triple_str(exp) if exp else 'none'}, probe returned {triple_str(got) if got else 'none'}", idx, "selection"))
    # "every stored move with positive weight is returned with positive probability": on a well-formed book whose records
    # under the key are all legal, (a) with many seeds every positive-weight move must show up, (b) never no move at all
    if s.wellformed and srt:
        by_pos = {}
        for j, (p, seed) in enumerate(s.probes):
            by_pos.setdefault(p.fen, (p, []))[1].append(parse_probe(out[1 + ne + j]))
        for fen, (p, prs) in by_pos.items():
            mine = [(dec_move(p.fen, mv), w) for (k, mv, w) in recs if k == p.key]
            legal_triples = [triple_of_uci(p.fen, m) for m in p.legal]
            if not mine or not all(m in legal_triples for (m, _) in mine): continue
            want = {m for (m, w) in mine if w > 0}
            seen = {pr[0] for pr in prs if pr not in (None, "garbage")}
            first = 1 + ne + next(j for j, (q, _) in enumerate(s.probes) if q.fen == fen)
            if want and not seen and len(prs) >= 3:
                bad.append((f"well-formed book with positive-weight legal moves {sorted(want)[:4]} under the position's key: no move in any of {len(prs)} probes", first, "property"))
            elif s.family == "reach" and not want <= seen:
                bad.append((f"positive-weight book moves never returned in {len(prs)} probes: {sorted(want - seen)}", first, "property"))
    return bad


def run_sessions(ctx, name, sessions, u64, variant="plain", model=True, nproc=4, timeout=900):
    """run the sessions (split over nproc processes), compare with the model, judge.  Returns #violations."""
    chunks = [sessions[i::nproc] for i in range(nproc)]
    chunks = [c for c in chunks if c]
    built(variant)

    def work(chunk):
        lines, spans = [], []
        for s in chunk:
            ls = s.lines(); spans.append((len(lines), len(lines) + len(ls))); lines += ls
        st, out1, err1 = run_impl(lines, variant, timeout)
        ok2, out2, err2 = run_model(lines) if model else (True, None, "")
        return chunk, lines, spans, st, out1, err1, ok2, out2, err2

    nviol = 0
    with ThreadPoolExecutor(max_workers=len(chunks) or 1) as ex:
        results = list(ex.map(work, chunks))
    for chunk, lines, spans, st, out1, err1, ok2, out2, err2 in results:
        ctx.tie(name, kind="differential (C++ harness vs compiled Lean model, same input lines) + property predicates" if model
                else "implementation only: property predicates", lines=len(lines), variant=variant, sessions=len(chunk))
        if st != "ok":
            k = min(len(out1), len(lines) - 1)
            sp = next(((a, b) for (a, b) in spans if a <= k < b), (max(0, k - 5), k + 1))
            ctx.violation(f"{name}: book probe {'did not return' if st == 'hang' else 'crashed the process'} ({variant} build) at `{lines[k][:120]}`: {err1.strip().splitlines()[0] if err1.strip() else ''}",
                          {"kind": "impl-" + st, "tie": name, "variant": variant, "stderr": err1, "input": [l if len(l) < 20000 else l for l in lines[sp[0]:k + 1]]})
            nviol += 1
            continue
        if model and not ok2:
            ctx.violation(f"{name}: Lean driver died", {"kind": "model-crash", "tie": name, "stderr": err2[-800:]}, no_input=True)
            nviol += 1
            continue
        for s, (a, b) in zip(chunk, spans):
            if nviol >= 8: break          # enough failing inputs; the rest would be repetitions
            for l in lines[a + 1:b]: ctx.distinct(l if len(l) < 200 else hash(l))
            ctx.distinct(("book", hash(s.bytes_()) if not s.special else s.special))
            bad = judge_session(ctx, s, lines[a:b], out1[a:b], u64, variant)
            bad.sort(key=lambda x: x[2] != "property")
            for msg, i, kind in bad[:2]:
                if kind == "property":
                    ctx.violation(f"{name}/{s.family}: {msg}", {"kind": "property-predicate", "tie": name, "family": s.family, "variant": variant,
                                                                  "input": [lines[a], lines[a + i]], "impl_output": out1[a + i]})
                else:
                    ctx.violation(f"{name}/{s.family}: {msg}", {"kind": "correspondence", "tie": name, "family": s.family, "variant": variant,
                                                                  "theorem_scope": "Book.selectMove (weighted pick `nextU64() % sum`) no longer corresponds to Book::getBookMove",
                                                                  "input": [lines[a], lines[a + i]], "impl": out1[a + i]}, no_input=True)
                nviol += 1
            if model and not bad:
                for i in range(a, b):
                    if out1[i] != out2[i]:
                        ctx.violation(f"{name}/{s.family}: model and implementation disagree on `{lines[i][:160]}`: impl `{out1[i][:200]}` model `{out2[i][:200]}`",
                                      {"kind": "correspondence", "tie": name, "family": s.family,
                                       "theorem_scope": "Props/C18.lean: Book.getBookEntries / Book.getBookMove no longer correspond to book.cpp",
                                       "input": [lines[a], lines[i]], "impl": out1[i], "model": out2[i]}, no_input=True)
                        nviol += 1
                        break
    return nviol


def all_moves_pass(ctx, sessions, variant, nproc):
    """`Book::getAllBookMoves` used the way computerPlayer.cpp uses it (only after getBookMove returned a move),
    on the same files; implementation only: must not crash, and must list the returned move"""
    built(variant)
    chunks = [c for c in (sessions[i::nproc] for i in range(nproc)) if c]

    def work(chunk):
        lines = []
        for s in chunk:
            lines.append(s.lines()[0])
            lines += [f"pgbook all {sd} {p.fen}" for (p, sd) in s.probes[:4]]
        return lines, run_impl(lines, variant, 1200)

    with ThreadPoolExecutor(max_workers=len(chunks) or 1) as ex:
        results = list(ex.map(work, chunks))
    for lines, (st, out, err) in results:
        ctx.tie("all-book-moves-" + variant, kind="implementation only: getBookMove then getAllBookMoves as in computerPlayer.cpp", lines=len(lines), variant=variant)
        ctx.count(len(lines))
        if st != "ok":
            k = min(len(out), len(lines) - 1)
            f = max(i for i in range(k + 1) if lines[i].startswith("pgbook file") or lines[i].startswith("pgbook nofile") or lines[i].startswith("pgbook run"))
            ctx.violation(f"getAllBookMoves after a successful probe {st} ({variant}) at `{lines[k][:120]}`",
                          {"kind": "impl-" + st, "variant": variant, "stderr": err, "input": [lines[f], lines[k]]})
            return
        for l, o in zip(lines, out):
            if l.startswith("pgbook all") and o != "none":
                mv, _, lst = o.partition(" | ")
                if mv not in [x.split("(")[0] for x in lst.split()]:
                    ctx.violation(f"getAllBookMoves does not list the move getBookMove returned: {o}", {"kind": "property-predicate", "variant": variant, "input": [l], "impl_output": o})
                    return


def kernel_lines(ctx, pool, quick):
    r = ctx.rng
    lines, meta = [], []
    for i in range(781):
        lines.append(f"pgbook rand {i}"); meta.append(("rand", i))
    lines.append("pgbook rand 781"); meta.append(None)
    for _ in range(400 if quick else 20000):
        k, m, w = r.getrandbits(64), r.getrandbits(16), r.getrandbits(16)
        if r.random() < 0.1: k = r.choice([0, (1 << 64) - 1, 1 << 63, 0xff, 0xff00])
        lines.append(f"pgbook ser {hex(k)} {m} {w}"); meta.append(("ser", k, m, w))
        bs = bytes(r.getrandbits(8) for _ in range(16))
        lines.append(f"pgbook deser {bs.hex()}"); meta.append(("deser", bs))
    for _ in range(600 if quick else 30000):
        p = r.choice(pool)
        x = r.random()
        mv = r.getrandbits(16) if x < 0.4 else enc_move(p.fen, r.choice(p.legal)) | (0x8000 if r.random() < 0.1 else 0)
        if x > 0.9: mv = r.choice([0x1c7, 0x1c0, 0xf3f, 0xf38, 0x1c6, 0x1c2])     # e1h1 e1a1 e8h8 e8a8 e1g1 e1c1
        lines.append(f"pgbook dec {mv} {p.fen}"); meta.append(("dec", p, mv))
        m = r.choice(p.legal)
        lines.append(f"pgbook enc {m} {p.fen}"); meta.append(("enc", p, m))
    return lines, meta


def judge_kernels(ctx, lines, meta, out, randoms):
    bad = []
    encs = {}
    for i, (m, o) in enumerate(zip(meta, out)):
        if m is None: continue
        if m[0] == "rand":
            if o != hex(randoms[m[1]]): bad.append((f"hashRandoms[{m[1]}] in the binary is {o}, the source text says {hex(randoms[m[1]])}", i))
        elif m[0] == "ser":
            if o != record(m[1], m[2], m[3]).hex(): bad.append((f"serialize({hex(m[1])},{m[2]},{m[3]}) = {o} is not the big-endian polyglot record", i))
        elif m[0] == "deser":
            k, mv, w = records_of(m[1])[0]
            if o != f"{hex(k)} {mv} {w}": bad.append((f"deSerialize({m[1].hex()}) = {o}, the format says {hex(k)} {mv} {w}", i))
        elif m[0] == "dec":
            f, t, p = dec_move(m[1].fen, m[2])
            if o != f"{f} {t} {p}": bad.append((f"getMove({m[2]:#x}) in {m[1].fen} = {o}, the format says {f} {t} {p}", i))
        elif m[0] == "enc":
            e = enc_move(m[1].fen, m[2])
            if o != str(e): bad.append((f"getPGMove({m[2]}) in {m[1].fen} = {o}, the format says {e}", i))
            else:
                # round trip through the implementation's own decoder happens on the next `dec` of this value in the stream;
                # here: the format-level round trip
                if dec_move(m[1].fen, e) != triple_of_uci(m[1].fen, m[2]):
                    bad.append((f"polyglot codec does not round-trip {m[2]} in {m[1].fen}", i))
    return bad


def builtin_book(ctx, pool, quick):
    """the built-in book (Book::bookLines; /repo/texelbook.bin is not used by this class and is empty here),
    probed on the Position objects along its own lines and on unrelated positions; implementation only."""
    r = ctx.rng
    st, out, err = run_impl(["pgbook line 0"], "plain", 120)
    if st != "ok" or not out[0].split()[0].isdigit():
        ctx.violation("built-in book: cannot list book lines", {"kind": "impl-" + st, "stderr": err, "input": ["pgbook line 0"]}); return
    nlines = int(out[0].split()[0])
    seeds = [r.getrandbits(32) for _ in range(1 if quick else 6)]
    lines = ["pgbook builtin"] + [f"pgbook walk {k} {sd}" for sd in seeds for k in range(nlines)]
    others = [r.choice(pool) for _ in range(200 if quick else 3000)]
    lines += [f"pgbook probe {r.getrandbits(32)} {p.fen}" for p in others]
    for variant in (["plain"] if quick else ["plain", "asan"]):
        st, out, err = run_impl(lines, variant, 1200)
        ctx.tie("builtin-book-" + variant, kind="implementation only: built-in book along its own lines; legality judged by MoveGen and by the Lean genLegal", lines=len(lines), variant=variant)
        if st != "ok":
            k = min(len(out), len(lines) - 1)
            ctx.violation(f"built-in book probe {st} at `{lines[k]}`", {"kind": "impl-" + st, "variant": variant, "stderr": err, "input": ["pgbook builtin", lines[k]]}); return
        # book content per position (EPD) from the lines themselves
        plies = []
        nxt = {}
        for li in range(1, 1 + len(seeds) * nlines):
            for part in out[li].split(" ; "):
                fen, lm, res = [x.strip() for x in part.split(" | ")]
                bad_, lmove = lm.split()
                epd = " ".join(fen.split()[:4])
                if bad_ == "0": nxt.setdefault(epd, set()).add(lmove)
                else: nxt.setdefault(epd, set())
                plies.append((li, fen, epd, res))
        fens = list(dict.fromkeys(f for (_, f, _, _) in plies))
        ok2, lg, err2 = run_model([f"chess legal {f}" for f in fens])
        if not ok2:
            ctx.violation("Lean driver died on the built-in book positions", {"kind": "model-crash", "stderr": err2[-500:]}, no_input=True); return
        legal = {f: set(o.split()[1:]) for f, o in zip(fens, lg)}
        nret = 0
        for (li, fen, epd, res) in plies:
            ctx.count()
            if res == "none":
                if nxt[epd]:
                    ctx.violation(f"built-in book: no move for {fen} although the book lines continue with {sorted(nxt[epd])}",
                                  {"kind": "property-predicate", "variant": variant, "input": ["pgbook builtin", lines[li]], "impl_output": res})
                    return
                continue
            mv, hl = res.split()
            nret += 1
            if hl != "legal=1" or mv not in legal[fen]:
                ctx.violation(f"built-in book returned {mv} which is not legal in {fen}", {"kind": "property-predicate", "variant": variant, "input": ["pgbook builtin", lines[li]], "impl_output": res}); return
            if mv not in nxt[epd]:
                ctx.violation(f"built-in book returned {mv} in {fen}, but its lines only continue with {sorted(nxt[epd])}",
                              {"kind": "property-predicate", "variant": variant, "input": ["pgbook builtin", lines[li]], "impl_output": res}); return
        base = 1 + len(seeds) * nlines
        for p, o in zip(others, out[base:]):
            ctx.count()
            pr = parse_probe(o)
            if pr == "garbage" or (pr is not None and (not pr[1] or pr[0] not in [triple_of_uci(p.fen, m) for m in p.legal])):
                ctx.violation(f"built-in book returned {o} for {p.fen}: not a legal move", {"kind": "property-predicate", "variant": variant, "input": ["pgbook builtin", f"pgbook probe 1 {p.fen}"], "impl_output": o}); return
        ctx.distinct(("builtin", variant, len(plies)))
        ctx.notes.append(f"built-in book ({variant}): {nlines} lines, {len(plies)} probes along them, {nret} returned a move, all legal and in the lines' continuation sets")


def big_files(ctx, pool, quick):
    """sparse files beyond the 32-bit limits of the old offset arithmetic (implementation only, sanitizer build)"""
    p = next(x for x in pool if x.fen == START)
    sizes = [2147483648 + 16, 4294967296 + 48] + ([] if quick else [17179869184 + 16 * 7, 25769803776, 34359738384])
    for sz in sizes:
        lines = [f"pgbook sparse {sz}", f"pgbook probe 1 {p.fen}", f"pgbook entries {p.fen}"]
        st, out, err = run_impl(lines, "asan", 300)
        ctx.count(2)
        ctx.tie("sparse-files", kind="implementation only (ASan+UBSan build): zero-filled sparse book files of 2 GiB and more", lines=3, variant="asan")
        if st == "ok" and out[0] == "io-error":
            ctx.notes.append(f"sparse file of {sz} bytes could not be created here; skipped"); continue
        if st != "ok":
            first = err.strip().splitlines()[0] if err.strip() else ""
            ctx.violation(f"book file of {sz} bytes: probe {st} in the sanitizer build: {first}",
                          {"kind": "impl-" + st, "variant": "asan", "stderr": err, "input": lines[:len(out) + 1]})
        elif out[1] != "none" or out[2] != "0":
            ctx.violation(f"book file of {sz} zero bytes: probe answered {out[1]!r} / {out[2]!r}", {"kind": "property-predicate", "variant": "asan", "input": lines, "impl_output": out[1]})
        ctx.distinct(("sparse", sz))
    lines = ["pgbook dir", f"pgbook probe 1 {p.fen}"]
    st, out, err = run_impl(lines, "asan", 120)
    ctx.count()
    if st != "ok" or out[1] != "none":
        ctx.violation(f"BookFile naming a directory: probe {st} / {out[1:] }", {"kind": "impl-" + st, "variant": "asan", "stderr": err, "input": lines})


def replay(ctx):
    rp = ctx.replay["replay"]
    lines = rp.get("input", [])
    variant = rp.get("variant", "plain")
    vlib.lake_build(["driver"])
    st, out1, err1 = run_impl(lines, variant, 300)
    ok2, out2, _ = run_model(lines)
    for i, l in enumerate(lines):
        print(f"{l[:300]}\n   impl : {out1[i] if i < len(out1) else '<' + st + '>'}\n   model: {out2[i][:300] if ok2 and i < len(out2) else '-'}")
    if err1.strip() and st != "ok": print(err1)
    ctx.count(len(lines)); ctx.distinct("replay"); ctx.distinct("replay2")
    if st != "ok":
        ctx.violation(f"replay: implementation {st}", rp); return
    for i, o in enumerate(out1):
        pr = parse_probe(o) if lines[i].startswith("pgbook probe") else None
        if pr == "garbage" or (pr and not pr[1]):
            ctx.violation("replay: illegal book move returned", rp); return
    if rp.get("kind") in ("property-predicate",) and rp.get("impl_output") is not None and out1 and out1[-1] == rp["impl_output"]:
        ctx.violation("replay: the implementation still gives the reported answer", rp); return
    if ok2 and any(a != b for a, b in zip(out1, out2)):
        ctx.violation("replay still disagrees with the model", rp, no_input=rp.get("kind") == "correspondence")


def run(ctx):
    quick = ctx.tier == "quick"
    if ctx.replay:
        return replay(ctx)
    vlib.lean_obligations(ctx)
    ctx.cov["rule"] = ("books: sorted polyglot files built from random legal moves (castling as king-takes-rook and literal, promotions, bit 15 set, "
                       "duplicate moves, zero / maximal / mixed weights, colliding illegal records, unrelated records incl. keys 0 and 2^64-1) of positions from "
                       "random games and synthetic motif placements; derived: truncation at every record boundary -1/0/+1 byte and trailing garbage, byte corruptions "
                       "(key/move/weight bytes), shuffled/reversed/swapped/rotated records, random bytes, empty and missing file, equal-key runs of 16 385 .. 131 073 records, "
                       "sparse files of 2 GiB .. 32 GiB, a directory; probes: positions in and not in the book x seeds of the book's random generator; built-in book "
                       "along all of its lines; distinct = distinct probe lines + distinct books")
    ctx.assumptions += ["legality oracle: Chess.genLegal of the shared specification (its agreement with MoveGen is property C01; compared again here for every pool position)",
                        "polyglot key: defined by the 781-constant table re-extracted from polyglot.cpp on every run; tied by differential only",
                        "the file does not change while it is probed (then every read is inside the file and the zero-fill branch is dead: theorem reads_in_range)",
                        "Random (xoshiro-style) is modelled only for the tie; the theorems quantify over every 64-bit draw",
                        "the harness reads private members of Book / PolyglotBook via #define private public",
                        "built-in book = Book::bookLines compiled into texellib (texelbook.bin is not read by this class and is empty in this sandbox); "
                        "its selection step is the same code as for polyglot files (theorem select_safe), its table lookup is checked on the implementation only"]
    # 1. the constants
    randoms = randoms_from_source()
    cur = open(RANDOMS_LEAN).read() if os.path.exists(RANDOMS_LEAN) else ""
    ctx.tie("hash-constants", kind="regeneration: Book/PGRandoms.lean == table extracted from polyglot.cpp", constants=len(randoms))
    ctx.count()
    if len(randoms) != 781 or cur != randoms_lean_text(randoms):
        ctx.violation("Book/PGRandoms.lean is not the table PolyglotBook::hashRandoms of the source (run `python3 tools/checks/c18.py regen`)",
                      {"kind": "correspondence", "tie": "hash-constants", "theorem_scope": "Book.getHashKey", "constants_in_source": len(randoms)}, no_input=True)
    vlib.cxx_build("plain", ("vharness",))
    # 2. positions, keys, legal lists
    pool = position_pool(ctx, quick, randoms)
    if len(pool) < 50:
        ctx.violation("position pool could not be built", {"kind": "generator"}, no_input=True); return
    # 3. codecs
    lines, meta = kernel_lines(ctx, pool, quick)
    out1, out2, mis = vlib.diff_lines(ctx, "codecs", lines, "plain")
    ctx.count(len(lines))
    for l, o in list(zip(lines, out1))[781:784]: ctx.sample({"op": l, "impl": o})
    if len(out1) == len(lines):
        bad = judge_kernels(ctx, lines, meta, out1, randoms)
        for msg, i in bad[:3]:
            ctx.violation("codecs: " + msg, {"kind": "property-predicate", "tie": "codecs", "input": [lines[i]], "impl_output": out1[i]})
        if mis is not None and not bad and len(out2) == len(lines):
            ctx.violation(f"codecs: model and implementation disagree on `{lines[mis]}`: impl `{out1[mis]}` model `{out2[mis]}`",
                          {"kind": "correspondence", "tie": "codecs", "theorem_scope": "Props/C18.lean pg_codec / record_codec (Book.getMove, getPGMove, serialize, deSerialize)",
                           "input": [lines[mis]], "impl": out1[mis], "model": out2[mis]}, no_input=True)
    # 4. the random generator's draws for the seeds used below
    seeds = sorted({ctx.rng.getrandbits(32) for _ in range(NSEEDS)} | {1, 2, 3})
    seeds_many = sorted({ctx.rng.getrandbits(40) for _ in range(240)})
    sl = [f"pgbook u64 {s}" for s in seeds + seeds_many]
    o1, o2, mis = vlib.diff_lines(ctx, "random-draws", sl, "plain")
    ctx.count(len(sl))
    if mis is not None and len(o1) == len(sl) and len(o2) == len(sl):
        ctx.violation(f"Random model and implementation disagree on `{sl[mis]}`", {"kind": "correspondence", "tie": "random-draws", "theorem_scope": "Book/Random.lean (tie only)", "input": [sl[mis]]}, no_input=True)
    u64 = {s: int(o, 16) for s, o in zip(seeds + seeds_many, o1)} if len(o1) == len(sl) else {}
    # 5. books
    nbooks = 500 if quick else 50000
    sessions = gen_sessions(ctx, pool, nbooks, 50 if quick else 50, seeds)
    fam = {}
    for s in sessions: fam[s.family] = fam.get(s.family, 0) + 1
    ctx.notes.append(f"book files: {len(sessions)} {fam}")
    ctx.sample({"book": sessions[0].lines()[0][:120] + "...", "probe": sessions[0].lines()[-1]})
    nv = run_sessions(ctx, "books", sessions, u64, "plain", model=True, nproc=4 if quick else 8, timeout=3000)
    reach = gen_reach_sessions(ctx, pool, 12 if quick else 300, seeds_many)
    nv += run_sessions(ctx, "reachability", reach, u64, "plain", model=True, nproc=2 if quick else 8)
    huge = gen_huge_sessions(ctx, pool, quick)
    nv += run_sessions(ctx, "huge-equal-key-runs", huge, u64, "plain", model=True, nproc=len(huge), timeout=60 if quick else 600)
    # 6. sanitizer build on the malformed families (and a sample of the rest)
    if nv == 0:
        mal = [s for s in sessions if s.family not in ("valid-sorted",)]
        mal = mal if not quick else mal[:150]
        mal += [s for s in sessions if s.family == "valid-sorted"][:(30 if quick else 2000)]
        run_sessions(ctx, "books-asan", mal, u64, "asan", model=False, nproc=4 if quick else 8, timeout=3000)
        all_moves_pass(ctx, mal, "asan", 4 if quick else 8)
    run_sessions(ctx, "huge-equal-key-runs-asan", huge if not quick else huge[:3], u64, "asan", model=False, nproc=3 if quick else 6, timeout=120 if quick else 1200)
    big_files(ctx, pool, quick)
    ctx.notes.append("probes per family (variant, family): [probes, returned a move] " + json.dumps({f"{k[0]}/{k[1]}": v for k, v in sorted(STATS.items())}))
    # 7. built-in book
    builtin_book(ctx, pool, quick)
    if not quick:
        vlib.leanchecker(ctx, ["TexelVerif.Props.C18"])


if __name__ == "__main__":
    if len(sys.argv) > 1 and sys.argv[1] == "regen":
        vals = randoms_from_source()
        open(RANDOMS_LEAN, "w").write(randoms_lean_text(vals))
        print(f"wrote {RANDOMS_LEAN} ({len(vals)} constants)")
