#!/usr/bin/env python3
"""Regenerates MANIFEST.json from the per-property table below."""
import json, os
HERE = os.path.dirname(os.path.dirname(os.path.abspath(__file__)))
BASE = ("Lean 4.33 kernel; axioms propext/Classical.choice/Quot.sound only (audited by #print axioms on every run); "
        "the model is hand-written and tied to /repo's working tree by a differential run of the real C++ against the compiled Lean model on every run; ")
CHECKS = {
 "C01": dict(
    text="Lean theorems (Props/C01.lean, 24): (a) the legal-move oracle is the legality predicate of the executable FIDE specification and the acceptor genCheck is sound; (b) about executable Lean models of the algorithms of moveGen.cpp on 64-bit bitboards: sqAttacked/inCheck equal the specification; sliding attack sets depend on the occupancy only through the inner mask, so the exhaustive table comparison over mask subsets extends to all 2^64 occupancies; isLegal (all five paths incl. castling, the king-ray and same-direction shortcuts) and removeIllegal return exactly 'the mover's king is not attacked after the move'; pseudoLegalMoves generates exactly the moves obeying the movement rules, without duplicates; pseudoLegalMoves followed by removeIllegal is a permutation of the legal moves; checkEvasions and pseudoLegalCaptures omit no legal move of their class. givesCheck and captures-and-checks are modelled and compared but not proved; for them the per-position acceptor remains the argument.",
    note=BASE + "the models follow the C++ statement by statement and are tied by an ordered differential on every generated position (lists in generation order, verdict per move); hypotheses GenWF (piece codes 0..12, one king of the mover, empty e.p. square) re-checked on every tested position; trusted: Chess/Spec.lean as the rules, C02 for 'bitboards = bitboards of the board', the lookup shape tbl[sq][f(occ & mask)], ascending extractSquare order, no MoveList overflow.",
    technique="Lean 4 proof about hand-written executable models of the generator's algorithms + ordered differential of the real MoveGen against the compiled models on every position + proven acceptor + exhaustive table comparison",
    design="6/C01, notes/C01.md"),
 "C02": dict(
    text="Lean theorems (Props/C02.lean, 33): an incremental Position model (bitboards, hash keys, material id and sums, king squares, flags, counters; Zobrist tables, piece values and MatId weights abstract) with Inv = 'every redundant field equals its from-scratch recomputation'; every primitive, makeMove, unMakeMove and the null-move edits preserve Inv; makeMove refines the specification's apply; unMake . make = identity on every field; history invariants for arbitrary op lists; equal positions under the draw rules have equal hash keys; (de)serialisation round trip under exactly the field-width conditions (with necessity witnesses); FEN round trip for reader-accepted positions; MatId range / injectivity for the repaired unsigned arithmetic and overflow witnesses for the pinned code.",
    note=BASE + "that every legally reachable position satisfies the FEN reader's well-formedness is covered by the differential on visited positions, not proved; deSerialize modelled as fresh . decode.",
    technique="Lean 4 proof (representation invariant preserved by every operation, refinement to the chess specification) + differential of every field after every operation on make/unmake/null-move/copy histories (plain and ASan/UBSan) + from-scratch recomputation on the implementation",
    design="notes/C02.md"),
 "C03": dict(
    text="Lean theorems (Props/C03.lean) about the root bookkeeping with arbitrary sub-search scores and a stop after any step: bestMove/bestExactMove always members of the root move list, at least one root move at reduced strength, searchmoves filter, pairwise distinct multi-PV lines, mate-N formatting; exactness of the PV acceptor (playLine accepts iff the sequence is legal). Partial: that the C++ root loop is an instance of the modelled transition system is by reading; the engine-level tie is the audit of every info/bestmove line of the real binary by the proven chess model, plus extractPVMoves under adversarially planted table contents.",
    note=BASE + "synthetic evaluation networks (the shipped one is emptied here); search internals not modelled; no 64-bit hash collisions; depth-limited searches are not run at reduced strength (they explode by design).",
    technique="Lean 4 proof (root bookkeeping invariants, PV acceptor) + audit of the real engine's UCI output by the Lean chess model over positions x limits x options",
    design="6/C03", category="proof"),
 "C11": dict(
    text="Lean theorems (Props/C11.lean, 26 + 4 Bridge): canClaimDrawRep (regenerated from the C++ by the translator) = the window characterisation 'some match at or above posHashFirstNew, or two matches'; the window loses nothing (on the chess spec: a position never equals the one 2 plies earlier nor one at odd distance); history builder yields exactly the hashes since the last zeroing move; third occurrence at ply 1 <-> the new position occurred twice in the given history (under no-collision and the hash being a function of board/side/castling/e.p., with the repaired e.p.-normalising builder; kernel-evaluated witness that the pinned builder violates it); 50-move test with mate first; console Game model: game states, draw claims, every reachable state records a legal game with normalised positions.",
    note=BASE + "the negaScout draw prologue and the root loop's posHashFirstNew handling are tied only through the engine audit; irreversibility of zeroing moves is an explicit hypothesis; repetitions inside the search tree involving raw e.p. flags are out of scope.",
    technique="Lean 4 proof (scan specification, history builder, third-occurrence theorem, console game model) + translator-regenerated scan kernel + differential of the real scan / setupPosition / Game API + engine audit of `go searchmoves m` scores by the Lean rule-level oracle",
    design="notes/C11.md"),
 "C12": dict(
    text="Lean theorems (Props/C12.lean, 16): certificate_sound — if the executable checker accepts the bytes of a dumped table (local Bellman conditions on every placement, read through a transcription of Texel's own index mapping) then for every legal placement, either side to move, the table holds the exact distance to mate; probe score conversion = the search's mate scores; out-of-scope positions (castling rights, foreign/excess material, non-position indices) are never answered; repaired updateTB never leaves an aborted table installed along any history (witness for the pinned code). The proven checker is run (compiled Lean) over every placement of KK, all 3-man classes and one seed-chosen 4-man class in quick, all 36 4-man classes in thorough.",
    note=BASE + "the Lean compiler/runtime is trusted for executing the proven checker; retrograde_exact (the generator algorithm itself) is not proved — exactness rests on checking the generator's output; BitBoard::extractSquare order assumed.",
    technique="Lean 4 proof (fixed point of the Bellman conditions = exact DTM) + proven certificate checker run over every index of every generated table (both storage back ends) + index-level and probe differentials + abort injection histories",
    design="notes/C12.md"),
 "C13": dict(
    text="Lean theorems (Props/C13.lean + Bridge/TB): the 50-move margin (regenerated from tbprobe.cpp by the translator) is non-negative exactly when the mate is on the board by half-move clock 100; the on-demand probe is exact iff the position is drawn or within that margin, otherwise bound 0 in the right direction with the frustration distance; what a root with exact value v may announce (expectedMate) = exact probe through the UCI mate conversion; swindle scores (regenerated swindleScore) are never mate scores; the certified table gives the score of the true distance to mate (C12). Partial: that the search propagates the probe result to the root, and the effect of clock-resetting captures inside a 4-man line, are tied only by the audit of the real engine's final score and best move against the exact distance to mate.",
    note=BASE + "distance-to-mate oracle = the engine's own generator, certified exhaustively per class by the C12 check; for four men an announcement beyond the naive 50-move window is accepted iff its PV replays under the specification with a zeroing move in time (weaker than exactness); synthetic network.",
    technique="Lean 4 proof (50-move margin / on-demand probe arithmetic on translator-regenerated kernels, certified tables from C12) + audit of the real engine (`go infinite` + stop) on <=4-man roots x clocks x hash x threads against the exact distance to mate",
    design="6/C13"),
 "C14": dict(
    text="Lean theorems (Props/C14.lean) on the table model: the repaired clear() yields exactly a fresh table (slots, used size, generation) up to the contempt hash; the first search after Clear Hash runs with generation 1 like a fresh engine; witness that the pinned commit's clear() (generation kept) makes an insert/insert/probe history observable differently once the generation wraps to 0. Partial: determinism of the whole search and the other persistent state (history, killers, caches) are tied by the two-process comparison of complete UCI output, not proved.",
    note=BASE + "determinism of the real search at Threads=1 is observed (fresh engine run twice); synthetic network; caches kept by Clear Hash assumed transparent (C07).",
    technique="Lean 4 proof on the table model (clear = fresh; generation-zero witness) + two-process differential of complete search output after arbitrary prior sessions incl. generation-wrap lengths",
    design="6/C14"),
 "C05": dict(
    text="Lean theorems (Props/C05.lean): the contract automaton Uci.accepts and what acceptance means (exactly one bestmove per go / readyok per isready / uciok per uci; search output only while a search is outstanding; a ponder/infinite search is not answered before stop/ponderhit/quit); command-dispatch model: the repaired dispatch never dereferences a missing engine object for any command sequence, witness that the pinned commit crashed on `ponderhit`. Partial: the interplay of protocol and engine thread that produces the timeline is modelled under C10; here real timelines of the ASan/UBSan binary for generated scripts are judged by the Lean acceptor, plus exit status, sanitizer reports, termination.",
    note=BASE + "timeline = order observed by the driver (commands logged before they are written); well-formedness of individual lines is judged by a line classifier; synthetic network.",
    technique="Lean 4 proof (contract automaton properties, dispatch no-crash) + acceptance of real ASan/UBSan engine session timelines for generated command scripts",
    design="6/C05"),
 "C04": dict(
    text="Lean theorems (Props/C04.lean): soundness of the claim-calculus rules by which the search produces mate claims (terminal mate, negamax step, all-moves-searched, hash-table ply shift = the table's setScore/getScore) w.r.t. forced mates within a ply budget; soundness of the checkers for forced-mate certificates and for refutation certificates; exact mate-in-one oracle. Partial: the map from negaScout's return paths to the rules is by reading; the engine-level tie is the audit of every `score mate N` (N<=3) of the real engine through Lean-verified certificates, mate-in-one at every depth, and the best move keeping the mate.",
    note=BASE + "certificates come from an untrusted solver in the harness and are verified by the proven Lean checkers; claims with N>3 outside tablebase classes are not audited; synthetic networks; full strength only.",
    technique="Lean 4 proof (claim calculus, certificate checkers) + audit of the real engine's mate announcements by Lean-verified win / refutation certificates",
    design="6/C04, Appendix A"),
 "C07": dict(
    text="proof (partial): Lean theorems (Props/C07.lean): the accumulator used at every evaluation equals the from-scratch accumulator for every history of evaluator calls / moves, take-backs, null moves, copies and arbitrary weights (proved on integers and transferred to wrapping int16 lanes); feature-index colour-flip and mirror symmetry lifted to the network value for arbitrary output layers; SIMD lane arithmetic (no saturation, clip/pack orders, no 32-bit overflow); eval-cache transparency for the repaired key with a witness that the pinned commit's key (without contempt) is not transparent. endGameEval.cpp, the material correction and the output-layer loops have no theorem (symmetry pairs and cross-build differential only).",
    note=BASE + "layers after the accumulator are an uninterpreted function except for the lane lemmas; no 64-bit key collisions; the evaluator hook does not see cache-answered evaluations and runs single-threaded.",
    technique="Lean 4 proof (refinement of the incremental first-layer state machine for all histories; index symmetry; lane arithmetic; cache transparency) + differential of the model against the real Position/NNEvaluator after every operation + fresh-evaluator, symmetry-pair, SIMD cross-build and hooked-search predicates",
    design="6/C07, notes/C07.md"),
 "C06": dict(
    text="Lean theorems (Props/C06.lean, 21): 1 <= soft <= hard <= time - min(BufferTime, time*9/10) for every clock input with the mover's clock >= 1 ms (shown to be the strongest uniform statement: below 10/9 of the buffer the code keeps 90% of the clock), movetime, single-legal-move clamp, ponderhit limits, stop rule: a search thread stops by max(t0, tStart+hard) + one polling interval for every event sequence, and within one polling interval after the limits are zeroed. The integer slices of computeTimeLimit are regenerated from the C++ by the translator (Bridge/Time). Floating point enters through two stated hypotheses checked on every run.",
    note=BASE + "wall-clock behaviour is not claimed: the real engine runs under the TEXEL_VERIF virtual clock driven by searched nodes; IEEE-double steps abstracted by two hypotheses (scale m >= m, cast >= 0) checked on every run; known finding C06-maxnps-sleep (MaxNPS throttle sleeps make the polling interval unbounded).",
    technique="Lean 4 proof (allocation arithmetic by omega, stop-rule state machine) + translator-regenerated integer slices + differential of the real computeTimeLimit/shouldStop + real engine under a deterministic virtual clock checked against the proved deadlines",
    design="6/C06, notes/C06.md"),
 "C15": dict(
    text="Lean theorems (Props/C15.lean, 14): unMoves_iff — the executable un-move oracle lists exactly the (move, undo information) pairs for which a reader-accepted predecessor exists in which the move is legal and leads back to the position (both modes of includeAllEpSquares); corollaries complete, complete_noEp, consistent, no_unmoves_no_predecessor, unmake_restores (un-making any pseudo-legal move restores the board: plain, O-O, O-O-O, e.p.); the repaired origin-square condition never drops a predecessor (witness for the pinned code).",
    note=BASE + "half-move clock of an UnMove is always 0 by the header's contract and not modelled; the algorithm of Texel's generator itself is not modelled (its output is compared as a set with the proven oracle).",
    technique="Lean 4 proof (un-move oracle = relational predecessor specification) + set equality of RevMoveGen::genMoves with the compiled oracle in both modes + forward/backward predicates on the implementation (played move present; every listed un-move legal and leading back)",
    design="notes/C15.md"),
 "C17": dict(
    text="Lean theorems (Props/C17.lean, 19): san_roundtrip for short and long form and san_injective (no two legal moves share a short form) on a character-level model of moveToString/stringToMove, uci_roundtrip; parsers_total — index-level models of readFEN, stringToMove, uciStringToMove, trim, tokenize in which every s[i]/substr is a checked access never reach the out-of-bounds outcome; the PGN reader model never reaches it and its scanner terminates on every input; PGN round trip on a token-level model (partial: lifting to characters and the arena parser is differential only); repaired FEN counters in range (witnesses for the pinned reader).",
    note=BASE + "memory safety of libstdc++ string operations is trusted; PGN reader recursion fuel not proved sufficient (driver reports if exhausted); known finding C17-pgn-nesting-stack (unbounded recursion on > 4 KB deeply nested PGN).",
    technique="Lean 4 proof (SAN/UCI round trips, totality of index-level parser models) + line-by-line differential for all legal moves of generated positions + malformed byte streams on the ASan/UBSan build + PGN writer/reader round trips",
    design="notes/C17.md"),
 "C18": dict(
    text="Lean theorems (Props/C18.lean, 16) on a byte-level model (book = List UInt8): probe_safe for arbitrary bytes and any random draw (result is none or a legal move), only_own_key for any file, bsearch_complete and positive_weight_reachable for sorted books, polyglot move codec round trip incl. castling, termination of the binary search, weight-sum bound for the repaired 64-bit arithmetic, witnesses for the three pre-fix defects. The polyglot hash key is tied by differential and an independent Python oracle only.",
    note=BASE + "the 781 polyglot random constants are regenerated from polyglot.cpp and compared on every run; the built-in book's table lookup is checked on the implementation only; quick tier needs the asan variant and sparse files up to 4 GiB.",
    technique="Lean 4 proof over a byte-level book model + differential on generated / truncated / corrupted / unsorted books + legality and key predicates on the implementation's answers (ASan/UBSan for malformed families)",
    design="6/C18, notes/C18.md"),
 "C19": dict(
    text="Lean theorems (Props/C19.lean, 16): the fixed point (negamax, both expansion costs, both path errors, shortest depth, parent/child consistency) is preserved by setSearchResult, addPending/removePending, updateScores and addPos incl. transpositions and depth propagation, for the repaired algorithm, via one generic propagation theorem over a ranked DAG; save/load round trip; uniqueness of the fixed point; witness that the pinned commit's updateNegaMax breaks it.",
    note=BASE + "completeness of the parent/child links against the chess rules is an explicit hypothesis (AddOk) checked on the implementation; extendBook's search loop and books of >= 2^31-2 nodes are not covered.",
    technique="Lean 4 proof (invariant preservation over a ranked DAG, refinement of the three propagation passes) + differential of every changed node field after every operation + defining equations re-evaluated on the implementation's fields",
    design="6/C19, notes/C19.md"),
 "C20": dict(
    text="Lean theorems (Props/C20.lean, 20) about a total executable mirror of the solver (building API with every assert/overflow case as an explicit error, arc consistency with proven-sufficient fuel, backtracking search, the four value preferences): solve returns sat only with an assignment satisfying every domain and constraint, unsat only if none exists, the verdict does not depend on the preferences; bit-set primitive specifications incl. the empty-set -1 convention; the supported limits are a decidable predicate equivalent to 'the build succeeds'.",
    note=BASE + "BitSet<192> modelled as a boolean list; BitUtil::firstBit/lastBit/bitCount modelled as lowest/highest/count (tied separately by Bridge/Bits); int assumed 32-bit; harness pre-checks mirror each assert.",
    technique="Lean 4 proof (soundness + completeness of arc consistency and search, fuel sufficiency) + differential on random/structured systems + independent satisfiability oracle on the implementation's answers",
    design="6/C20, notes/C20.md"),
 "C08": dict(
    text="Lean theorems (Props/C08.lean + Bridge/TT.lean): the index/field/score kernels are regenerated from the C++ source by the cxx2lean translator on every run and proved equal to the hand model (17 Bridge theorems); bucket index aligned and in range for every size >= 512 and every 64-bit key; field layout disjoint and lossless; xor validation makes any validating pair of words bit-identical to one unit record (relaxed-atomic over-approximation); ply shift exact; hash buckets disjoint from the resident-tablebase bytes; insert writes only inside its bucket. The universally quantified part is proved; the tie to the C++ is a differential run.",
    note=BASE + "no 64-bit key/xor coincidences (explicit hypothesis); relaxed atomics modelled as 'a load returns some previously written value of that word'; harness reads private members.",
    technique="Lean 4 proof over an executable table model + translator-regenerated kernels with Bridge theorems + differential correspondence (index grid, entry kernels, op histories) + multi-thread hammer as support",
    design="6/C08"),
}
NOT_YET = {}
def main():
    props = [json.loads(l) for l in open(os.path.join(HERE, "properties.jsonl"))]
    checks, na = [], []
    for p in props:
        i = p["id"]
        if i in CHECKS:
            c = CHECKS[i]
            checks.append({"property_id": i, "quick_cmd": f"./check {i} --tier quick", "thorough_cmd": f"./check {i} --tier thorough",
                           "evidence_file": f"evidence/{i}.json", "replay_cmd_template": f"./check {i} --replay {{path}}",
                           "engine": "lean-model+lineproto-harness",
                           "level_claimed": {"category": c.get("category", "proof"), "text": c["text"], "design_ref": c["design"]},
                           "level_note": c["note"], "technique": c["technique"]})
        else:
            na.append({"property_id": i, "reason": NOT_YET.get(i, "check not built yet in this round (planned: Lean model + correspondence, see DESIGN.md section 6); not a claim that the technique cannot apply")})
    m = {"version": 1, "setup_cmd": "./check --setup",
         "hooks": {"guard": "TEXEL_VERIF", "enable": "the wrapper CMake project /verif/harness (project name `texel`) adds -DTEXEL_VERIF via add_compile_definitions and builds /repo's libraries and apps out of tree under /verif/.build/<variant>",
                   "baseline_off_cmd": "cmake -G Ninja -S /repo -B /repo/_build >/dev/null && cmake --build /repo/_build >/dev/null && ctest --test-dir /repo/_build -j8 --timeout 900",
                   "source_commits": json.load(open(os.path.join(HERE, "hooks.json")))["commits"], "add_only": True},
         "engines": [{"name": "lean-model+lineproto-harness", "path": "lean/ harness/ tools/", "serves_properties": [c["property_id"] for c in checks],
                      "kind_free_text": "Lean 4 library TexelVerif (models + theorems), compiled Lean driver and C++ harness speaking the same line protocol, python check driver"}],
         "checks": checks, "not_applicable": na,
         "notes": "Every check rebuilds the C++ from /repo's working tree (ninja, out of tree) and the Lean library (lake) before running. known_findings.json lists genuine defects."}
    json.dump(m, open(os.path.join(HERE, "MANIFEST.json"), "w"), indent=1)
    print(f"MANIFEST.json: {len(checks)} checks, {len(na)} not_applicable")
if __name__ == "__main__":
    main()
