#!/usr/bin/env python3
"""usage: remap_sha.py old=new ...  — rewrite commit ids in hooks.json, known_findings.json, notes/*.md after cherry-picks"""
import sys, glob, os
V = os.path.dirname(os.path.dirname(os.path.abspath(__file__)))
pairs = [a.split("=") for a in sys.argv[1:]]
for f in [os.path.join(V, "hooks.json"), os.path.join(V, "known_findings.json")] + glob.glob(os.path.join(V, "notes", "*.md")) + glob.glob(os.path.join(V, "lean/TexelVerif/**/*.lean"), recursive=True) + glob.glob(os.path.join(V, "tools/checks/*.py")):
    s = open(f).read(); t = s
    for o, n in pairs: t = t.replace(o, n)
    if t != s: open(f, "w").write(t); print("remapped", os.path.relpath(f, V))
