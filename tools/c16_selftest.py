#!/usr/bin/env python3
"""Mutation self-test of the C16 check.  Applies each edit to $VERIF_REPO's working tree (which must be a private
worktree, never /repo), runs `./check C16 --tier quick`, restores the file, and prints a table.

    VERIF_REPO=/tmp/w/<agent>/repo python3 tools/c16_selftest.py [--stock <stock-test build dir>] [name-substring ...]

With --stock the mutated tree is also built in the given cmake/ninja tree of /repo's own test-suite and the
ProofGame*/ProofKernel*/CspSolver*/RevMoveGen* tests are run (shows that the stock tests do not catch the mutation).
"""
import os, re, subprocess, sys, time
HERE = os.path.dirname(os.path.abspath(__file__))
VERIF = os.path.dirname(HERE)
REPO = os.environ.get("VERIF_REPO", "/repo")
PG = "lib/texelutillib/pg/proofgame.cpp"
PGF = "lib/texelutillib/pg/proofgamefilter.cpp"
PK = "lib/texelutillib/pg/proofkernel.cpp"
RMG = "lib/texelutillib/revmovegen.cpp"

# (name, file, old, new)  — every one must be caught
CASES = [
    ("count rule: knights beyond 1 count as promoted (proofgame.cpp)", PG,
     "    maxWPawns -= std::max(0, pieceCnt[Piece::WKNIGHT] - 2);\n    maxWPawns -= std::max(0, pieceCnt[Piece::WBISHOP] - 2);\n    maxWPawns -= std::max(0, pieceCnt[Piece::WROOK  ] - 2);\n    maxWPawns -= std::max(0, pieceCnt[Piece::WQUEEN ] - 1);\n    if (pieceCnt[Piece::WPAWN] > maxWPawns)\n        throw",
     "    maxWPawns -= std::max(0, pieceCnt[Piece::WKNIGHT] - 1);\n    maxWPawns -= std::max(0, pieceCnt[Piece::WBISHOP] - 2);\n    maxWPawns -= std::max(0, pieceCnt[Piece::WROOK  ] - 2);\n    maxWPawns -= std::max(0, pieceCnt[Piece::WQUEEN ] - 1);\n    if (pieceCnt[Piece::WPAWN] > maxWPawns)\n        throw"),
    ("count rule: black queens beyond 0 count as promoted (revmovegen.cpp copy)", RMG,
     "    maxBPawns -= std::max(0, pieceCnt[Piece::BQUEEN ] - 1);\n    if (pieceCnt[Piece::BPAWN] > maxBPawns)\n        return false;",
     "    maxBPawns -= std::max(0, pieceCnt[Piece::BQUEEN ] - 0);\n    if (pieceCnt[Piece::BPAWN] > maxBPawns)\n        return false;"),
    ("enoughRemainingPieces: sign of the rook term", PG,
     "    wProm -= std::max(0, goalPieceCnt[Piece::WROOK] - pieceCnt[Piece::WROOK]);",
     "    wProm -= std::max(0, pieceCnt[Piece::WROOK] - goalPieceCnt[Piece::WROOK]);"),
    ("enoughRemainingPieces: black knight term dropped", PG,
     "    bProm -= std::max(0, goalPieceCnt[Piece::BKNIGHT] - pieceCnt[Piece::BKNIGHT]);\n", ""),
    ("distLowerBound: side-to-move parity swapped", PG,
     "    if (pos.isWhiteMove())\n        bNeededPlies++;\n    else\n        wNeededPlies++;",
     "    if (pos.isWhiteMove())\n        wNeededPlies++;\n    else\n        bNeededPlies++;"),
    ("distLowerBound: captures needed by black taken from the wrong colour", PG,
     "    neededMoves[1] = std::max(neededMoves[1], nWhiteToCapture);", "    neededMoves[1] = std::max(neededMoves[1], nBlackToCapture);"),
    ("emitted proof game truncated (last move dropped)", PGF,
     "        proof = getMovePath(startPos, result.proofGame);\n        line.eraseToken(UNKNOWN);",
     "        proof = getMovePath(startPos, result.proofGame);\n        if (!proof.empty()) proof.pop_back();\n        line.eraseToken(UNKNOWN);"),
    ("emitted proof game without the retracted forced last moves", PG,
     "    if (includeLastMoves)\n        movePath.insert(movePath.end(), lastMoves.begin(), lastMoves.end());",
     "    if (false && includeLastMoves)\n        movePath.insert(movePath.end(), lastMoves.begin(), lastMoves.end());"),
    ("proof kernel: over-eager capture-count pruning (> becomes >=)", PK,
     "        if (minMovesToGoalOneColor((PieceColor)c) > remainingCaptures[1-c])",
     "        if (minMovesToGoalOneColor((PieceColor)c) >= remainingCaptures[1-c])"),
    ("proof kernel: bishop declared trapped if ONE neighbouring pawn is blocked", PK,
     "        if ((x == 0 || isBlocked(x-1, 1)) && (x == 7 || isBlocked(x+1, 1))) {",
     "        if ((x == 0 || isBlocked(x-1, 1)) || (x == 7 || isBlocked(x+1, 1))) {"),
    ("proof kernel: min moves to goal counts every incomplete column", PK,
     "            minMoves++; // Not complete, one more move required\n            i++;        // The next column could be completed by the same move",
     "            minMoves++; // Not complete, one more move required"),
    ("computeBlocked: pawn cone with one capture fewer (over-eager blocked pawns)", PG,
     "            mask = bPawnReachable[sq][nBlackExtraPieces];", "            mask = bPawnReachable[sq][std::max(0, nBlackExtraPieces - 1)];"),
    ("capturesFeasible: needed captures >= available", PG,
     "            if (neededBCaptured > numBlackExtraPieces)", "            if (neededBCaptured >= numBlackExtraPieces && neededBCaptured > 0)"),
    ("castling repair reverted (bound not admissible)", PG,
     "                        discount = std::max(discount, std::min(2, dFrom - d));", "                        discount = 0;"),
    ("en-passant repair reverted (false unreachable)", PG,
     "    if (epSq.isValid()) {\n        // An en passant capture", "    if (false && epSq.isValid()) {\n        // An en passant capture"),
    ("last-move analysis: quiet un-moves never count as valid", PG,
     "            if (valid) {\n                unMoves.push_back(um);\n                if (unMoves.size() > 1)\n                    break;\n            } else {",
     "            if (valid && false) {\n                unMoves.push_back(um);\n                if (unMoves.size() > 1)\n                    break;\n            } else {"),
]


def sh(cmd, cwd=None, env=None, timeout=None):
    p = subprocess.run(cmd, cwd=cwd, env=env, stdout=subprocess.PIPE, stderr=subprocess.STDOUT, text=True, timeout=timeout)
    return p.returncode, p.stdout


def main():
    args = sys.argv[1:]
    stock = None
    if args[:1] == ["--stock"]:
        stock = args[1]; args = args[2:]
    if os.path.realpath(REPO) == "/repo":
        print("refusing to mutate /repo; set VERIF_REPO to a private worktree"); return 2
    rc, out = sh(["git", "status", "--porcelain"], cwd=REPO)
    if out.strip():
        print("VERIF_REPO has uncommitted changes:\n" + out); return 2
    rows = []
    for name, file, old, new in CASES:
        if args and not any(a in name for a in args): continue
        path = os.path.join(REPO, file)
        src = open(path).read()
        if src.count(old) != 1:
            rows.append((name, "EDIT-DOES-NOT-APPLY", "", "")); print(rows[-1], flush=True); continue
        t0 = time.time()
        try:
            open(path, "w").write(src.replace(old, new))
            env = dict(os.environ, VERIF_REPO=REPO)
            rc, out = sh(["./check", "C16", "--tier", "quick"], cwd=VERIF, env=env, timeout=3600)
            viol = [l for l in out.split("\n") if l.startswith("[C16] violation:")]
            nofi = [l for l in out.split("\n") if l.startswith("VIOLATION")]
            has_input = any("no-failing-input-found" not in l for l in nofi)
            caught = "caught" if rc == 1 and nofi else "MISSED"
            first = viol[0][len("[C16] violation: "):][:170] if viol else out.strip().split("\n")[-1][:170]
            st = ""
            if stock:
                rc2, o2 = sh(["ninja", "-C", stock, "texelutiltest"], timeout=3600)
                if rc2 != 0: st = "does-not-compile"
                else:
                    try:
                        rc3, o3 = sh([os.path.join(stock, "texelutiltest"), "--gtest_filter=ProofGame*:ProofKernel*:CspSolver*:RevMoveGen*"], cwd=stock, timeout=600)
                    except subprocess.TimeoutExpired:
                        rc3, o3 = 1, "[  FAILED  ] (hang>600s)"
                    failed = re.findall(r"\[  FAILED  \] ([A-Za-z(]\S+)", o3)
                    st = "stock tests pass" if rc3 == 0 else "stock tests FAIL: " + ",".join(sorted(set(failed)))
            rows.append((name, caught + (" (failing input)" if has_input else " (no failing input)") if caught == "caught" else caught, first, st))
        finally:
            open(path, "w").write(src)
        print(rows[-1], f"{time.time() - t0:.0f}s", flush=True)
    sh(["git", "checkout", "--", "."], cwd=REPO)
    print("\n| mutation | check | first violation reported | stock tests |\n|---|---|---|---|")
    for r in rows:
        print("| " + " | ".join(x.replace("|", "/") for x in r) + " |")
    return 0 if all(r[1].startswith("caught") for r in rows) else 1


if __name__ == "__main__":
    sys.exit(main())
