"""Shared machinery of the /verif checks: builds (Lean + C++ from /repo's working tree),
axiom audit, differential runs over the line protocol, evidence and violation reporting."""
import hashlib, json, os, random, re, subprocess, sys, time

VERIF = os.path.dirname(os.path.dirname(os.path.abspath(__file__)))
REPO = os.environ.get("VERIF_REPO", "/repo")
LEAN = os.path.join(VERIF, "lean")
BUILD = os.path.join(VERIF, ".build")
EVID = os.path.join(VERIF, "evidence")
REPLAY = os.path.join(EVID, "replay")
ALLOWED_AXIOMS = {"propext", "Classical.choice", "Quot.sound"}
FORBIDDEN = re.compile(r"\bsorry\b|\badmit\b|^\s*axiom\s|native_decide|bv_decide|implemented_by|\bunsafe\s|maxHeartbeats\s+0\b|ofReduceBool")
NCPU = os.cpu_count() or 4

VARIANTS = {
    # name: (cmake cache args, c/cxx flags)
    "plain": ([], "-O1"),
    "asan": (["-DVERIF_SAN=asan"], "-O1"),
    "tsan": (["-DVERIF_SAN=tsan"], "-O1"),
    "ssse3": (["-DUSE_SSSE3=ON"], "-O1"),
    "avx2": (["-DUSE_AVX2=ON"], "-O1"),
    "avx512": (["-DUSE_AVX512=ON"], "-O1"),
    "nohook": (["-DVERIF_GUARD=OFF"], "-O1"),
}


def sh(cmd, cwd=None, env=None, timeout=None, input=None):
    p = subprocess.run(cmd, cwd=cwd, env=env, timeout=timeout, input=input, stdout=subprocess.PIPE,
                       stderr=subprocess.STDOUT, text=True, errors="replace")
    return p.returncode, p.stdout


class Violation(Exception):
    pass


class Ctx:
    """One run of one property's check."""

    def __init__(self, prop, tier, seed):
        self.prop, self.tier, self.seed = prop, tier, seed
        self.t0 = time.time()
        self.rng = random.Random((seed << 8) ^ int(hashlib.sha1(prop.encode()).hexdigest()[:8], 16))
        self.cov = {"evaluations": 0, "distinct_nontrivial": 0, "rule": "", "samples": [], "obligations": 0,
                    "discharged": 0, "checker_cmd": "", "trusted_base": [], "ties": {}}
        self.assumptions = []
        self.violations = []       # list of (replay_path, no_input)
        self.known = []            # KNOWN-FINDING lines printed
        self.notes = []
        self._distinct = set()
        os.makedirs(REPLAY, exist_ok=True)

    # ---- counting -------------------------------------------------------------------------
    def count(self, n=1):
        self.cov["evaluations"] += n

    def distinct(self, key):
        self._distinct.add(key if isinstance(key, (str, int, tuple)) else json.dumps(key, sort_keys=True))

    def sample(self, s, limit=6):
        if len(self.cov["samples"]) < limit:
            self.cov["samples"].append(s)

    def tie(self, name, **kw):
        d = self.cov["ties"].setdefault(name, {})
        for k, v in kw.items():
            if isinstance(v, (int, float)) and isinstance(d.get(k), (int, float)):
                d[k] += v
            else:
                d[k] = v

    def log(self, msg):
        print(f"[{self.prop} {time.time() - self.t0:6.1f}s] {msg}", flush=True)

    # ---- violations -----------------------------------------------------------------------
    def violation(self, what, replay, no_input=False):
        """Record a violation.  `replay` is a JSON-serialisable object describing the failing input (or, with
        no_input=True, the theorem / correspondence that no longer checks)."""
        kf = known_findings()
        fid = replay.get("finding_id") if isinstance(replay, dict) else None
        for f in kf.get("known", []):
            if f["property"] == self.prop and fid is not None and f["id"] == fid:
                line = f"KNOWN-FINDING: property={self.prop} {f['what']}"
                if line not in self.known:
                    self.known.append(line)
                    print(line, flush=True)
                return
        body = {"property": self.prop, "what": what, "tier": self.tier, "seed": self.seed,
                "no_failing_input_found": no_input, "replay": replay,
                "replay_cmd": f"./check {self.prop} --replay <this file>"}
        h = hashlib.sha1(json.dumps(body, sort_keys=True, default=str).encode()).hexdigest()[:12]
        path = os.path.join(REPLAY, f"{self.prop}-{h}.json")
        with open(path, "w") as f:
            json.dump(body, f, indent=1, default=str)
        self.violations.append((path, no_input, what))
        print(f"[{self.prop}] violation: {what}", flush=True)

    # ---- finish ---------------------------------------------------------------------------
    def finish(self, level="proof"):
        self.cov["distinct_nontrivial"] = max(self.cov["distinct_nontrivial"], len(self._distinct))
        ev = {"property_id": self.prop, "tier": self.tier, "seed": self.seed, "level": level,
              "coverage": self.cov, "assumptions": self.assumptions, "wall_s": round(time.time() - self.t0, 2),
              "violations": len(self.violations), "known_findings_seen": self.known, "notes": self.notes}
        os.makedirs(EVID, exist_ok=True)
        with open(os.path.join(EVID, f"{self.prop}.json"), "w") as f:
            json.dump(ev, f, indent=1, default=str)
        if self.violations:
            # one line per distinct violation; failing inputs first
            self.violations.sort(key=lambda v: v[1])
            for path, no_input, what in self.violations[:5]:
                print(f"VIOLATION property={self.prop} replay={path}" + (" no-failing-input-found" if no_input else ""), flush=True)
            return 1
        print(f"[{self.prop}] OK tier={self.tier} seed={self.seed} evaluations={self.cov['evaluations']} "
              f"obligations={self.cov['discharged']}/{self.cov['obligations']} wall={ev['wall_s']}s", flush=True)
        return 0


_kf = None


def known_findings():
    global _kf
    if _kf is None:
        p = os.path.join(VERIF, "known_findings.json")
        _kf = json.load(open(p)) if os.path.exists(p) else {"known": [], "fixed": []}
    return _kf


# ---------------------------------------------------------------------------------------------
# Lean side
# ---------------------------------------------------------------------------------------------

def strip_comments(src):
    """Remove Lean comments (nested block comments and line comments) and string literals."""
    out, i, n, depth = [], 0, len(src), 0
    while i < n:
        if src.startswith("/-", i):
            depth += 1; i += 2; continue
        if depth and src.startswith("-/", i):
            depth -= 1; i += 2; continue
        if depth:
            if src[i] == "\n": out.append("\n")
            i += 1; continue
        if src.startswith("--", i):
            while i < n and src[i] != "\n": i += 1
            continue
        if src[i] == '"':
            i += 1
            while i < n and src[i] != '"':
                i += 2 if src[i] == "\\" else 1
            i += 1; out.append('""'); continue
        out.append(src[i]); i += 1
    return "".join(out)


def lean_files():
    res = []
    for root, _, files in os.walk(os.path.join(LEAN, "TexelVerif")):
        for f in files:
            if f.endswith(".lean"):
                res.append(os.path.join(root, f))
    return sorted(res)


def lean_hygiene():
    """Forbidden tokens and root reachability.  Returns list of problems."""
    problems = []
    root = open(os.path.join(LEAN, "TexelVerif.lean")).read()
    imported = set(re.findall(r"^import\s+(\S+)", root, re.M))
    for p in lean_files():
        mod = os.path.relpath(p, LEAN)[:-5].replace("/", ".")
        if ".Generated." in mod:
            continue
        if mod not in imported:
            problems.append(f"module {mod} is not imported by the root TexelVerif.lean (would be silently unchecked)")
        code = strip_comments(open(p).read())
        for ln, line in enumerate(code.split("\n"), 1):
            if FORBIDDEN.search(line):
                problems.append(f"{os.path.relpath(p, VERIF)}:{ln}: forbidden token: {line.strip()[:80]}")
    return problems


def lake_build(targets, timeout=1800):
    rc, out = sh(["lake", "build"] + list(targets), cwd=LEAN, timeout=timeout)
    return rc == 0, out


def props_theorems(prop):
    """Names of the theorems stated in Props/<prop>.lean (fully qualified)."""
    p = os.path.join(LEAN, "TexelVerif", "Props", f"{prop}.lean")
    src = strip_comments(open(p).read())
    names, ns = [], []
    for line in src.split("\n"):
        m = re.match(r"\s*namespace\s+(\S+)", line)
        if m: ns.append(m.group(1)); continue
        m = re.match(r"\s*end\s+(\S+)", line)
        if m and ns and ns[-1] == m.group(1): ns.pop(); continue
        m = re.match(r"\s*(?:@\[[^\]]*\]\s*)?(?:protected\s+)?theorem\s+(\S+)", line)   # private helpers are covered transitively
        if m: names.append(".".join(ns + [m.group(1)]))
    return names


def lean_obligations(ctx, extra_modules=()):
    """Build Props/<prop> (+ extra modules), audit hygiene and axioms.  Records obligations in ctx.
    Returns True iff every obligation is discharged."""
    prop = ctx.prop
    mods = [f"TexelVerif.Props.{prop}"] + list(extra_modules)
    ok, out = lake_build(mods + ["driver"])
    thms = props_theorems(prop)
    base_obl, base_dis = ctx.cov["obligations"], ctx.cov["discharged"]     # Bridge theorems counted earlier by xlate.regenerate
    ctx.cov["obligations"] = base_obl + len(thms)
    ctx.cov["checker_cmd"] = f"cd lean && lake build {' '.join(mods)} && lake env lean <#print axioms of the {len(thms)} theorems of Props/{prop}.lean>"
    if not ok:
        errs = [l for l in out.split("\n") if "error" in l][:10]
        ctx.cov["discharged"] = base_dis
        ctx.lean_errors = errs
        ctx.violation("Lean build of the property theorems failed", {"kind": "lean-build", "modules": mods, "errors": errs}, no_input=True)
        return False
    probs = lean_hygiene()
    if probs:
        ctx.cov["discharged"] = base_dis
        ctx.violation("Lean hygiene audit failed", {"kind": "lean-hygiene", "problems": probs[:20]}, no_input=True)
        return False
    # axiom audit
    tmp = os.path.join(LEAN, ".lake", f"audit_{prop}.lean")
    with open(tmp, "w") as f:
        f.write(f"import TexelVerif.Props.{prop}\n" + "".join(f"#print axioms {t}\n" for t in thms))
    rc, out = sh(["lake", "env", "lean", tmp], cwd=LEAN, timeout=600)
    axioms, bad = {}, []
    for m in re.finditer(r"'([^']+)' (?:depends on axioms: \[([^\]]*)\]|does not depend on any axioms)", out.replace("\n  ", " ").replace("\n", " ")):
        ax = set(a.strip() for a in (m.group(2) or "").split(",") if a.strip())
        axioms[m.group(1)] = sorted(ax)
        if not ax <= ALLOWED_AXIOMS:
            bad.append((m.group(1), sorted(ax - ALLOWED_AXIOMS)))
    missing = [t for t in thms if t not in axioms]
    if rc != 0 or missing or bad:
        ctx.cov["discharged"] = base_dis + len(thms) - len(missing) - len(bad)
        ctx.violation("axiom audit failed", {"kind": "lean-axioms", "missing": missing, "bad": bad, "output": out[-2000:]}, no_input=True)
        return False
    ctx.cov["discharged"] = base_dis + len(thms)
    used = sorted(set(a for v in axioms.values() for a in v))
    ctx.cov["trusted_base"] = [f"Lean 4 kernel (lake build, Lean {lean_version()})", f"axioms used by the {len(thms)} property theorems: {used}",
                               "no sorry/admit/axiom/native_decide/bv_decide/implemented_by/unsafe in lean/TexelVerif (grep on comment-stripped sources)",
                               "every module reachable from the root TexelVerif.lean"]
    ctx.cov["theorems"] = thms
    return True


_lv = None


def lean_version():
    global _lv
    if _lv is None:
        _lv = sh(["lean", "--version"])[1].strip().split("\n")[-1][:60]
    return _lv


def leanchecker(ctx, modules):
    """Independent re-check of compiled .olean files (thorough tier)."""
    for m in modules:
        rc, out = sh(["lake", "env", "leanchecker", m], cwd=LEAN, timeout=1800)
        if rc != 0:
            ctx.violation(f"leanchecker rejected {m}", {"kind": "leanchecker", "module": m, "output": out[-1500:]}, no_input=True)
            return False
    ctx.cov["trusted_base"].append(f"leanchecker re-checked {len(modules)} module(s)")
    return True


def driver_bin():
    return os.path.join(LEAN, ".lake", "build", "bin", "driver")


# ---------------------------------------------------------------------------------------------
# C++ side
# ---------------------------------------------------------------------------------------------

_built = {}
_build_lock = __import__("threading").Lock()


def cxx_build(variant="plain", targets=("vharness",), ctx=None):
    """(Re)build the given targets from /repo's current working tree (once per process and target set).  Returns build dir."""
    with _build_lock:
        key = (variant, tuple(sorted(targets)))
        if key in _built:
            return _built[key]
        _built[key] = _cxx_build(variant, targets)
        return _built[key]


def _cxx_build(variant, targets):
    args, flags = VARIANTS[variant]
    bdir = os.path.join(BUILD, variant)
    os.makedirs(bdir, exist_ok=True)
    if not os.path.exists(os.path.join(bdir, "build.ninja")):
        rc, out = sh(["cmake", "-G", "Ninja", "-S", os.path.join(VERIF, "harness"), "-B", bdir, "-DCMAKE_BUILD_TYPE=None",
                      f"-DREPO={REPO}", f"-DCMAKE_CXX_FLAGS={flags}", f"-DCMAKE_C_FLAGS={flags}"] + args)
        if rc != 0:
            raise RuntimeError("cmake configure failed:\n" + out[-3000:])
    rc, out = sh(["ninja", "-C", bdir] + list(targets))
    if rc != 0:
        raise RuntimeError("C++ build failed (the working tree does not compile):\n" + out[-3000:])
    return bdir


def net_file(bdir, kind="material", seed=1):
    """Synthetic network file for the TEXEL_VERIF_NET hook (generated once per kind/seed)."""
    p = os.path.join(BUILD, f"net_{kind}_{seed}.bin")
    if not os.path.exists(p):
        import threading
        tmp = f"{p}.{os.getpid()}.{threading.get_ident()}.tmp"
        rc, out = sh([os.path.join(bdir, "mknet"), str(seed), kind, tmp])
        if rc != 0:
            raise RuntimeError("mknet failed: " + out)
        os.replace(tmp, p)
    return p


def run_lines(binary, lines, env=None, timeout=3600):
    """Feed lines to a line-protocol binary; returns (rc, list of output lines, stderr tail)."""
    data = "\n".join(lines) + "\n"
    e = dict(os.environ)
    if env: e.update(env)
    p = subprocess.run([binary], input=data, stdout=subprocess.PIPE, stderr=subprocess.PIPE, text=True, errors="replace", env=e, timeout=timeout)
    return p.returncode, p.stdout.split("\n")[:-1] if p.stdout.endswith("\n") else p.stdout.split("\n"), p.stderr[-3000:]


def diff_lines(ctx, name, lines, variant="plain", env=None, sessions=None):
    """Run the same input through the C++ harness and the Lean driver and compare line by line.
    `sessions`: optional list of (start, end) index ranges that are independent sessions (for shrinking/replay).
    Returns (impl_out, model_out, first_mismatch_index or None)."""
    bdir = cxx_build(variant, ("vharness",))
    rc1, out1, err1 = run_lines(os.path.join(bdir, "vharness"), lines, env)
    rc2, out2, err2 = run_lines(driver_bin(), lines)
    ctx.tie(name, kind="differential (C++ harness vs compiled Lean model, same input lines)", lines=len(lines), variant=variant)
    if rc1 != 0 or len(out1) != len(lines):
        k = len(out1)
        ctx.violation(f"{name}: implementation harness died (rc={rc1}) after {k} of {len(lines)} operations",
                      {"kind": "impl-crash", "tie": name, "variant": variant, "rc": rc1, "stderr": err1,
                       "input": session_of(lines, sessions, min(k, len(lines) - 1))})
        return out1, out2, k
    if rc2 != 0 or len(out2) != len(lines):
        ctx.violation(f"{name}: Lean driver died (rc={rc2})", {"kind": "model-crash", "tie": name, "stderr": err2[-800:]}, no_input=True)
        return out1, out2, len(out2)
    for i, (a, b) in enumerate(zip(out1, out2)):
        if a != b:
            return out1, out2, i
    return out1, out2, None


def session_of(lines, sessions, i):
    if sessions:
        for (s, e) in sessions:
            if s <= i < e:
                return lines[s:i + 1]
    return lines[max(0, i - 50):i + 1]


def main_for(run_fn, prop):
    """Entry point used by ./check."""
    import argparse
    ap = argparse.ArgumentParser()
    ap.add_argument("--tier", default=os.environ.get("VERIF_TIER", "quick"), choices=["quick", "thorough"])
    ap.add_argument("--replay")
    a = ap.parse_args(sys.argv[2:])
    seed = int(os.environ.get("VERIF_SEED", "1"))
    ctx = Ctx(prop, a.tier, seed)
    ctx.replay = json.load(open(a.replay)) if a.replay else None
    try:
        run_fn(ctx)
    except RuntimeError as e:
        ctx.violation(str(e)[:300], {"kind": "build", "error": str(e)}, no_input=True)
    return ctx.finish()
