"""Driver for the real `texel` UCI binary (built from /repo's working tree with the TEXEL_VERIF_NET hook)."""
import os, queue, re, subprocess, threading, time
import vlib


class EngineDied(Exception):
    pass


class Engine:
    def __init__(self, variant="plain", net_kind="material", net_seed=1, env=None, log=None):
        self.bdir = vlib.cxx_build(variant, ("texel", "mknet"))
        e = dict(os.environ)
        e["TEXEL_VERIF_NET"] = vlib.net_file(self.bdir, net_kind, net_seed)
        if variant in ("asan", "tsan"):
            e.setdefault("ASAN_OPTIONS", "detect_leaks=0:abort_on_error=0:exitcode=66")
            e.setdefault("UBSAN_OPTIONS", "halt_on_error=1:exitcode=66:print_stacktrace=1")
            e.setdefault("TSAN_OPTIONS", "exitcode=66:halt_on_error=0")
        if env: e.update(env)
        self.p = subprocess.Popen([os.path.join(self.bdir, "texel")], stdin=subprocess.PIPE, stdout=subprocess.PIPE,
                                  stderr=subprocess.PIPE, text=True, bufsize=1, env=e, errors="replace")
        self.q = queue.Queue()
        self.transcript = []       # (">", cmd) / ("<", line)
        self.err = []
        threading.Thread(target=self._rd, daemon=True).start()
        threading.Thread(target=self._rde, daemon=True).start()

    def _rd(self):
        for line in self.p.stdout:
            self.q.put(line.rstrip("\n"))
        self.q.put(None)

    def _rde(self):
        for line in self.p.stderr:
            self.err.append(line.rstrip("\n"))

    def send(self, cmd):
        self.transcript.append((">", cmd))
        try:
            self.p.stdin.write(cmd + "\n"); self.p.stdin.flush()
        except (BrokenPipeError, OSError):
            raise EngineDied("stdin closed")

    def read_until(self, pred, timeout=60.0):
        """Collect output lines until pred(line) is true (inclusive).  Raises EngineDied / TimeoutError."""
        out, t_end = [], time.time() + timeout
        while True:
            try:
                line = self.q.get(timeout=max(0.01, t_end - time.time()))
            except queue.Empty:
                ex = TimeoutError(f"no matching output within {timeout}s; last lines: {out[-3:]}")
                ex.lines = out          # lines consumed so far (callers that keep a timeline need them)
                raise ex
            if line is None:
                ex = EngineDied(f"engine exited (rc={self.p.poll()}); stderr tail: {self.err[-8:]}")
                ex.lines = out
                raise ex
            self.transcript.append(("<", line)); out.append(line)
            if pred(line):
                return out

    def drain(self, wait=0.05):
        out = []
        t_end = time.time() + wait
        while True:
            try:
                line = self.q.get(timeout=max(0.001, t_end - time.time()))
            except queue.Empty:
                return out
            if line is None:
                return out
            self.transcript.append(("<", line)); out.append(line)

    def handshake(self):
        self.send("uci"); self.read_until(lambda l: l == "uciok")
        self.isready()

    def isready(self, timeout=120):
        self.send("isready"); return self.read_until(lambda l: l == "readyok", timeout)

    def setoption(self, name, value):
        self.send(f"setoption name {name} value {value}")

    def go(self, pos_cmd, go_cmd, timeout=120, stop_after=None):
        """Returns the output lines of the search up to and including `bestmove`."""
        self.send(pos_cmd); self.send(go_cmd)
        if stop_after is not None:
            time.sleep(stop_after); self.send("stop")
        return self.read_until(lambda l: l.startswith("bestmove"), timeout)

    def quit(self, timeout=20):
        try:
            self.send("quit")
        except EngineDied:
            pass
        try:
            rc = self.p.wait(timeout)
        except subprocess.TimeoutExpired:
            self.p.kill(); rc = None
        return rc

    def kill(self):
        try: self.p.kill()
        except OSError: pass


INFO_RE = re.compile(r"^info ")


def parse_info(line):
    """info depth 5 score cp 12 [lowerbound|upperbound] time .. nodes .. nps .. [multipv k] pv m1 m2 …"""
    t = line.split()
    d = {"raw": line}
    i = 1
    while i < len(t):
        k = t[i]
        if k in ("depth", "time", "nodes", "nps", "multipv", "tbhits", "hashfull", "seldepth", "currmovenumber"):
            d[k] = int(t[i + 1]); i += 2
        elif k == "score":
            d["score_kind"] = t[i + 1]; d["score"] = int(t[i + 2]); i += 3
            if i < len(t) and t[i] in ("lowerbound", "upperbound"):
                d["bound"] = t[i]; i += 1
        elif k == "currmove":
            d["currmove"] = t[i + 1]; i += 2
        elif k == "pv":
            d["pv"] = t[i + 1:]; break
        elif k == "string":
            d["string"] = " ".join(t[i + 1:]); break
        else:
            i += 1
    return d


def parse_bestmove(line):
    t = line.split()
    return {"best": t[1] if len(t) > 1 else None, "ponder": t[3] if len(t) > 3 and t[2] == "ponder" else None}
