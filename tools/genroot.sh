#!/bin/sh
# regenerate lean/TexelVerif.lean so that it imports every module (run after adding a Lean file)
cd "$(dirname "$0")/../lean" && ( echo "-- root: every module must be imported here (the check driver verifies this); regenerate with tools/genroot.sh"; find TexelVerif -name '*.lean' -not -path '*/Generated/*' | sort | sed 's/\.lean$//; s#/#.#g; s/^/import /' ) > TexelVerif.lean
