"""./check --setup : build everything from files on disk (offline)."""
import os, sys, time
import vlib

def main():
    t0 = time.time()
    import xlate
    xr = xlate.regenerate_all()      # Generated/*.lean must exist before the root (which imports Bridge/*) is built
    if not xr.ok:
        print("setup: translator tie broken:", {m: xr.modules[m]["translate_error"] or xr.modules[m]["errors"] for m in xr.failed()})
    ok, out = vlib.lake_build(["TexelVerif", "driver"], timeout=3600)
    print(out[-3000:])
    if not ok:
        print("setup: lake build failed"); return 1
    print(f"setup: lean built in {time.time()-t0:.0f}s", flush=True)
    for variant, targets in [("plain", ("vharness", "texel", "texelutil", "mknet")), ("asan", ("vharness", "texel"))]:
        t1 = time.time()
        bdir = vlib.cxx_build(variant, targets)
        print(f"setup: C++ variant {variant} built in {time.time()-t1:.0f}s", flush=True)
    vlib.net_file(os.path.join(vlib.BUILD, "plain"), "material", 1)
    print(f"setup: done in {time.time()-t0:.0f}s")
    return 0
