"""./check --setup : build everything from files on disk (offline)."""
import os, sys, time
import vlib

def main():
    t0 = time.time()
    import xlate
    xr = xlate.regenerate_all()      # Generated/*.lean must exist before the root (which imports Bridge/*) is built
    if not xr.ok:
        print("setup: translator tie broken:", {m: xr.modules[m]["translate_error"] or xr.modules[m]["errors"] for m in xr.failed()})
    ok, out = vlib.lake_build(["TexelVerif", "driver"], timeout=3600)
    print(out[-3000:])
    if not ok:
        # e.g. a Bridge theorem no longer checks against the current /repo: the owning check reports that itself;
        # build whatever else builds so that the other checks start warm
        print("setup: lake build of the root failed; building the driver and the property modules one by one", flush=True)
        okd, outd = vlib.lake_build(["driver"], timeout=3600)
        if not okd:
            print(outd[-2000:]); print("setup: driver build failed"); return 1
        import glob
        for f in sorted(glob.glob(os.path.join(vlib.LEAN, "TexelVerif", "Props", "*.lean"))):
            m = "TexelVerif.Props." + os.path.basename(f)[:-5]
            okm, _ = vlib.lake_build([m], timeout=3600)
            print(f"setup: {m}: {'ok' if okm else 'FAILED'}", flush=True)
    print(f"setup: lean built in {time.time()-t0:.0f}s", flush=True)
    for variant, targets in [("plain", ("vharness", "texel", "texelutil", "mknet")), ("asan", ("vharness", "texel"))]:
        t1 = time.time()
        bdir = vlib.cxx_build(variant, targets)
        print(f"setup: C++ variant {variant} built in {time.time()-t1:.0f}s", flush=True)
    vlib.net_file(os.path.join(vlib.BUILD, "plain"), "material", 1)
    print(f"setup: done in {time.time()-t0:.0f}s")
    return 0
