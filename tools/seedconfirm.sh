#!/bin/bash
# usage: seedconfirm.sh <name> <seed out dir>   — confirm a seeded change in a scratch worktree:
#   demo passes on pristine, fails with the patch; stock stable_pass tests still pass with the patch.
# writes <out dir>/confirm.txt
set -u
NAME=$1; OUT=$2
WT=/tmp/seedchk/$NAME
rm -rf $WT; mkdir -p /tmp/seedchk
git -C /repo worktree add --detach $WT HEAD >/dev/null 2>&1
LOG=$OUT/confirm.txt
{
echo "== confirm $NAME at /repo $(git -C /repo rev-parse --short HEAD) $(date -u)"
( cd $OUT/demo && timeout 1800 ./run.sh $WT ) > $OUT/demo_pristine.log 2>&1; P=$?
echo "demo on pristine: exit $P"; tail -3 $OUT/demo_pristine.log
git -C $WT apply $OUT/patch.diff || echo "PATCH DOES NOT APPLY"
( cd $OUT/demo && timeout 1800 ./run.sh $WT ) > $OUT/demo_patched.log 2>&1; Q=$?
echo "demo with patch: exit $Q"; tail -3 $OUT/demo_patched.log
python3 /verif/tools/baseline.py $WT 2>&1 | tail -1
echo "RESULT pristine=$P patched=$Q"
} > $LOG 2>&1
git -C /repo worktree remove --force $WT
rm -rf $WT
tail -2 $LOG
