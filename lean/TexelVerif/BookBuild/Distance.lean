import TexelVerif.BookBuild.Ops
/-!
# BookBuild: the local depth equations mean "shortest distance from the root"

`FixedPoint` states the depth of a node by the local equation `depth = 1 + min parent depth` (root: 0).  On a book with
consistent links this is the length of a shortest path of child links from the root.
-/
namespace Bk
open Book

/-- `Path b i j len`: there is a chain of `len` child links from node `i` to node `j` -/
inductive Path (b : Book) (i : Nat) : Nat → Nat → Prop
  | refl : Path b i i 0
  | step {j k len : Nat} : Path b i j len → k ∈ childIds (b.nd j) → Path b i k (len + 1)

theorem path_valid_and_depth_le (b : Book) (hS : StructOk b) :
    ∀ {j len : Nat}, Path b 0 j len → j < b.size ∧ (b.nd j).depth ≤ len := by
  intro j len h
  induction h with
  | refl => exact ⟨hS.nonempty, by rw [hS.root.1]; omega⟩
  | step hp hk ih =>
    rename_i j k len
    have ih' := ih
    have hk' := wf_child b hS.wf j k ih'.1 hk
    have hk0 : k ≠ 0 := by
      rintro rfl
      have := hk'.2
      simp [parentIds, hS.root.2.1] at this
    have := (hS.depth k (by omega) hk'.1).2 j hk'.2
    exact ⟨hk'.1, by omega⟩

theorem path_of_depth (b : Book) (hS : StructOk b) : ∀ (d j : Nat), j < b.size → (b.nd j).depth = d → Path b 0 j d := by
  intro d
  induction d with
  | zero =>
    intro j hj hd
    by_cases h0 : j = 0
    · subst h0; exact Path.refl
    · obtain ⟨q, _, he⟩ := (hS.depth j (by omega) hj).1
      omega
  | succ d ih =>
    intro j hj hd
    have h0 : j ≠ 0 := by rintro rfl; rw [hS.root.1] at hd; omega
    obtain ⟨q, hq, he⟩ := (hS.depth j (by omega) hj).1
    have hq' := wf_parent b hS.wf j q hj hq
    exact Path.step (ih q hq'.1 (by omega)) hq'.2

/-- the stored depth is the length of a shortest chain of child links from the root -/
theorem depth_is_distance (b : Book) (hS : StructOk b) (j : Nat) (hj : j < b.size) :
    Path b 0 j (b.nd j).depth ∧ ∀ len, Path b 0 j len → (b.nd j).depth ≤ len :=
  ⟨path_of_depth b hS _ j hj rfl, fun _ h => (path_valid_and_depth_le b hS h).2⟩

end Bk
