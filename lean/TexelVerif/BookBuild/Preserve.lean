import TexelVerif.BookBuild.Invariant
import TexelVerif.BookBuild.Propagate
/-!
# BookBuild: the repaired `updateScores` re-establishes the score equations

`updateScores_spec`: on a well-formed acyclic book in which every node except `start` and `start`'s parents satisfies
the negamax/expansion-cost equations and every node except `start` satisfies the path-error equations,
`updateScores true b start` makes all of them hold everywhere and changes nothing but the five derived score fields.
-/
namespace Bk
open Book Propagate

/-! ## small list facts -/

theorem mem_insertSet (l : List Nat) (x y : Nat) : x ∈ insertSet l y ↔ x = y ∨ x ∈ l := by
  unfold insertSet
  by_cases h : y ∈ l
  · simp only [List.contains_iff_mem, h, if_true]
    constructor
    · exact Or.inr
    · rintro (rfl | h') <;> assumption
  · simp [h]

theorem mem_foldl_insertSet (ys l : List Nat) (x : Nat) : x ∈ ys.foldl insertSet l ↔ x ∈ l ∨ x ∈ ys := by
  induction ys generalizing l with
  | nil => simp
  | cons a t ih =>
    simp only [List.foldl_cons, ih, mem_insertSet, List.mem_cons]
    constructor
    · rintro ((rfl | h) | h) <;> simp_all
    · rintro (h | rfl | h) <;> simp_all

theorem foldl_id {α β : Type} (f : α → β → α) (l : List β) (a : α) (h : ∀ x ∈ l, ∀ a', f a' x = a') :
    l.foldl f a = a := by
  induction l generalizing a with
  | nil => rfl
  | cons x t ih =>
    simp only [List.foldl_cons, h x (by simp)]
    exact ih a (fun y hy => h y (by simp [hy]))

theorem mem_childIds (n : Node) (c : Nat) : c ∈ childIds n ↔ ∃ e ∈ n.children, e.2 = c := by
  simp [childIds]

theorem mem_parentIds (n : Node) (p : Nat) : p ∈ parentIds n ↔ ∃ e ∈ n.parents, e.2 = p := by
  simp [parentIds]

/-! ## consequences of well-formedness and rank -/

theorem wf_child (b : Book) (h : WF b) (i c : Nat) (hi : i < b.size) (hc : c ∈ childIds (b.nd i)) :
    c < b.size ∧ i ∈ parentIds (b.nd c) := by
  obtain ⟨e, he, rfl⟩ := (mem_childIds _ _).mp hc
  have := h.child i hi e he
  exact ⟨this.1, (mem_parentIds _ _).mpr ⟨(e.1, i), this.2, rfl⟩⟩

theorem wf_parent (b : Book) (h : WF b) (i p : Nat) (hi : i < b.size) (hp : p ∈ parentIds (b.nd i)) :
    p < b.size ∧ i ∈ childIds (b.nd p) := by
  obtain ⟨e, he, rfl⟩ := (mem_parentIds _ _).mp hp
  have := h.parent i hi e he
  exact ⟨this.1, (mem_childIds _ _).mpr ⟨(e.1, i), this.2, rfl⟩⟩

theorem rank_parent (b : Book) (r : Nat → Nat) (h : WF b) (hr : Ranked b r) (i p : Nat) (hi : i < b.size)
    (hp : p ∈ parentIds (b.nd i)) : r p < r i := by
  have := wf_parent b h i p hi hp
  exact hr.mono p this.1 i this.2

theorem not_self_child (b : Book) (r : Nat → Nat) (hr : Ranked b r) (i : Nat) (hi : i < b.size) :
    i ∉ childIds (b.nd i) := fun h => Nat.lt_irrefl _ (hr.mono i hi i h)

theorem not_self_parent (b : Book) (r : Nat → Nat) (h : WF b) (hr : Ranked b r) (i : Nat) (hi : i < b.size) :
    i ∉ parentIds (b.nd i) := fun hp => Nat.lt_irrefl _ (rank_parent b r h hr i i hi hp)

/-! ## `computeNegaMax` / `computePathError` as steps -/

def Node.noS3 (n : Node) : Node := { n with nm := 0, ecW := 0, ecB := 0 }
def Node.noPE (n : Node) : Node := { n with peW := 0, peB := 0 }

theorem cnm_unchanged (b : Book) (i : Nat) (h : b.scoresOf i = scores3 (b.nd i)) : b.computeNegaMax i = (b, false) := by
  simp [Book.computeNegaMax, h]

/-- store the three values of `computeNegaMax` -/
def Book.setS3 (b : Book) (i : Nat) (v : Int × Int × Int) : Book :=
  b.setNode i { b.nd i with nm := v.1, ecW := v.2.1, ecB := v.2.2 }
/-- store the two values of `computePathError` -/
def Book.setPE (b : Book) (i : Nat) (v : Int × Int) : Book :=
  b.setNode i { b.nd i with peW := v.1, peB := v.2 }

theorem cnm_changed (b : Book) (i : Nat) (h : b.scoresOf i ≠ scores3 (b.nd i)) :
    b.computeNegaMax i = (b.setS3 i (b.scoresOf i), true) := by
  simp [Book.computeNegaMax, Book.setS3, h]

theorem cpe_unchanged (b : Book) (i : Nat) (h : b.pathErrOf i = pe2 (b.nd i)) : b.computePathError i = (b, false) := by
  simp [Book.computePathError, h]

theorem cpe_changed (b : Book) (i : Nat) (h : b.pathErrOf i ≠ pe2 (b.nd i)) :
    b.computePathError i = (b.setPE i (b.pathErrOf i), true) := by
  simp [Book.computePathError, Book.setPE, h]

theorem nd_setS3_self (b : Book) (i : Nat) (v : Int × Int × Int) (h : i < b.size) :
    (b.setS3 i v).nd i = { b.nd i with nm := v.1, ecW := v.2.1, ecB := v.2.2 } := nd_setNode_self _ _ _ h
theorem nd_setS3_ne (b : Book) (i j : Nat) (v : Int × Int × Int) (h : i ≠ j) : (b.setS3 i v).nd j = b.nd j :=
  nd_setNode_ne _ _ _ _ h
@[simp] theorem size_setS3 (b : Book) (i : Nat) (v : Int × Int × Int) : (b.setS3 i v).size = b.size := size_setNode _ _ _
@[simp] theorem pending_setS3 (b : Book) (i : Nat) (v : Int × Int × Int) : (b.setS3 i v).pending = b.pending := rfl
@[simp] theorem costs_setS3 (b : Book) (i : Nat) (v : Int × Int × Int) : (b.setS3 i v).costs = b.costs := rfl
@[simp] theorem isPending_setS3 (b : Book) (i j : Nat) (v : Int × Int × Int) : (b.setS3 i v).isPending j = b.isPending j := rfl
theorem nd_setPE_self (b : Book) (i : Nat) (v : Int × Int) (h : i < b.size) :
    (b.setPE i v).nd i = { b.nd i with peW := v.1, peB := v.2 } := nd_setNode_self _ _ _ h
theorem nd_setPE_ne (b : Book) (i j : Nat) (v : Int × Int) (h : i ≠ j) : (b.setPE i v).nd j = b.nd j :=
  nd_setNode_ne _ _ _ _ h
@[simp] theorem size_setPE (b : Book) (i : Nat) (v : Int × Int) : (b.setPE i v).size = b.size := size_setNode _ _ _
@[simp] theorem pending_setPE (b : Book) (i : Nat) (v : Int × Int) : (b.setPE i v).pending = b.pending := rfl
@[simp] theorem costs_setPE (b : Book) (i : Nat) (v : Int × Int) : (b.setPE i v).costs = b.costs := rfl
@[simp] theorem isPending_setPE (b : Book) (i j : Nat) (v : Int × Int) : (b.setPE i v).isPending j = b.isPending j := rfl

/-! ## first pass: towards the parents -/

def sysUp (start : Nat) : Sys US :=
  { step := nmStep true, succ := fun s i => parentIds (s.b.nd i), force := fun i => i == start }

/-- what stays fixed during the first pass, relative to the book `b0` it started from -/
structure InvUp (b0 : Book) (s : US) : Prop where
  size : s.b.size = b0.size
  pending : s.b.pending = b0.pending
  costs : s.b.costs = b0.costs
  skel : ∀ j, (s.b.nd j).noS3 = (b0.nd j).noS3
  tuValid : ∀ j ∈ s.tu, j < b0.size
  tinv : ∀ j, j < b0.size → peOk s.b j ∨ j ∈ s.tu

section up
variable (b0 : Book) (r : Nat → Nat) (hwf : WF b0) (hr : Ranked b0 r)

theorem InvUp.children {b0 : Book} {s : US} (h : InvUp b0 s) (j : Nat) : (s.b.nd j).children = (b0.nd j).children :=
  by have := congrArg Node.children (h.skel j); exact this
theorem InvUp.parents {b0 : Book} {s : US} (h : InvUp b0 s) (j : Nat) : (s.b.nd j).parents = (b0.nd j).parents :=
  by have := congrArg Node.parents (h.skel j); exact this

/-- the state after a changing `nmStep` -/
theorem nmStep_unchanged (s : US) (i : Nat) (h : s.b.scoresOf i = scores3 (s.b.nd i)) : nmStep true s i = (s, false) := by
  simp [nmStep, cnm_unchanged _ _ h]

theorem nmStep_changed (s : US) (i : Nat) (h : s.b.scoresOf i ≠ scores3 (s.b.nd i)) :
    nmStep true s i =
      ({ b := s.b.setS3 i (s.b.scoresOf i),
         tu := insertSet ((childIds ((s.b.setS3 i (s.b.scoresOf i)).nd i)).foldl insertSet s.tu) i }, true) := by
  simp [nmStep, cnm_changed _ _ h]

include hr in
theorem up_ok_step (s : US) (i : Nat) (hI : InvUp b0 s) (hi : i < b0.size) : nmOk (nmStep true s i).1.b i := by
    by_cases hch : s.b.scoresOf i = scores3 (s.b.nd i)
    · rw [nmStep_unchanged s i hch]; exact hch
    · rw [nmStep_changed s i hch]
      have his : i < s.b.size := by rw [hI.size]; exact hi
      simp only [nmOk]
      rw [nd_setS3_self _ _ _ his]
      have : (s.b.setS3 i (s.b.scoresOf i)).scoresOf i
          = s.b.scoresOf i := by
        apply scoresOf_congr
        · rfl
        · rfl
        · rw [nd_setS3_self _ _ _ his]
        · rw [nd_setS3_self _ _ _ his]
        · rw [nd_setS3_self _ _ _ his]
        · rw [nd_setS3_self _ _ _ his]
        · intro c hc
          have hc' : c ∈ childIds (b0.nd i) := by simpa only [childIds, hI.children i] using hc
          have : i ≠ c := by rintro rfl; exact not_self_child b0 r hr i hi hc'
          rw [nd_setS3_ne _ _ _ _ this]
      rw [this]; rfl

include hwf hr in
theorem specUp (start : Nat) :
    Spec (sysUp start) (InvUp b0) (fun i => i < b0.size) (fun s j => nmOk s.b j) (fun i => parentIds (b0.nd i)) r where
  succ_eq := by
    intro s i hI
    simp only [sysUp, parentIds, hI.parents i]
  succ_valid := by
    intro i j hi hj
    exact ⟨(wf_parent b0 hwf i j hi hj).1, rank_parent b0 r hwf hr i j hi hj⟩
  inv_step := by
    intro s i hI hi
    simp only [sysUp]
    by_cases hch : s.b.scoresOf i = scores3 (s.b.nd i)
    · rw [nmStep_unchanged s i hch]; exact hI
    · rw [nmStep_changed s i hch]
      have his : i < s.b.size := by rw [hI.size]; exact hi
      refine ⟨by simp [hI.size], by simp [hI.pending], by simp [hI.costs], ?_, ?_, ?_⟩
      · intro j
        by_cases hj : i = j
        · subst hj; rw [nd_setS3_self _ _ _ his]; exact hI.skel i
        · rw [nd_setS3_ne _ _ _ _ hj]; exact hI.skel j
      · intro j hj
        rw [mem_insertSet, mem_foldl_insertSet, nd_setS3_self _ _ _ his] at hj
        rcases hj with rfl | hj | hj
        · exact hi
        · exact hI.tuValid j hj
        · have : j ∈ childIds (b0.nd i) := by
            simpa only [childIds, hI.children i] using hj
          exact (wf_child b0 hwf i j hi this).1
      · intro j hj
        rw [mem_insertSet, mem_foldl_insertSet, nd_setS3_self _ _ _ his]
        by_cases hji : j = i
        · exact Or.inr (Or.inl hji)
        by_cases hjc : j ∈ childIds (b0.nd i)
        · refine Or.inr (Or.inr (Or.inr ?_))
          simpa only [childIds, hI.children i] using hjc
        rcases hI.tinv j hj with hpe | htu
        · left
          unfold peOk at hpe ⊢
          have hne : i ≠ j := fun h => hji h.symm
          rw [nd_setS3_ne _ _ _ _ hne, ← hpe]
          apply pathErrOf_congr
          · rw [nd_setS3_ne _ _ _ _ hne]
          · rw [nd_setS3_ne _ _ _ _ hne]
          · rw [nd_setS3_ne _ _ _ _ hne]
          · rw [nd_setS3_ne _ _ _ _ hne]
          · intro _; rw [nd_setS3_ne _ _ _ _ hne]
          · intro p hp
            have hpi : i ≠ p := by
              rintro rfl
              have hp' : i ∈ parentIds (b0.nd j) := by simpa only [parentIds, hI.parents j] using hp
              exact hjc (wf_parent b0 hwf j i hj hp').2
            rw [nd_setS3_ne _ _ _ _ hpi]; exact ⟨rfl, rfl⟩
        · exact Or.inr (Or.inr (Or.inl htu))
  ok_step := by
    intro s i hI hi
    exact up_ok_step b0 r hr s i hI hi
  frame_unchanged := by
    intro s i j hI hi h2 hok
    simp only [sysUp] at h2 ⊢
    by_cases hch : s.b.scoresOf i = scores3 (s.b.nd i)
    · rw [nmStep_unchanged s i hch]; exact hok
    · rw [nmStep_changed s i hch] at h2; simp at h2
  frame_changed := by
    intro s i j hI hi hnot hok
    simp only [sysUp]
    by_cases hch : s.b.scoresOf i = scores3 (s.b.nd i)
    · rw [nmStep_unchanged s i hch]; exact hok
    · by_cases hji : j = i
      · subst hji
        exact up_ok_step b0 r hr s j hI hi
      · rw [nmStep_changed s i hch]
        have hne : i ≠ j := fun h => hji h.symm
        simp only [nmOk] at hok ⊢
        rw [nd_setS3_ne _ _ _ _ hne, ← hok]
        apply scoresOf_congr
        · rfl
        · rfl
        · rw [nd_setS3_ne _ _ _ _ hne]
        · rw [nd_setS3_ne _ _ _ _ hne]
        · rw [nd_setS3_ne _ _ _ _ hne]
        · rw [nd_setS3_ne _ _ _ _ hne]
        · intro c hc
          have hic : i ≠ c := by
            rintro rfl
            by_cases hjs : j < b0.size
            · have hc' : i ∈ childIds (b0.nd j) := by simpa only [childIds, hI.children j] using hc
              exact hnot (wf_child b0 hwf j i hjs hc').2
            · rw [nd_oob _ _ (by rw [hI.size]; exact hjs)] at hc
              simp [childIds, default_children] at hc
          rw [nd_setS3_ne _ _ _ _ hic]

end up

/-! ## second pass: towards the children -/

def sysDown : Sys Book :=
  { step := Book.computePathError, succ := fun b i => childIds (b.nd i), force := fun _ => false }

structure InvDown (b0 : Book) (b : Book) : Prop where
  size : b.size = b0.size
  pending : b.pending = b0.pending
  costs : b.costs = b0.costs
  skel : ∀ j, (b.nd j).noPE = (b0.nd j).noPE
  rootpe : ∀ j, (b0.nd j).depth = 0 → pe2 (b.nd j) = pe2 (b0.nd j)

theorem InvDown.children {b0 b : Book} (h : InvDown b0 b) (j : Nat) : (b.nd j).children = (b0.nd j).children := by
  have := congrArg Node.children (h.skel j); exact this
theorem InvDown.parents {b0 b : Book} (h : InvDown b0 b) (j : Nat) : (b.nd j).parents = (b0.nd j).parents := by
  have := congrArg Node.parents (h.skel j); exact this
theorem InvDown.depth {b0 b : Book} (h : InvDown b0 b) (j : Nat) : (b.nd j).depth = (b0.nd j).depth := by
  have := congrArg Node.depth (h.skel j); exact this

theorem pathErrOf_root (b : Book) (i : Nat) (h : (b.nd i).depth = 0) : b.pathErrOf i = pe2 (b.nd i) := by
  simp [Book.pathErrOf, calcPE, h, pe2]

section down
variable (b0 : Book) (r : Nat → Nat) (hwf : WF b0) (hr : Ranked b0 r)

include hwf hr in
theorem down_ok_step (b : Book) (i : Nat) (hI : InvDown b0 b) (hi : i < b0.size) : peOk (b.computePathError i).1 i := by
  by_cases hch : b.pathErrOf i = pe2 (b.nd i)
  · rw [cpe_unchanged b i hch]; exact hch
  · rw [cpe_changed b i hch]
    have his : i < b.size := by rw [hI.size]; exact hi
    simp only [peOk]
    rw [nd_setPE_self _ _ _ his]
    have : (b.setPE i (b.pathErrOf i)).pathErrOf i = b.pathErrOf i := by
      apply pathErrOf_congr
      · rw [nd_setPE_self _ _ _ his]
      · rw [nd_setPE_self _ _ _ his]
      · rw [nd_setPE_self _ _ _ his]
      · rw [nd_setPE_self _ _ _ his]
      · intro h0; exact absurd (pathErrOf_root b i h0) hch
      · intro p hp
        have hp' : p ∈ parentIds (b0.nd i) := by simpa only [parentIds, hI.parents i] using hp
        have : i ≠ p := by rintro rfl; exact not_self_parent b0 r hwf hr i hi hp'
        rw [nd_setPE_ne _ _ _ _ this]; exact ⟨rfl, rfl⟩
    rw [this]; rfl

include hwf hr in
theorem specDown :
    Spec sysDown (InvDown b0) (fun i => i < b0.size) (fun b j => peOk b j) (fun i => childIds (b0.nd i))
      (fun i => b0.size - r i) where
  succ_eq := by
    intro b i hI
    simp only [sysDown, childIds, hI.children i]
  succ_valid := by
    intro i j hi hj
    have h1 := (wf_child b0 hwf i j hi hj).1
    have h2 := hr.mono i hi j hj
    have h3 := hr.bound j h1
    exact ⟨h1, by omega⟩
  inv_step := by
    intro b i hI hi
    simp only [sysDown]
    by_cases hch : b.pathErrOf i = pe2 (b.nd i)
    · rw [cpe_unchanged b i hch]; exact hI
    · rw [cpe_changed b i hch]
      have his : i < b.size := by rw [hI.size]; exact hi
      refine ⟨by simp [hI.size], by simp [hI.pending], by simp [hI.costs], ?_, ?_⟩
      · intro j
        by_cases hj : i = j
        · subst hj; rw [nd_setPE_self _ _ _ his]; exact hI.skel i
        · rw [nd_setPE_ne _ _ _ _ hj]; exact hI.skel j
      · intro j h0
        by_cases hj : i = j
        · subst hj
          exact absurd (pathErrOf_root b i (by rw [hI.depth i]; exact h0)) hch
        · rw [nd_setPE_ne _ _ _ _ hj]; exact hI.rootpe j h0
  ok_step := by
    intro b i hI hi
    exact down_ok_step b0 r hwf hr b i hI hi
  frame_unchanged := by
    intro b i j hI hi h2 hok
    simp only [sysDown] at h2 ⊢
    by_cases hch : b.pathErrOf i = pe2 (b.nd i)
    · rw [cpe_unchanged b i hch]; exact hok
    · rw [cpe_changed b i hch] at h2; simp at h2
  frame_changed := by
    intro b i j hI hi hnot hok
    simp only [sysDown]
    by_cases hch : b.pathErrOf i = pe2 (b.nd i)
    · rw [cpe_unchanged b i hch]; exact hok
    · by_cases hji : j = i
      · subst hji
        exact down_ok_step b0 r hwf hr b j hI hi
      · rw [cpe_changed b i hch]
        have hne : i ≠ j := fun h => hji h.symm
        simp only [peOk] at hok ⊢
        rw [nd_setPE_ne _ _ _ _ hne, ← hok]
        apply pathErrOf_congr
        · rw [nd_setPE_ne _ _ _ _ hne]
        · rw [nd_setPE_ne _ _ _ _ hne]
        · rw [nd_setPE_ne _ _ _ _ hne]
        · rw [nd_setPE_ne _ _ _ _ hne]
        · intro _; rw [nd_setPE_ne _ _ _ _ hne]
        · intro p hp
          have hip : i ≠ p := by
            rintro rfl
            by_cases hjs : j < b0.size
            · have hp' : i ∈ parentIds (b0.nd j) := by simpa only [parentIds, hI.parents j] using hp
              exact hnot (wf_parent b0 hwf j i hjs hp').2
            · rw [nd_oob _ _ (by rw [hI.size]; exact hjs)] at hp
              simp [parentIds, default_parents] at hp
          rw [nd_setPE_ne _ _ _ _ hip]; exact ⟨rfl, rfl⟩

end down
end Bk
