import TexelVerif.BookBuild.LinkSpec
/-! # BookBuild: `addLink_spec` (see `LinkSpec.lean`) -/
namespace Bk
open Book Propagate

theorem WF.of_links {b' b : Book} (hs : b'.size = b.size) (hc : ∀ j, (b'.nd j).children = (b.nd j).children)
    (hp : ∀ j, (b'.nd j).parents = (b.nd j).parents) (hw : WF b) : WF b' := by
  constructor
  · intro i hi e he
    rw [hs] at hi; rw [hc i] at he
    have := hw.child i hi e he
    rw [hs, hp e.2]; exact this
  · intro i hi e he
    rw [hs] at hi; rw [hp i] at he
    have := hw.parent i hi e he
    rw [hs, hc e.2]; exact this

theorem Ranked.of_links {b' b : Book} {r : Nat → Nat} (hs : b'.size = b.size)
    (hc : ∀ j, (b'.nd j).children = (b.nd j).children) (hr : Ranked b r) : Ranked b' r := by
  constructor
  · intro i hi; rw [hs] at hi ⊢; exact hr.bound i hi
  · intro i hi c hcm
    rw [hs] at hi
    simp only [childIds, hc i] at hcm
    exact hr.mono i hi c hcm

section addlink
variable (b : Book) (r : Nat → Nat) (c mv p : Nat) (hI : LinkInv b r) (hp : p < b.size) (hc : c < b.size)
  (hc0 : c ≠ 0) (hrk : r p < r c) (hpl : p = 0 ∨ parentIds (b.nd p) ≠ [])
  (hpar : parentIds (b.nd c) = [] ∨ ((b.nd p).depth + (b.nd c).depth) % 2 = 1)
  (huniq : ∀ x ∈ (b.nd p).children, x.1 = mv → x = (mv, c))

include hrk in
theorem al_ne : p ≠ c := by rintro rfl; omega

include hp hc hrk in
theorem al_children (j : Nat) :
    ((linkOnly b c mv p).nd j).children = if j = p then insertChild (b.nd p).children mv c else (b.nd j).children := by
  have hne := al_ne r c p hrk
  rw [nd_linkOnly b c mv p hp hc hne]
  by_cases h1 : j = c
  · subst h1; simp [Ne.symm hne]
  · by_cases h2 : j = p
    · subst h2; simp [h1]
    · simp [h1, h2]

include hp hc hrk in
theorem al_parents (j : Nat) :
    ((linkOnly b c mv p).nd j).parents = if j = c then insertParent (b.nd c).parents mv p else (b.nd j).parents := by
  have hne := al_ne r c p hrk
  rw [nd_linkOnly b c mv p hp hc hne]
  by_cases h1 : j = c
  · subst h1; simp
  · by_cases h2 : j = p
    · subst h2; simp [h1]
    · simp [h1, h2]

include hp hc hrk in
theorem al_depth (j : Nat) : ((linkOnly b c mv p).nd j).depth = (b.nd j).depth := by
  have hne := al_ne r c p hrk
  rw [nd_linkOnly b c mv p hp hc hne]
  by_cases h1 : j = c
  · subst h1; simp
  · by_cases h2 : j = p
    · subst h2; simp [h1]
    · simp [h1, h2]

include hp hc hrk in
theorem al_scal (j : Nat) : ((linkOnly b c mv p).nd j).scal = (b.nd j).scal := by
  have hne := al_ne r c p hrk
  rw [nd_linkOnly b c mv p hp hc hne]
  by_cases h1 : j = c
  · subst h1; simp [Node.scal]
  · by_cases h2 : j = p
    · subst h2; simp [h1, Node.scal]
    · simp [h1, h2]

include hp hc hrk in
theorem al_parentIds_sub (j q : Nat) (h : q ∈ parentIds (b.nd j)) : q ∈ parentIds ((linkOnly b c mv p).nd j) := by
  obtain ⟨e, he, rfl⟩ := (mem_parentIds _ _).mp h
  refine (mem_parentIds _ _).mpr ⟨e, ?_, rfl⟩
  rw [al_parents b r c mv p hp hc hrk]
  split
  · next h1 => subst h1; exact (mem_insertParent _ _ _ _).mpr (Or.inl he)
  · exact he

include hp hc hrk in
theorem al_parentIds_cases (j q : Nat) (h : q ∈ parentIds ((linkOnly b c mv p).nd j)) :
    q ∈ parentIds (b.nd j) ∨ (j = c ∧ q = p) := by
  obtain ⟨e, he, rfl⟩ := (mem_parentIds _ _).mp h
  rw [al_parents b r c mv p hp hc hrk] at he
  split at he
  · next h1 =>
    rcases (mem_insertParent _ _ _ _).mp he with h | h
    · subst h1; exact Or.inl ((mem_parentIds _ _).mpr ⟨e, h, rfl⟩)
    · exact Or.inr ⟨h1, by rw [h]⟩
  · exact Or.inl ((mem_parentIds _ _).mpr ⟨e, he, rfl⟩)

include hp hc hrk in
theorem al_childIds_cases (j q : Nat) (h : q ∈ childIds ((linkOnly b c mv p).nd j)) :
    q ∈ childIds (b.nd j) ∨ (j = p ∧ q = c) := by
  obtain ⟨e, he, rfl⟩ := (mem_childIds _ _).mp h
  rw [al_children b r c mv p hp hc hrk] at he
  split at he
  · next h1 =>
    rcases mem_insertChild_cases _ _ _ _ he with h | h
    · subst h1; exact Or.inl ((mem_childIds _ _).mpr ⟨e, h, rfl⟩)
    · exact Or.inr ⟨h1, by rw [h]⟩
  · exact Or.inl ((mem_childIds _ _).mpr ⟨e, he, rfl⟩)

include hI hp hc hrk huniq in
theorem al_wf : WF (linkOnly b c mv p) := by
  constructor
  · intro i hi e he
    rw [size_linkOnly] at hi ⊢
    rw [al_children b r c mv p hp hc hrk] at he
    have hold : e ∈ (b.nd i).children → e.2 < b.size ∧ (e.1, i) ∈ ((linkOnly b c mv p).nd e.2).parents := by
      intro h
      have := hI.wf.child i hi e h
      refine ⟨this.1, ?_⟩
      rw [al_parents b r c mv p hp hc hrk]
      split
      · next h1 => rw [← h1]; exact (mem_insertParent _ _ _ _).mpr (Or.inl this.2)
      · exact this.2
    split at he
    · next h1 =>
      subst h1
      rcases mem_insertChild_cases _ _ _ _ he with h | h
      · exact hold h
      · subst h
        refine ⟨hc, ?_⟩
        rw [al_parents b r c mv i hp hc hrk]
        simp only [if_true]
        exact (mem_insertParent _ _ _ _).mpr (Or.inr rfl)
    · exact hold he
  · intro i hi e he
    rw [size_linkOnly] at hi ⊢
    rw [al_parents b r c mv p hp hc hrk] at he
    have hold : e ∈ (b.nd i).parents → e.2 < b.size ∧ (e.1, i) ∈ ((linkOnly b c mv p).nd e.2).children := by
      intro h
      have := hI.wf.parent i hi e h
      refine ⟨this.1, ?_⟩
      rw [al_children b r c mv p hp hc hrk]
      split
      · next h1 => rw [← h1]; exact mem_insertChild_old _ _ _ _ this.2
      · exact this.2
    split at he
    · next h1 =>
      subst h1
      rcases (mem_insertParent _ _ _ _).mp he with h | h
      · exact hold h
      · subst h
        refine ⟨hp, ?_⟩
        rw [al_children b r i mv p hp hc hrk]
        simp only [if_true]
        exact mem_insertChild_new _ _ _ huniq
    · exact hold he

include hI hp hc hrk in
theorem al_ranked : Ranked (linkOnly b c mv p) r := by
  constructor
  · intro i hi; rw [size_linkOnly] at hi ⊢; exact hI.rk.bound i hi
  · intro i hi q hq
    rw [size_linkOnly] at hi
    rcases al_childIds_cases b r c mv p hp hc hrk i q hq with h | ⟨h1, h2⟩
    · exact hI.rk.mono i hi q h
    · subst h1; subst h2; exact hrk

/-- in `b` every node below the size is of the other depth parity than each of its parents -/
theorem parentsParity_of_parityOk (b : Book) (hw : WF b) (hpar : ParityOk b) (j : Nat) : ParentsParity b j := by
  intro q hq
  by_cases hj : j < b.size
  · have := wf_parent b hw j q hj hq
    exact hpar q this.1 j this.2
  · rw [nd_oob _ _ hj] at hq; simp [parentIds, default_parents] at hq

include hI hp hc hrk hpar in
theorem al_parentsParity (j : Nat) (hj : j ≠ c ∨ parentIds (b.nd c) ≠ []) : ParentsParity (linkOnly b c mv p) j := by
  intro q hq
  rw [al_depth b r c mv p hp hc hrk, al_depth b r c mv p hp hc hrk]
  rcases al_parentIds_cases b r c mv p hp hc hrk j q hq with h | ⟨h1, h2⟩
  · exact parentsParity_of_parityOk b hI.wf hI.par j q h
  · subst h1; subst h2
    rcases hpar with h | h
    · rcases hj with h' | h'
      · exact absurd rfl h'
      · exact absurd h h'
    · exact h

include hI hp hc hc0 hrk hpl hpar huniq in
theorem addLink_spec : LinkInv (addLink b c mv p) r ∧ AL b (addLink b c mv p) c mv p := by
  have hne := al_ne r c p hrk
  have hwf2 := al_wf b r c mv p hI hp hc hrk huniq
  have hr2 := al_ranked b r c mv p hI hp hc hrk
  have hch := al_children b r c mv p hp hc hrk
  have hpa := al_parents b r c mv p hp hc hrk
  have hde := al_depth b r c mv p hp hc hrk
  -- the parent has a depth below INT_MAX
  have hpfin : (b.nd p).depth + 1 ≤ DEPTH_INF := by
    have h1 := hI.dle p hp hpl
    have h2 := hI.rk.bound p hp
    have h3 := hI.small
    omega
  -- parents of nodes other than c are unchanged
  have hpid : ∀ j, j ≠ c → parentIds ((linkOnly b c mv p).nd j) = parentIds (b.nd j) := by
    intro j hj; simp only [parentIds, hpa j, hj, if_false]
  have hpc : p ∈ parentIds ((linkOnly b c mv p).nd c) := by
    refine (mem_parentIds _ _).mpr ⟨(mv, p), ?_, rfl⟩
    rw [hpa c]; simp only [if_true]; exact (mem_insertParent _ _ _ _).mpr (Or.inr rfl)
  have hQ2 : ∀ i, i < (linkOnly b c mv p).size → childIds ((linkOnly b c mv p).nd i) ≠ [] →
      ParentsParity (linkOnly b c mv p) i := by
    intro i hi hnil
    rw [size_linkOnly] at hi
    apply al_parentsParity b r c mv p hI hp hc hrk hpar
    by_cases hic : i = c
    · right
      subst hic
      intro hpn
      have hcn : childIds ((linkOnly b i mv p).nd i) = childIds (b.nd i) := by
        simp only [childIds, hch i, Ne.symm hne, if_false]
      rw [hcn] at hnil
      exact hnil (hI.orphan i hc hc0 hpn)
    · exact Or.inl hic
  have hI0 : InvDepth (linkOnly b c mv p) (linkOnly b c mv p) := by
    refine ⟨rfl, rfl, rfl, fun _ => rfl, fun _ => Nat.le_refl _, fun _ _ => rfl, fun _ => Iff.rfl, ?_, fun _ _ => rfl⟩
    intro j hj hnil
    rw [size_linkOnly] at hj
    by_cases hjc : j = c
    · subst hjc
      by_cases hfr : parentIds (b.nd j) = []
      · refine ⟨p, hpc, ?_⟩
        rw [hde, hde, hI.fresh j hc hc0 hfr]; exact hpfin
      · rcases hI.dep j hc with h | h
        · exact absurd h hfr
        · obtain ⟨q, hq, he⟩ := h.1
          refine ⟨q, al_parentIds_sub b r j mv p hp hc hrk j q hq, ?_⟩
          rw [hde, hde]; omega
    · rw [hpid j hjc] at hnil ⊢
      rcases hI.dep j hj with h | h
      · exact absurd h hnil
      · obtain ⟨q, hq, he⟩ := h.1
        refine ⟨q, hq, ?_⟩
        rw [hde, hde]; omega
  have hspec := run_spec (specDepth (linkOnly b c mv p) r hwf2 hr2 hQ2) ((linkOnly b c mv p).size + 1) c (linkOnly b c mv p)
    (by have := hI.rk.bound c hc; simp only [size_linkOnly]; omega) (by simpa using hc) hI0
  rw [← updDepth_eq_run, ← addLink_eq] at hspec
  generalize addLink b c mv p = b' at hspec
  obtain ⟨hI', hokc, hmono, _⟩ := hspec
  have hsz : b'.size = b.size := by rw [hI'.size, size_linkOnly]
  have hch' : ∀ j, (b'.nd j).children = if j = p then insertChild (b.nd p).children mv c else (b.nd j).children := by
    intro j; rw [hI'.children j, hch j]
  have hpa' : ∀ j, (b'.nd j).parents = if j = c then insertParent (b.nd c).parents mv p else (b.nd j).parents := by
    intro j; rw [hI'.parents j, hpa j]
  have hle' : ∀ j, (b'.nd j).depth ≤ (b.nd j).depth := by
    intro j; have := hI'.le j; rw [hde j] at this; exact this
  have hdpar : ∀ j, (j ≠ c ∨ parentIds (b.nd c) ≠ []) →
      (b'.nd j).depth % 2 = (b.nd j).depth % 2 ∧ ((b'.nd j).depth = 0 ↔ (b.nd j).depth = 0) := by
    intro j hj
    have h1 := hI'.par j (al_parentsParity b r c mv p hI hp hc hrk hpar j hj)
    have h2 := hI'.pos j
    rw [hde j] at h1 h2
    exact ⟨h1, h2⟩
  -- depth equations of all nodes
  have hdep' : ∀ j, j < b.size → dOkF b' j := by
    intro j hj
    by_cases hjc : j = c
    · subst hjc; exact hokc
    · apply hmono
      rcases hI.dep j hj with h | h
      · left; rw [hpid j hjc]; exact h
      · right
        unfold depthOk at h ⊢
        rw [hpid j hjc]
        simp only [hde]
        exact h
  have hdepc : depthOk b' c := by
    rcases hokc with h | h
    · have : p ∈ parentIds (b'.nd c) := by
        simp only [parentIds, hI'.parents c]; exact hpc
      rw [h] at this; simp at this
    · exact h
  have hpidc' : ∀ q, q ∈ parentIds (b'.nd c) → q ∈ parentIds (b.nd c) ∨ q = p := by
    intro q hq
    have : q ∈ parentIds ((linkOnly b c mv p).nd c) := by simpa only [parentIds, hI'.parents c] using hq
    rcases al_parentIds_cases b r c mv p hp hc hrk c q this with h | ⟨_, h⟩
    · exact Or.inl h
    · exact Or.inr h
  refine ⟨⟨by rw [hsz]; exact hI.nonempty, by rw [hsz]; exact hI.small,
    WF.of_links hI'.size hI'.children hI'.parents hwf2, Ranked.of_links hI'.size hI'.children hr2, ?_, ?_, ?_, ?_, ?_, ?_⟩,
    ⟨hsz, by rw [hI'.pending]; rfl, by rw [hI'.costs]; rfl, ?_, hch', hpa', hle', hdpar⟩⟩
  · -- root
    constructor
    · have := hle' 0; rw [hI.root.1] at this; omega
    · rw [hpa' 0]; simp only [Ne.symm hc0, if_false]; exact hI.root.2
  · intro j hj; rw [hsz] at hj; exact hdep' j hj
  · -- parity of every link
    intro i hi q hq
    rw [hsz] at hi
    have hq2 : q ∈ childIds ((linkOnly b c mv p).nd i) := by simpa only [childIds, hI'.children i] using hq
    have hQi : ParentsParity (linkOnly b c mv p) i := hQ2 i (by simpa using hi) (List.ne_nil_of_mem hq2)
    have hpi := hI'.par i hQi
    rw [hde i] at hpi
    by_cases hfresh : q = c ∧ parentIds (b.nd c) = []
    · -- the new node's only parent is p
      obtain ⟨rfl, hnil⟩ := hfresh
      have hip : i = p := by
        rcases al_childIds_cases b r q mv p hp hc hrk i q hq2 with h | ⟨h, _⟩
        · have := (wf_child b hI.wf i q hi h).2
          rw [hnil] at this; simp at this
        · exact h
      subst hip
      obtain ⟨q', hq', he⟩ := hdepc.1
      rcases hpidc' q' hq' with h | h
      · rw [hnil] at h; simp at h
      · subst h; omega
    · have hjq : q ≠ c ∨ parentIds (b.nd c) ≠ [] := by
        by_cases h1 : q = c
        · right; intro h2; exact hfresh ⟨h1, h2⟩
        · exact Or.inl h1
      have hpq := (hdpar q hjq).1
      have hedge : ((b.nd i).depth + (b.nd q).depth) % 2 = 1 := by
        rcases al_childIds_cases b r c mv p hp hc hrk i q hq2 with h | ⟨h1, h2⟩
        · exact hI.par i hi q h
        · subst h1; subst h2
          rcases hpar with h | h
          · rcases hjq with h' | h'
            · exact absurd rfl h'
            · exact absurd h h'
          · exact h
      omega
  · -- parentless non-root nodes are childless
    intro j hj hj0 hnil
    rw [hsz] at hj
    have hjc : j ≠ c := by
      rintro rfl
      have : p ∈ parentIds (b'.nd j) := by simp only [parentIds, hI'.parents j]; exact hpc
      rw [hnil] at this; simp at this
    have hnb : parentIds (b.nd j) = [] := by
      simpa only [parentIds, hpa' j, hjc, if_false] using hnil
    have hjp : j ≠ p := by
      rintro rfl
      rcases hpl with h | h
      · exact hj0 h
      · exact h hnb
    simp only [childIds, hch' j, hjp, if_false]
    exact hI.orphan j hj hj0 hnb
  · -- parentless non-root nodes keep depth INT_MAX
    intro j hj hj0 hnil
    rw [hsz] at hj
    have hjc : j ≠ c := by
      rintro rfl
      have : p ∈ parentIds (b'.nd j) := by simp only [parentIds, hI'.parents j]; exact hpc
      rw [hnil] at this; simp at this
    have hnb : parentIds (b.nd j) = [] := by
      simpa only [parentIds, hpa' j, hjc, if_false] using hnil
    rw [hI'.same j (by rw [hpid j hjc]; exact hnb), hde j]
    exact hI.fresh j hj hj0 hnb
  · -- depth ≤ rank for linked nodes
    intro j hj hl
    rw [hsz] at hj
    by_cases hjc : j = c
    · subst hjc
      by_cases hfr : parentIds (b.nd j) = []
      · obtain ⟨q', hq', he⟩ := hdepc.1
        rcases hpidc' q' hq' with h | h
        · rw [hfr] at h; simp at h
        · subst h
          have h1 := hle' q'
          have h2 := hI.dle q' hp hpl
          omega
      · have := hle' j
        have := hI.dle j hj (Or.inr hfr)
        omega
    · have hl' : j = 0 ∨ parentIds (b.nd j) ≠ [] := by
        rcases hl with h | h
        · exact Or.inl h
        · right; simpa only [parentIds, hpa' j, hjc, if_false] using h
      have := hle' j
      have := hI.dle j hj hl'
      omega
  · intro j
    have h1 : (b'.nd j).scal = ((linkOnly b c mv p).nd j).scal := by
      have := congrArg Node.scal (hI'.skel j); exact this
    rw [h1]; exact al_scal b r c mv p hp hc hrk j

end addlink
end Bk
