import TexelVerif.BookBuild.Ops
/-!
# BookBuild: the empty book is at its fixed point; the 4-node history on which the unrepaired algorithm leaves it

Root R with children A (e2e4) and B (d2d4), A with child C (e7e5); search results R = 0, B = -50, A = -10, C = 10 and
then C = -30.  The last update changes A's negamax score (-10 → 30) but not R's (B dominates), so the unrepaired
`updateNegaMax` queues only C for the path-error pass and A keeps pathErrorWhite = 40 where its equation gives 80.
These are the values the real library produces (`./check C19 --replay` on the corpus entry).
-/
namespace Bk
open Book

def witnessRun (fixed : Bool) : Book :=
  let b := Book.new 0 {}
  let b := addPos fixed b 1 [(1804, 0)] []
  let b := addPos fixed b 2 [(1739, 0)] []
  let b := addPos fixed b 3 [(2356, 1)] []
  let b := setSearchResult fixed b 0 1350 0 1000
  let b := setSearchResult fixed b 2 2942 (-50) 1000
  let b := setSearchResult fixed b 1 2942 (-10) 1000
  let b := setSearchResult fixed b 3 1350 10 1000
  setSearchResult fixed b 3 1350 (-30) 1000

/-- a three-node chain root → 1 → 2 (for the non-vacuity example of `AddOk` with an existing child) -/
def exB : Book := addPos true (addPos true (Book.new 7 {}) 1 [(10, 0)] []) 2 [(20, 1)] []
/-- a rank for `exB` extended by a node 3 between the root and node 2 -/
def exR (i : Nat) : Nat := if i = 0 then 0 else if i = 2 then 2 else 1

/-- all score equations of all nodes, as a Boolean -/
def scoresOkB (b : Book) : Bool := (List.range b.size).all fun i => decide (nmOk b i) && decide (peOk b i)

theorem scoresOkB_iff (b : Book) : scoresOkB b = true ↔ ∀ i, i < b.size → nmOk b i ∧ peOk b i := by
  simp [scoresOkB]

theorem nd_new (k : Nat) (c : Costs) (i : Nat) :
    (Book.new k c).nd i = if i = 0 then { key := k, depth := 0, peW := 0, peB := 0 } else default := by
  cases i with
  | zero => rfl
  | succ n => rfl

theorem calcScores_fresh (c : Costs) (pend wtm : Bool) (mv : Nat) (h : pend = false) :
    calcScores c pend wtm mv INVALID [] = (INVALID, INVALID, INVALID) := by
  subst h
  simp [calcScores, calcNm, calcEc, coveredBy]

theorem fixedPoint_new (k : Nat) (c : Costs) : FixedPoint (Book.new k c) := by
  have hsz : (Book.new k c).size = 1 := rfl
  refine ⟨by rw [hsz]; omega, ⟨?_, ?_⟩,
    (fun j => by rw [nd_new]; split <;> exact ⟨List.Pairwise.nil, List.Pairwise.nil⟩),
    ⟨fun _ => 0, ⟨?_, ?_⟩⟩, ⟨rfl, rfl, rfl⟩, ?_, ?_, ?_, ?_⟩
  · intro i hi e he
    rw [hsz] at hi
    have : i = 0 := by omega
    subst this; simp [nd_new] at he
  · intro i hi e he
    rw [hsz] at hi
    have : i = 0 := by omega
    subst this; simp [nd_new] at he
  · intro i hi; rw [hsz]; omega
  · intro i hi c' hc
    rw [hsz] at hi
    have : i = 0 := by omega
    subst this; simp [nd_new, childIds] at hc
  · intro i h0 hi; rw [hsz] at hi; omega
  · intro i hi c' hc
    rw [hsz] at hi
    have : i = 0 := by omega
    subst this; simp [nd_new, childIds] at hc
  · intro i hi
    rw [hsz] at hi
    have : i = 0 := by omega
    subst this
    have hn : (Book.new k c).nd 0 = { key := k, depth := 0, peW := 0, peB := 0 } := rfl
    unfold nmOk Book.scoresOf
    rw [hn]
    exact calcScores_fresh _ _ _ _ rfl
  · intro i hi
    rw [hsz] at hi
    have : i = 0 := by omega
    subst this
    simp [peOk, Book.pathErrOf, nd_new, calcPE, pe2]

end Bk
