import TexelVerif.BookBuild.Basic
namespace Bk

structure US where
  g : G
  toUpdate : List Nat

def insertSet (l : List Nat) (x : Nat) : List Nat := if l.contains x then l else x :: l

/-- BookNode::updateScores / updateNegaMax; `fixed = true` is the repaired variant that also queues the changed node itself -/
def updNM (bd : BookData) (fixed : Bool) (start : Nat) : Nat → Nat → Bool → Bool → Bool → US → US
  | 0, _, _, _, _, s => s
  | fuel+1, i, updThis, updChildren, updParents, s =>
    if !updThis && (nd s.g i).nm != INVALID then s else
    let s1 := if updChildren then
                (nd s.g i).children.foldl (fun acc e => updNM bd fixed start fuel e.2 false true false acc) s
              else s
    let (g2, propagate) := computeNegaMax bd s1.g i
    let tu := if propagate then
                let t := (nd g2 i).children.foldl (fun acc e => insertSet acc e.2) s1.toUpdate
                if fixed then insertSet t i else t
              else s1.toUpdate
    let s2 : US := { g := g2, toUpdate := tu }
    if updParents && (propagate || i == start) then
      (nd s2.g i).parents.foldl (fun acc e => updNM bd fixed start fuel e.2 true false true acc) s2
    else s2

def updPE : Nat → Nat → G → G
  | 0, _, g => g
  | fuel+1, i, g =>
    let (g1, modified) := computePathError g i
    if modified then (nd g1 i).children.foldl (fun acc e => updPE fuel e.2 acc) g1 else g1

def sortByDepth (g : G) (l : List Nat) : List Nat :=
  l.foldr (fun x acc =>
    let lt (y x : Nat) : Bool := (nd g y).depth < (nd g x).depth || ((nd g y).depth == (nd g x).depth && y < x)
    let (a, b) := acc.span (fun y => lt y x)
    a ++ x :: b) []

def updateScores (bd : BookData) (fixed : Bool) (fuel : Nat) (g : G) (start : Nat) : G :=
  let s := updNM bd fixed start fuel start true true true { g := g, toUpdate := [start] }
  (sortByDepth s.g s.toUpdate).foldl (fun acc n => updPE fuel n acc) s.g

def setSearchResult (bd : BookData) (fixed : Bool) (g : G) (i : Nat) (mv : Nat) (score : Int) : G :=
  let n := nd g i
  updateScores bd fixed 64 (g.setIfInBounds i { n with bestMove := mv, search := score }) i

/-- The path-error defining equation for node i (what computePathError would store) holds -/
def peOk (g : G) (i : Nat) : Bool := (computePathError g i).2 == false
def nmOk (bd : BookData) (g : G) (i : Nat) : Bool := (computeNegaMax bd g i).2 == false
def fixedPoint (bd : BookData) (g : G) : Bool := (List.range g.size).all (fun i => peOk g i && nmOk bd g i)

/-- witness graph: R(0) → A(1), B(2);  A → C(3) -/
def g0 : G := #[
  { depth := 0, peW := 0, peB := 0, children := [(796, 1), (731, 2)] },           -- moves e2e4 / d2d4 as compressed ints
  { depth := 1, parents := [(796, 0)], children := [(2356, 3)] },
  { depth := 1, parents := [(731, 0)] },
  { depth := 2, parents := [(2356, 1)] } ]

def bd0 : BookData := {}

def run (fixed : Bool) : G :=
  let g := setSearchResult bd0 fixed g0 0 1350 0
  let g := setSearchResult bd0 fixed g 2 2942 (-50)
  let g := setSearchResult bd0 fixed g 1 2942 (-10)
  let g := setSearchResult bd0 fixed g 3 1350 10
  setSearchResult bd0 fixed g 3 1350 (-30)

#eval (run false).toList.map (fun n => (n.nm, n.peW, n.peB))
#eval fixedPoint bd0 (run false)
#eval (run true).toList.map (fun n => (n.nm, n.peW, n.peB))
#eval fixedPoint bd0 (run true)

/-- the current code leaves the graph off its fixed point; the repaired variant does not (on this history) -/
theorem fixedpoint_broken_witness : fixedPoint bd0 (run false) = false := by decide +kernel
theorem fixedpoint_ok_witness_fixed : fixedPoint bd0 (run true) = true := by decide +kernel

end Bk
