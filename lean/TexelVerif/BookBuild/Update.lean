import TexelVerif.BookBuild.Basic
/-!
# BookBuild: `BookNode::updateScores` (bookbuild.cpp:37-83) and the operations built on it

`fixed = false` is the algorithm as found (a changed node queues only its *children* for the path-error pass),
`fixed = true` is the repaired one (commit `fix: BookNode::updateScores also queues the changed node itself …`):
the changed node itself is queued as well.  The recursion of the two C++ lambdas is modelled with fuel = recursion
depth; `Book.size + 1` is enough on an acyclic book (proved in `Preserve.lean`).
-/
namespace Bk

/-- state of the first pass of `updateScores`: the book and the `toUpdate` set -/
structure US where
  b : Book
  tu : List Nat
deriving Repr, DecidableEq

def insertSet (l : List Nat) (x : Nat) : List Nat := if l.contains x then l else x :: l

def childIds (n : Node) : List Nat := n.children.map (·.2)
def parentIds (n : Node) : List Nat := n.parents.map (·.2)

/-- `computeNegaMax` on node `i` followed by the `toUpdate.insert` calls of the `propagate` branch -/
def nmStep (fixed : Bool) (s : US) (i : Nat) : US × Bool :=
  let r := s.b.computeNegaMax i
  let tu :=
    if r.2 then
      let t := (childIds (r.1.nd i)).foldl insertSet s.tu
      if fixed then insertSet t i else t
    else s.tu
  ({ b := r.1, tu := tu }, r.2)

/-- the lambda `updateNegaMax(node, updateThis, updateChildren, updateParents)` -/
def updNM (fixed : Bool) (start : Nat) : Nat → Nat → Bool → Bool → Bool → US → US
  | 0, _, _, _, _, s => s
  | fuel+1, i, updThis, updChildren, updParents, s =>
    if !updThis && (s.b.nd i).nm != INVALID then s else
    let s1 := if updChildren then
                (childIds (s.b.nd i)).foldl (fun acc c => updNM fixed start fuel c false true false acc) s
              else s
    let r := nmStep fixed s1 i
    if updParents && (r.2 || i == start) then
      (parentIds (r.1.b.nd i)).foldl (fun acc p => updNM fixed start fuel p true false true acc) r.1
    else r.1

/-- the lambda `updatePathErrors(node)` -/
def updPE : Nat → Nat → Book → Book
  | 0, _, b => b
  | fuel+1, i, b =>
    let r := b.computePathError i
    if r.2 then (childIds (r.1.nd i)).foldl (fun acc c => updPE fuel c acc) r.1 else r.1

/-- iteration order of `std::set<BookNode*,Compare>`: by depth, then by address (here: by index) -/
def depthLt (b : Book) (y x : Nat) : Bool :=
  (b.nd y).depth < (b.nd x).depth || ((b.nd y).depth == (b.nd x).depth && y < x)

def sortByDepth (b : Book) (l : List Nat) : List Nat :=
  l.foldr (fun x acc => acc.takeWhile (fun y => depthLt b y x) ++ x :: acc.dropWhile (fun y => depthLt b y x)) []

/-- `BookNode::updateScores` on node `start` -/
def updateScores (fixed : Bool) (b : Book) (start : Nat) : Book :=
  let fuel := b.size + 1
  let s := updNM fixed start fuel start true true true { b := b, tu := [start] }
  (sortByDepth s.b s.tu).foldl (fun acc n => updPE fuel n acc) s.b

/-- `BookNode::setSearchResult` -/
def setSearchResult (fixed : Bool) (b : Book) (i : Nat) (mv : Nat) (score : Int) (time : Nat) : Book :=
  let n := b.nd i
  updateScores fixed (b.setNode i { n with bestMove := mv, search := score, time := time }) i

/-- `Book::addPending` -/
def addPending (fixed : Bool) (b : Book) (i : Nat) : Book :=
  updateScores fixed { b with pending := insertSet b.pending i } i

/-- `Book::removePending` -/
def removePending (fixed : Bool) (b : Book) (i : Nat) : Book :=
  updateScores fixed { b with pending := b.pending.filter (· != i) } i

end Bk
