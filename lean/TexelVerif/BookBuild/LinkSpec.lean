import TexelVerif.BookBuild.Depth
/-!
# BookBuild: adding one parent/child link (`addChild` + `addParent` with its `updateDepth`)

`addLink_spec`: on a book whose links are consistent and ranked, whose depths satisfy their equations and alternate in
parity, linking `p → c` (with `p` already linked to the root, `c` either still unlinked or of the other depth parity
than `p`) keeps all of that, and changes nothing but the two link lists and depths (which keep parity and zero-ness).
-/
namespace Bk
open Book Propagate

/-! ## the ordered insertions -/

theorem mem_insertChild_old (l : List (Nat × Nat)) (mv c : Nat) (x : Nat × Nat) (h : x ∈ l) : x ∈ insertChild l mv c := by
  induction l with
  | nil => simp at h
  | cons e t ih =>
    simp only [insertChild]
    split
    · simp [h]
    · split
      · exact h
      · rcases List.mem_cons.mp h with rfl | h
        · simp
        · simp [ih h]

theorem mem_insertChild_cases (l : List (Nat × Nat)) (mv c : Nat) (x : Nat × Nat) (h : x ∈ insertChild l mv c) :
    x ∈ l ∨ x = (mv, c) := by
  induction l with
  | nil => simp [insertChild] at h; exact Or.inr h
  | cons e t ih =>
    simp only [insertChild] at h
    split at h
    · rcases List.mem_cons.mp h with rfl | h
      · exact Or.inr rfl
      · exact Or.inl h
    · split at h
      · exact Or.inl h
      · rcases List.mem_cons.mp h with rfl | h
        · exact Or.inl (by simp)
        · rcases ih h with h | h
          · exact Or.inl (by simp [h])
          · exact Or.inr h

theorem mem_insertChild_new (l : List (Nat × Nat)) (mv c : Nat) (h : ∀ y ∈ l, y.1 = mv → y = (mv, c)) :
    (mv, c) ∈ insertChild l mv c := by
  induction l with
  | nil => simp [insertChild]
  | cons e t ih =>
    simp only [insertChild]
    split
    · simp
    · split
      · next h2 => have := h e (by simp) h2.symm; simp [this]
      · have := ih (fun y hy => h y (by simp [hy])); simp [this]

theorem mem_insertParent (l : List (Nat × Nat)) (mv p : Nat) (x : Nat × Nat) :
    x ∈ insertParent l mv p ↔ x ∈ l ∨ x = (mv, p) := by
  induction l with
  | nil => simp [insertParent]
  | cons e t ih =>
    simp only [insertParent]
    split
    · simp only [List.mem_cons]; constructor
      · rintro (h | h | h)
        · exact Or.inr h
        · exact Or.inl (Or.inl h)
        · exact Or.inl (Or.inr h)
      · rintro ((h | h) | h)
        · exact Or.inr (Or.inl h)
        · exact Or.inr (Or.inr h)
        · exact Or.inl h
    · split
      · next h2 => simp only [List.mem_cons]; constructor
                   · exact Or.inl
                   · rintro (h | h)
                     · exact h
                     · exact Or.inl (h.trans h2.symm)
      · simp only [List.mem_cons, ih]; constructor
        · rintro (h | h | h)
          · exact Or.inl (Or.inl h)
          · exact Or.inl (Or.inr h)
          · exact Or.inr h
        · rintro ((h | h) | h)
          · exact Or.inl h
          · exact Or.inr (Or.inl h)
          · exact Or.inr (Or.inr h)

theorem insertChild_filter (l : List (Nat × Nat)) (mv c : Nat) (P : Nat × Nat → Bool) (h : P (mv, c) = false) :
    (insertChild l mv c).filter P = l.filter P := by
  induction l with
  | nil => simp [insertChild, h]
  | cons e t ih =>
    simp only [insertChild]
    split
    · simp [List.filter_cons, h]
    · split
      · rfl
      · simp only [List.filter_cons, ih]

theorem insertParent_filter (l : List (Nat × Nat)) (mv p : Nat) (P : Nat × Nat → Bool) (h : P (mv, p) = false) :
    (insertParent l mv p).filter P = l.filter P := by
  induction l with
  | nil => simp [insertParent, h]
  | cons e t ih =>
    simp only [insertParent]
    split
    · simp [List.filter_cons, h]
    · split
      · rfl
      · simp only [List.filter_cons, ih]

/-! ## the two list updates of `addLink` -/

def linkOnly (b : Book) (c mv p : Nat) : Book :=
  let pn := b.nd p
  let b1 := b.setNode p { pn with children := insertChild pn.children mv c }
  let cn := b1.nd c
  b1.setNode c { cn with parents := insertParent cn.parents mv p }

theorem addLink_eq (b : Book) (c mv p : Nat) :
    addLink b c mv p = updDepth ((linkOnly b c mv p).size + 1) c (linkOnly b c mv p) := rfl

@[simp] theorem size_linkOnly (b : Book) (c mv p : Nat) : (linkOnly b c mv p).size = b.size := by simp [linkOnly]
@[simp] theorem pending_linkOnly (b : Book) (c mv p : Nat) : (linkOnly b c mv p).pending = b.pending := rfl
@[simp] theorem costs_linkOnly (b : Book) (c mv p : Nat) : (linkOnly b c mv p).costs = b.costs := rfl

theorem nd_linkOnly (b : Book) (c mv p : Nat) (hp : p < b.size) (hc : c < b.size) (hne : p ≠ c) (j : Nat) :
    (linkOnly b c mv p).nd j =
      if j = c then { b.nd c with parents := insertParent (b.nd c).parents mv p }
      else if j = p then { b.nd p with children := insertChild (b.nd p).children mv c }
      else b.nd j := by
  unfold linkOnly
  simp only [nd_setNode, size_setNode]
  by_cases h1 : j = c
  · subst h1; simp [hc, hne]
  · by_cases h2 : j = p
    · subst h2; simp [hp, h1, Ne.symm h1]
    · simp [h1, h2, Ne.symm h1, Ne.symm h2]

/-- scalar fields: everything except depth and the two link lists -/
def Node.scal (n : Node) : Node := { n with depth := 0, children := [], parents := [] }

/-- how `addLink b c mv p` relates to `b` -/
structure AL (b b' : Book) (c mv p : Nat) : Prop where
  size : b'.size = b.size
  pending : b'.pending = b.pending
  costs : b'.costs = b.costs
  scal : ∀ j, (b'.nd j).scal = (b.nd j).scal
  children : ∀ j, (b'.nd j).children = if j = p then insertChild (b.nd p).children mv c else (b.nd j).children
  parents : ∀ j, (b'.nd j).parents = if j = c then insertParent (b.nd c).parents mv p else (b.nd j).parents
  dle : ∀ j, (b'.nd j).depth ≤ (b.nd j).depth
  dpar : ∀ j, (j ≠ c ∨ parentIds (b.nd c) ≠ []) →
    (b'.nd j).depth % 2 = (b.nd j).depth % 2 ∧ ((b'.nd j).depth = 0 ↔ (b.nd j).depth = 0)

/-- the invariant of the linking phase -/
structure LinkInv (b : Book) (r : Nat → Nat) : Prop where
  nonempty : 0 < b.size
  small : b.size < DEPTH_INF
  wf : WF b
  rk : Ranked b r
  root : (b.nd 0).depth = 0 ∧ (b.nd 0).parents = []
  dep : ∀ j, j < b.size → dOkF b j
  par : ParityOk b
  orphan : ∀ j, j < b.size → j ≠ 0 → parentIds (b.nd j) = [] → childIds (b.nd j) = []
  fresh : ∀ j, j < b.size → j ≠ 0 → parentIds (b.nd j) = [] → (b.nd j).depth = DEPTH_INF
  dle : ∀ j, j < b.size → (j = 0 ∨ parentIds (b.nd j) ≠ []) → (b.nd j).depth ≤ r j

end Bk
