import TexelVerif.BookBuild.Link
/-!
# BookBuild: the fixed point (`FixedPoint`) and the read-sets of the per-node equations

`FixedPoint b` is the conjunction of the defining equations of bookbuild.hpp's header comment as the code computes
them: every node's (negaMaxScore, expansionCostWhite, expansionCostBlack) equals what `computeNegaMax` would store,
its path errors equal what `computePathError` would store, its depth is one more than the smallest parent depth (the
root: 0), and the parent/child links are mutually consistent, acyclic and alternate in depth parity.
-/
namespace Bk
open Book

/-! ## array access -/

theorem nd_setNode (b : Book) (i j : Nat) (n : Node) :
    (b.setNode i n).nd j = if i = j ∧ i < b.size then n else b.nd j := by
  simp only [Book.nd, Book.setNode, Book.size, Array.getD_eq_getD_getElem?, Array.getElem?_setIfInBounds]
  by_cases h : i = j
  · subst h
    by_cases h2 : i < b.nodes.size <;> simp [h2]
  · simp [h]

theorem nd_oob (b : Book) (i : Nat) (h : ¬ i < b.size) : b.nd i = default := by
  simp only [Book.nd, Book.size, Array.getD_eq_getD_getElem?] at *
  rw [Array.getElem?_eq_none (by omega)]; rfl

theorem default_children : (default : Node).children = [] := rfl
theorem default_parents : (default : Node).parents = [] := rfl

theorem nd_setNode_self (b : Book) (i : Nat) (n : Node) (h : i < b.size) : (b.setNode i n).nd i = n := by
  simp [nd_setNode, h]

theorem nd_setNode_ne (b : Book) (i j : Nat) (n : Node) (h : i ≠ j) : (b.setNode i n).nd j = b.nd j := by
  simp [nd_setNode, h]

@[simp] theorem size_setNode (b : Book) (i : Nat) (n : Node) : (b.setNode i n).size = b.size := by
  simp [Book.setNode, Book.size]

@[simp] theorem pending_setNode (b : Book) (i : Nat) (n : Node) : (b.setNode i n).pending = b.pending := rfl
@[simp] theorem costs_setNode (b : Book) (i : Nat) (n : Node) : (b.setNode i n).costs = b.costs := rfl
@[simp] theorem isPending_setNode (b : Book) (i j : Nat) (n : Node) : (b.setNode i n).isPending j = b.isPending j := rfl

/-! ## the equations -/

/-- node `i` satisfies the negamax / expansion cost equations -/
def nmOk (b : Book) (i : Nat) : Prop := b.scoresOf i = scores3 (b.nd i)
/-- node `i` satisfies the path error equations -/
def peOk (b : Book) (i : Nat) : Prop := b.pathErrOf i = pe2 (b.nd i)

instance (b : Book) (i : Nat) : Decidable (nmOk b i) := by unfold nmOk; infer_instance
instance (b : Book) (i : Nat) : Decidable (peOk b i) := by unfold peOk; infer_instance

/-- depth equation of a non-root node: one more than the smallest parent depth -/
def depthOk (b : Book) (i : Nat) : Prop :=
  (∃ p ∈ parentIds (b.nd i), (b.nd i).depth = (b.nd p).depth + 1) ∧
  ∀ p ∈ parentIds (b.nd i), (b.nd i).depth ≤ (b.nd p).depth + 1

/-- links stay inside the book and are mutually consistent -/
structure WF (b : Book) : Prop where
  child : ∀ i, i < b.size → ∀ e ∈ (b.nd i).children, e.2 < b.size ∧ (e.1, i) ∈ (b.nd e.2).parents
  parent : ∀ i, i < b.size → ∀ e ∈ (b.nd i).parents, e.2 < b.size ∧ (e.1, i) ∈ (b.nd e.2).children

/-- child lists are strictly ordered by move (`std::map<U16,BookNode*>`) -/
def SortedCh (l : List (Nat × Nat)) : Prop := l.Pairwise (fun a c => a.1 < c.1)
/-- parent lists are strictly ordered by (move, parent) (`std::set<ParentInfo>`) -/
def SortedPa (l : List (Nat × Nat)) : Prop := l.Pairwise (fun a c => linkLt a c = true)
/-- every link list of the book is ordered as the C++ containers order them (a representation invariant of the model) -/
def SortedLinks (b : Book) : Prop := ∀ j, SortedCh (b.nd j).children ∧ SortedPa (b.nd j).parents

/-- ghost topological rank: strictly increasing along child links, bounded by the number of nodes -/
structure Ranked (b : Book) (r : Nat → Nat) : Prop where
  bound : ∀ i, i < b.size → r i < b.size
  mono : ∀ i, i < b.size → ∀ c ∈ childIds (b.nd i), r i < r c

def Acyclic (b : Book) : Prop := ∃ r, Ranked b r

/-- every link joins depths of different parity (all paths to a position have the same length parity) -/
def ParityOk (b : Book) : Prop :=
  ∀ i, i < b.size → ∀ c ∈ childIds (b.nd i), ((b.nd i).depth + (b.nd c).depth) % 2 = 1

structure FixedPoint (b : Book) : Prop where
  nonempty : 0 < b.size
  wf : WF b
  sorted : SortedLinks b
  acyclic : Acyclic b
  root : (b.nd 0).depth = 0 ∧ (b.nd 0).parents = [] ∧ pe2 (b.nd 0) = (0, 0)
  depth : ∀ i, 0 < i → i < b.size → depthOk b i
  parity : ParityOk b
  scores : ∀ i, i < b.size → nmOk b i
  pathErr : ∀ i, i < b.size → peOk b i

/-! ## read-sets -/

theorem childInfos_congr (b b' : Book) (n : Node)
    (h : ∀ c ∈ childIds n, scores3 (b'.nd c) = scores3 (b.nd c)) : b'.childInfos n = b.childInfos n := by
  unfold Book.childInfos
  apply List.map_congr_left
  intro e he
  have := h e.2 (by simp only [childIds, List.mem_map]; exact ⟨e, he, rfl⟩)
  simp only [scores3, Prod.mk.injEq] at this
  simp [this.1, this.2.1, this.2.2]

theorem parentInfos_congr (b b' : Book) (n : Node)
    (h : ∀ p ∈ parentIds n, (b'.nd p).nm = (b.nd p).nm ∧ pe2 (b'.nd p) = pe2 (b.nd p)) :
    b'.parentInfos n = b.parentInfos n := by
  unfold Book.parentInfos
  apply List.map_congr_left
  intro e he
  have := h e.2 (by simp only [parentIds, List.mem_map]; exact ⟨e, he, rfl⟩)
  simp only [pe2, Prod.mk.injEq] at this
  simp [this.1, this.2.1, this.2.2]

theorem peStep_parity (d d' : Nat) (h : d' % 2 = d % 2) : peStep d' = peStep d := by
  funext nm acc p
  simp only [peStep, h]

/-- `computeNegaMax` on node `j` reads: pending mark and costs, the node's depth / best move / search score /
    child list, and the three scores of each child. -/
theorem scoresOf_congr (b b' : Book) (j : Nat)
    (hp : b'.isPending j = b.isPending j) (hc : b'.costs = b.costs)
    (hd : (b'.nd j).depth % 2 = (b.nd j).depth % 2) (hm : (b'.nd j).bestMove = (b.nd j).bestMove)
    (hs : (b'.nd j).search = (b.nd j).search) (hch : (b'.nd j).children = (b.nd j).children)
    (h : ∀ c ∈ childIds (b.nd j), scores3 (b'.nd c) = scores3 (b.nd c)) :
    b'.scoresOf j = b.scoresOf j := by
  unfold Book.scoresOf
  have e : b'.childInfos (b'.nd j) = b.childInfos (b.nd j) := by
    have h1 : b'.childInfos (b'.nd j) = b'.childInfos (b.nd j) := by
      unfold Book.childInfos; rw [hch]
    rw [h1]; exact childInfos_congr b b' (b.nd j) h
  simp only [hp, hc, hd, hm, hs, e]

/-- `computePathError` on node `j` reads: the node's depth / negamax score / parent list (and its own path errors
    if it is the root), and negamax score and path errors of each parent. -/
theorem pathErrOf_congr (b b' : Book) (j : Nat)
    (hd : (b'.nd j).depth % 2 = (b.nd j).depth % 2) (hd0 : (b'.nd j).depth = 0 ↔ (b.nd j).depth = 0) (hn : (b'.nd j).nm = (b.nd j).nm)
    (hpa : (b'.nd j).parents = (b.nd j).parents)
    (hcur : (b.nd j).depth = 0 → pe2 (b'.nd j) = pe2 (b.nd j))
    (h : ∀ p ∈ parentIds (b.nd j), (b'.nd p).nm = (b.nd p).nm ∧ pe2 (b'.nd p) = pe2 (b.nd p)) :
    b'.pathErrOf j = b.pathErrOf j := by
  unfold Book.pathErrOf
  have e : b'.parentInfos (b'.nd j) = b.parentInfos (b.nd j) := by
    have h1 : b'.parentInfos (b'.nd j) = b'.parentInfos (b.nd j) := by
      unfold Book.parentInfos; rw [hpa]
    rw [h1]; exact parentInfos_congr b b' (b.nd j) h
  simp only [hn, e]
  unfold calcPE
  by_cases h0 : (b.nd j).depth = 0
  · have := hcur h0
    simp only [pe2, Prod.mk.injEq] at this
    simp [h0, hd0.mpr h0, this.1, this.2]
  · have h0' : ¬ (b'.nd j).depth = 0 := fun h => h0 (hd0.mp h)
    simp only [h0, h0', if_false, peStep_parity _ _ hd]

end Bk
