import TexelVerif.BookBuild.Update
/-!
# BookBuild: links, depth, adding a position, reloading (bookbuild.hpp:680-689, bookbuild.cpp:226-246, 687-741, 890-950, 1025-1067)

Which book positions are one legal move apart is decided by the chess rules (`Book::setChildRefs`,
`Book::hashToParent`); the model is parametric in that: `addPos` receives the parent and child links of the new
position as arguments (the differential takes them from the implementation and the harness checks them against what
`addPosToBook` really linked).
-/
namespace Bk

/-- `std::map<U16,BookNode*>::insert`: ordered by move, an existing entry for the same move is kept -/
def insertChild : List (Nat × Nat) → Nat → Nat → List (Nat × Nat)
  | [], mv, c => [(mv, c)]
  | e :: t, mv, c =>
    if mv < e.1 then (mv, c) :: e :: t
    else if mv = e.1 then e :: t
    else e :: insertChild t mv c

def linkLt (a b : Nat × Nat) : Bool := a.1 < b.1 || (a.1 == b.1 && a.2 < b.2)

/-- `std::set<ParentInfo>::insert`: ordered by (move, parent), no duplicates -/
def insertParent : List (Nat × Nat) → Nat → Nat → List (Nat × Nat)
  | [], mv, p => [(mv, p)]
  | e :: t, mv, p =>
    if linkLt (mv, p) e then (mv, p) :: e :: t
    else if e = (mv, p) then e :: t
    else e :: insertParent t mv p

/-- one execution of the loop of `BookNode::updateDepth` on node `i` -/
def depthStep (b : Book) (i : Nat) : Book × Bool :=
  let n := b.nd i
  let d := (parentIds n).foldl (fun acc p => if acc > (b.nd p).depth + 1 then (b.nd p).depth + 1 else acc) n.depth
  if d < n.depth then (b.setNode i { n with depth := d }, true) else (b, false)

/-- `BookNode::updateDepth` (every parent is assumed to have a depth already; the C++ asserts that) -/
def updDepth : Nat → Nat → Book → Book
  | 0, _, b => b
  | fuel+1, i, b =>
    let r := depthStep b i
    if r.2 then (childIds (r.1.nd i)).foldl (fun acc c => updDepth fuel c acc) r.1 else r.1

/-- `parent->addChild(mv, child); child->addParent(mv, parent);` (the latter calls `updateDepth`) -/
def addLink (b : Book) (c mv p : Nat) : Book :=
  let pn := b.nd p
  let b1 := b.setNode p { pn with children := insertChild pn.children mv c }
  let cn := b1.nd c
  let b2 := b1.setNode c { cn with parents := insertParent cn.parents mv p }
  updDepth (b2.size + 1) c b2

/-- the structural part of `Book::addPosToBook`: new node, links to all parents, then `setChildRefs` -/
def linkNew (b : Book) (key : Nat) (ps cs : List (Nat × Nat)) : Book :=
  let i := b.size
  let b1 : Book := { b with nodes := b.nodes.push { key := key } }
  let b2 := ps.foldl (fun acc e => addLink acc i e.1 e.2) b1
  cs.foldl (fun acc e => addLink acc e.2 e.1 i) b2

/-- `Book::addPosToBook`: `ps` = (move, parent index) of every book position with a legal move to the new
    position, `cs` = (move, child index) of every book position reachable from it by one legal move -/
def addPos (fixed : Bool) (b : Book) (key : Nat) (ps cs : List (Nat × Nat)) : Book :=
  updateScores fixed (linkNew b key ps cs) b.size

/-- a one-node book: `Book::Book` / `addRootNode` -/
def Book.new (rootKey : Nat) (k : Costs) : Book :=
  { nodes := #[{ key := rootKey, depth := 0, peW := 0, peB := 0 }], pending := [], costs := k }

/-- what `deSerialize` + `setRootNode` leave in a node: the four stored fields -/
def freshNode (isRoot : Bool) (n : Node) : Node :=
  if isRoot then { key := n.key, bestMove := n.bestMove, search := n.search, time := n.time, depth := 0, peW := 0, peB := 0 }
  else { key := n.key, bestMove := n.bestMove, search := n.search, time := n.time }

/-- `Book::initPositions`: `setChildRefs` on node `i`, then recursion into the children that are not initialised yet.
    `old` supplies the links that the chess rules give (the links of the book that was written). -/
def initPos (old : Book) : Nat → Nat → Book × List Nat → Book × List Nat
  | 0, _, s => s
  | fuel+1, i, (b, done) =>
    let b1 := (old.nd i).children.foldl (fun acc e => addLink acc e.2 e.1 i) b
    let s2 := (childIds (b1.nd i)).foldl
      (fun (acc : Book × List Nat) c => if acc.2.contains c then acc else initPos old fuel c acc) (b1, done)
    (s2.1, i :: s2.2)

/-- `writeToFile` followed by `readFromFile` on the same book -/
def reload (fixed : Bool) (b : Book) : Book :=
  let fresh : Book := { nodes := (b.nodes.zipIdx.map fun (n, i) => freshNode (i == 0) n), pending := [], costs := b.costs }
  let linked := (initPos b (b.size + 1) 0 (fresh, [])).1
  updateScores fixed linked 0

end Bk
