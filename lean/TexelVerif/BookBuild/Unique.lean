import TexelVerif.BookBuild.Ops
/-!
# BookBuild: the fixed point is unique

Two books at their fixed point that agree on what is *stored or given* — the four serialised fields of every node, the
links (given by the chess rules), the pending set and the cost constants — are equal: depth, negamax score, both
expansion costs and both path errors of every node are determined.  This is what makes "save and reload reproduces the
same graph and scores" a consequence of "reload reaches a fixed point".
-/
namespace Bk
open Book

/-- agreement on everything that is not derived -/
structure SameGiven (b1 b2 : Book) : Prop where
  size : b1.size = b2.size
  pending : b1.pending = b2.pending
  costs : b1.costs = b2.costs
  key : ∀ j, (b1.nd j).key = (b2.nd j).key
  bestMove : ∀ j, (b1.nd j).bestMove = (b2.nd j).bestMove
  search : ∀ j, (b1.nd j).search = (b2.nd j).search
  time : ∀ j, (b1.nd j).time = (b2.nd j).time
  children : ∀ j, (b1.nd j).children = (b2.nd j).children
  parents : ∀ j, (b1.nd j).parents = (b2.nd j).parents

section unique
variable (b1 b2 : Book) (h1 : FixedPoint b1) (h2 : FixedPoint b2) (hg : SameGiven b1 b2) (r : Nat → Nat) (hr : Ranked b1 r)

include h1 h2 hg hr in
theorem depth_unique : ∀ (k j : Nat), r j ≤ k → j < b1.size → (b1.nd j).depth = (b2.nd j).depth := by
  intro k
  induction k with
  | zero =>
    intro j hk hj
    by_cases h0 : j = 0
    · subst h0; rw [h1.root.1, h2.root.1]
    · obtain ⟨q, hq, _⟩ := (h1.depth j (by omega) hj).1
      have := rank_parent b1 r h1.wf hr j q hj hq
      omega
  | succ k ih =>
    intro j hk hj
    by_cases h0 : j = 0
    · subst h0; rw [h1.root.1, h2.root.1]
    · have d1 := h1.depth j (by omega) hj
      have d2 := h2.depth j (by omega) (by rw [← hg.size]; exact hj)
      unfold depthOk at d1 d2
      have hpe : parentIds (b2.nd j) = parentIds (b1.nd j) := by simp only [parentIds, hg.parents j]
      rw [hpe] at d2
      have hih : ∀ q ∈ parentIds (b1.nd j), (b1.nd q).depth = (b2.nd q).depth := by
        intro q hq
        have := rank_parent b1 r h1.wf hr j q hj hq
        exact ih q (by omega) (wf_parent b1 h1.wf j q hj hq).1
      obtain ⟨⟨q1, hq1, e1⟩, a1⟩ := d1
      obtain ⟨⟨q2, hq2, e2⟩, a2⟩ := d2
      have x1 := a1 q2 hq2
      have x2 := a2 q1 hq1
      have y1 := hih q1 hq1
      have y2 := hih q2 hq2
      omega

include h1 h2 hg hr in
theorem depth_unique' (j : Nat) : (b1.nd j).depth = (b2.nd j).depth := by
  by_cases hj : j < b1.size
  · exact depth_unique b1 b2 h1 h2 hg r hr (r j) j (Nat.le_refl _) hj
  · rw [nd_oob _ _ hj, nd_oob _ _ (by rw [← hg.size]; exact hj)]

include h1 h2 hg hr in
theorem scores_unique : ∀ (k j : Nat), b1.size - r j ≤ k → j < b1.size → scores3 (b1.nd j) = scores3 (b2.nd j) := by
  intro k
  induction k with
  | zero => intro j hk hj; have := hr.bound j hj; omega
  | succ k ih =>
    intro j hk hj
    have s1 := h1.scores j hj
    have s2 := h2.scores j (by rw [← hg.size]; exact hj)
    unfold nmOk at s1 s2
    rw [← s1, ← s2]
    apply scoresOf_congr
    · simp only [Book.isPending, hg.pending]
    · exact hg.costs
    · rw [depth_unique' b1 b2 h1 h2 hg r hr j]
    · exact hg.bestMove j
    · exact hg.search j
    · exact hg.children j
    · intro c hc
      have hc1 : c ∈ childIds (b1.nd j) := by simpa only [childIds, hg.children j] using hc
      have hcv := wf_child b1 h1.wf j c hj hc1
      have := hr.mono j hj c hc1
      have hb := hr.bound c hcv.1
      exact ih c (by omega) hcv.1

include h1 h2 hg hr in
theorem pe_unique : ∀ (k j : Nat), r j ≤ k → j < b1.size → pe2 (b1.nd j) = pe2 (b2.nd j) := by
  have hs3 : ∀ j, j < b1.size → scores3 (b1.nd j) = scores3 (b2.nd j) := fun j hj =>
    scores_unique b1 b2 h1 h2 hg r hr (b1.size - r j) j (Nat.le_refl _) hj
  have hnm : ∀ j, j < b1.size → (b1.nd j).nm = (b2.nd j).nm := by
    intro j hj; have := hs3 j hj; simp only [scores3, Prod.mk.injEq] at this; exact this.1
  have key : ∀ (k : Nat), (∀ q, q < b1.size → r q < k → pe2 (b1.nd q) = pe2 (b2.nd q)) →
      ∀ j, r j ≤ k → j < b1.size → pe2 (b1.nd j) = pe2 (b2.nd j) := by
    intro k hlow j hk hj
    by_cases h0 : j = 0
    · subst h0; rw [h1.root.2.2, h2.root.2.2]
    · have p1 := h1.pathErr j hj
      have p2 := h2.pathErr j (by rw [← hg.size]; exact hj)
      unfold peOk at p1 p2
      rw [← p1, ← p2]
      have hd := depth_unique' b1 b2 h1 h2 hg r hr j
      have hd0 : (b2.nd j).depth ≠ 0 := by
        obtain ⟨q, _, e⟩ := (h2.depth j (by omega) (by rw [← hg.size]; exact hj)).1
        omega
      apply pathErrOf_congr
      · rw [hd]
      · rw [hd]
      · exact hnm j hj
      · exact hg.parents j
      · intro h; exact absurd h hd0
      · intro q hq
        have hq1 : q ∈ parentIds (b1.nd j) := by simpa only [parentIds, hg.parents j] using hq
        have hqv := wf_parent b1 h1.wf j q hj hq1
        have := rank_parent b1 r h1.wf hr j q hj hq1
        exact ⟨hnm q hqv.1, hlow q hqv.1 (by omega)⟩
  intro k
  induction k with
  | zero => exact key 0 (fun q _ hq => by omega)
  | succ k ih => exact key (k + 1) (fun q hq hrq => ih q (by omega) hq)

end unique

/-- The fixed point is unique: what is stored or given determines every derived field of every node. -/
theorem fixedPoint_unique (b1 b2 : Book) (h1 : FixedPoint b1) (h2 : FixedPoint b2) (hg : SameGiven b1 b2) : b1 = b2 := by
  obtain ⟨r, hr⟩ := h1.acyclic
  have hnode : ∀ j, b1.nd j = b2.nd j := by
    intro j
    by_cases hj : j < b1.size
    · have hd := depth_unique' b1 b2 h1 h2 hg r hr j
      have hs := scores_unique b1 b2 h1 h2 hg r hr (b1.size - r j) j (Nat.le_refl _) hj
      have hp := pe_unique b1 b2 h1 h2 hg r hr (r j) j (Nat.le_refl _) hj
      simp only [scores3, pe2, Prod.mk.injEq] at hs hp
      have := hg.key j; have := hg.bestMove j; have := hg.search j; have := hg.time j
      have := hg.children j; have := hg.parents j
      cases hn1 : b1.nd j; cases hn2 : b2.nd j
      simp_all
    · rw [nd_oob _ _ hj, nd_oob _ _ (by rw [← hg.size]; exact hj)]
  have hnodes : b1.nodes = b2.nodes := by
    apply Array.ext
    · exact hg.size
    · intro i hi1 hi2
      have := hnode i
      simp only [Book.nd, Array.getD_eq_getD_getElem?, Array.getElem?_eq_getElem hi1, Array.getElem?_eq_getElem hi2,
        Option.getD_some] at this
      exact this
  cases b1; cases b2
  simp only [Book.mk.injEq]
  exact ⟨hnodes, hg.pending, hg.costs⟩

end Bk
