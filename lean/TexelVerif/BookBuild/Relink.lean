import TexelVerif.BookBuild.Reload
import TexelVerif.BookBuild.Sorted
import TexelVerif.BookBuild.AddLink
import TexelVerif.BookBuild.AddPos
/-!
# BookBuild: `initPositions` restores the links (`relinked_spec`)

The depth-first relinking of `readFromFile` (`initPos`), started on the freshly deserialised nodes and following the
links the chess rules give (those of the book that was written), re-creates exactly those links, yields depths that
satisfy their equations, and leaves stored fields and fresh scores alone.
-/
namespace Bk
open Book

theorem size_freshBook (b : Book) : (freshBook b).size = b.size := by
  simp [freshBook, Book.size]

theorem nd_freshBook (b : Book) (j : Nat) (hj : j < b.size) : (freshBook b).nd j = freshNode (j == 0) (b.nd j) := by
  simp only [freshBook, Book.nd, Book.size, Array.getD_eq_getD_getElem?] at *
  rw [Array.getElem?_eq_getElem (by simpa using hj), Array.getElem?_eq_getElem hj]
  simp

/-- links only grow -/
def Grow (acc acc' : Book) : Prop :=
  ∀ j x, (x ∈ (acc.nd j).children → x ∈ (acc'.nd j).children) ∧ (x ∈ (acc.nd j).parents → x ∈ (acc'.nd j).parents)

theorem Grow.refl (acc : Book) : Grow acc acc := fun _ _ => ⟨id, id⟩
theorem Grow.trans {a b c : Book} (h1 : Grow a b) (h2 : Grow b c) : Grow a c :=
  fun j x => ⟨fun h => (h2 j x).1 ((h1 j x).1 h), fun h => (h2 j x).2 ((h1 j x).2 h)⟩

/-- invariant of the relinking pass: `acc` is the book so far, `done` the nodes whose `initPositions` call returned -/
structure DI (b : Book) (r : Nat → Nat) (acc : Book) (done : List Nat) : Prop where
  inv : LinkInv acc r
  size : acc.size = b.size
  pending : acc.pending = []
  costs : acc.costs = b.costs
  scal : ∀ j, (acc.nd j).scal = ((freshBook b).nd j).scal
  chSub : ∀ j, ∀ x ∈ (acc.nd j).children, x ∈ (b.nd j).children
  paSub : ∀ j, ∀ x ∈ (acc.nd j).parents, x ∈ (b.nd j).parents
  chSorted : ∀ j, SortedCh (acc.nd j).children
  paSorted : ∀ j, SortedPa (acc.nd j).parents
  dpar : ∀ j, j < b.size → (j = 0 ∨ parentIds (acc.nd j) ≠ []) → (acc.nd j).depth % 2 = (b.nd j).depth % 2
  doneFull : ∀ j ∈ done, j < b.size ∧ (∀ x ∈ (b.nd j).children, x ∈ (acc.nd j).children) ∧
    ∀ c ∈ childIds (b.nd j), c ∈ done

section relink
variable (b : Book) (r : Nat → Nat) (hF : FixedPoint b) (hr : Ranked b r)

include hF hr in
/-- one `addChild`/`addParent` pair of `setChildRefs` on node `i` -/
theorem di_link (acc : Book) (done : List Nat) (i : Nat) (e : Nat × Nat) (hD : DI b r acc done) (hi : i < b.size)
    (hli : i = 0 ∨ parentIds (acc.nd i) ≠ []) (he : e ∈ (b.nd i).children) :
    DI b r (addLink acc e.2 e.1 i) done ∧ Grow acc (addLink acc e.2 e.1 i) ∧ e ∈ ((addLink acc e.2 e.1 i).nd i).children := by
  have hwc := hF.wf.child i hi e he
  have hc : e.2 < b.size := hwc.1
  have hc0 : e.2 ≠ 0 := by
    intro h0
    have := hwc.2
    rw [h0, hF.root.2.1] at this; simp at this
  have hce : e.2 ∈ childIds (b.nd i) := (mem_childIds _ _).mpr ⟨e, he, rfl⟩
  have hrk : r i < r e.2 := hr.mono i hi e.2 hce
  have hparity := hF.parity i hi e.2 hce
  have hpar : parentIds (acc.nd e.2) = [] ∨ ((acc.nd i).depth + (acc.nd e.2).depth) % 2 = 1 := by
    by_cases hnil : parentIds (acc.nd e.2) = []
    · exact Or.inl hnil
    · right
      have h1 := hD.dpar i hi hli
      have h2 := hD.dpar e.2 hc (Or.inr hnil)
      omega
  have huniq : ∀ x ∈ (acc.nd i).children, x.1 = e.1 → x = (e.1, e.2) := by
    intro x hx hx1
    exact sortedCh_unique _ (hF.sorted i).1 x e (hD.chSub i x hx) he hx1
  obtain ⟨hinv', hal⟩ := addLink_spec acc r e.2 e.1 i hD.inv (by rw [hD.size]; exact hi) (by rw [hD.size]; exact hc) hc0 hrk hli hpar huniq
  have hie : i ≠ e.2 := by intro h; rw [← h] at hrk; omega
  have hgrow : Grow acc (addLink acc e.2 e.1 i) := by
    intro j x
    constructor
    · intro hx
      rw [hal.children j]; split
      · next h => subst h; exact mem_insertChild_old _ _ _ _ hx
      · exact hx
    · intro hx
      rw [hal.parents j]; split
      · next h => subst h; exact (mem_insertParent _ _ _ _).mpr (Or.inl hx)
      · exact hx
  have hnew : e ∈ ((addLink acc e.2 e.1 i).nd i).children := by
    rw [hal.children i]; simp only [if_true]
    have := mem_insertChild_new _ _ _ huniq
    exact this
  refine ⟨⟨hinv', by rw [hal.size, hD.size], by rw [hal.pending, hD.pending], by rw [hal.costs, hD.costs], ?_, ?_, ?_, ?_, ?_, ?_, ?_⟩, hgrow, hnew⟩
  · intro j; rw [hal.scal j]; exact hD.scal j
  · intro j x hx
    rw [hal.children j] at hx
    split at hx
    · next h =>
      subst h
      rcases mem_insertChild_cases _ _ _ _ hx with h | h
      · exact hD.chSub j x h
      · rw [h]; exact he
    · exact hD.chSub j x hx
  · intro j x hx
    rw [hal.parents j] at hx
    split at hx
    · next h =>
      subst h
      rcases (mem_insertParent _ _ _ _).mp hx with h | h
      · exact hD.paSub _ x h
      · rw [h]; exact hwc.2
    · exact hD.paSub j x hx
  · intro j
    rw [hal.children j]; split
    · exact sortedCh_insertChild _ _ _ (hD.chSorted i)
    · exact hD.chSorted j
  · intro j
    rw [hal.parents j]; split
    · exact sortedPa_insertParent _ _ _ (hD.paSorted e.2)
    · exact hD.paSorted j
  · intro j hj hl
    by_cases hjc : j = e.2
    · subst hjc
      by_cases hnil : parentIds (acc.nd e.2) = []
      · -- first link of this node: its only parent is i
        have hdep := hinv'.dep e.2 (by rw [hal.size, hD.size]; exact hc)
        have hpne : parentIds ((addLink acc e.2 e.1 i).nd e.2) ≠ [] := by
          intro h
          have : (e.1, i) ∈ ((addLink acc e.2 e.1 i).nd e.2).parents := by
            rw [hal.parents e.2]; simp only [if_true]; exact (mem_insertParent _ _ _ _).mpr (Or.inr rfl)
          have h2 : i ∈ parentIds ((addLink acc e.2 e.1 i).nd e.2) := (mem_parentIds _ _).mpr ⟨(e.1, i), this, rfl⟩
          rw [h] at h2; simp at h2
        rcases hdep with h | h
        · exact absurd h hpne
        · obtain ⟨q, hq, hqe⟩ := h.1
          have hqi : q = i := by
            obtain ⟨x, hx, rfl⟩ := (mem_parentIds _ _).mp hq
            rw [hal.parents e.2] at hx; simp only [if_true] at hx
            rcases (mem_insertParent _ _ _ _).mp hx with h' | h'
            · have : x.2 ∈ parentIds (acc.nd e.2) := (mem_parentIds _ _).mpr ⟨x, h', rfl⟩
              rw [hnil] at this; simp at this
            · rw [h']
          subst hqi
          have h1 := (hal.dpar q (Or.inl hie)).1
          have h2 := hD.dpar q hi hli
          omega
      · have h1 := (hal.dpar e.2 (Or.inr hnil)).1
        have h2 := hD.dpar e.2 hc (Or.inr hnil)
        omega
    · have hl' : j = 0 ∨ parentIds (acc.nd j) ≠ [] := by
        rcases hl with h | h
        · exact Or.inl h
        · right; simpa only [parentIds, hal.parents j, hjc, if_false] using h
      have h1 := (hal.dpar j (Or.inl hjc)).1
      have h2 := hD.dpar j hj hl'
      omega
  · intro j hj
    have := hD.doneFull j hj
    exact ⟨this.1, fun x hx => (hgrow j x).1 (this.2.1 x hx), this.2.2⟩

include hF hr in
/-- `setChildRefs` on node `i`: all its child links -/
theorem di_childrefs (done : List Nat) (i : Nat) (hi : i < b.size) :
    ∀ (l : List (Nat × Nat)) (acc : Book), (∀ e ∈ l, e ∈ (b.nd i).children) → DI b r acc done →
      (i = 0 ∨ parentIds (acc.nd i) ≠ []) →
      DI b r (l.foldl (fun a e => addLink a e.2 e.1 i) acc) done ∧ Grow acc (l.foldl (fun a e => addLink a e.2 e.1 i) acc) ∧
      ∀ e ∈ l, e ∈ ((l.foldl (fun a e => addLink a e.2 e.1 i) acc).nd i).children := by
  intro l
  induction l with
  | nil => intro acc _ hD _; exact ⟨hD, Grow.refl _, by simp⟩
  | cons e t ih =>
    intro acc hl hD hli
    simp only [List.foldl_cons]
    obtain ⟨hD1, hg1, hn1⟩ := di_link b r hF hr acc done i e hD hi hli (hl e (by simp))
    have hli1 : i = 0 ∨ parentIds ((addLink acc e.2 e.1 i).nd i) ≠ [] := by
      rcases hli with h | h
      · exact Or.inl h
      · right
        intro hnil
        obtain ⟨x, t', hx⟩ := List.exists_cons_of_ne_nil h
        have hx1 : x ∈ parentIds (acc.nd i) := by rw [hx]; simp
        obtain ⟨y, hy, rfl⟩ := (mem_parentIds _ _).mp hx1
        have : y.2 ∈ parentIds ((addLink acc e.2 e.1 i).nd i) := (mem_parentIds _ _).mpr ⟨y, (hg1 i y).2 hy, rfl⟩
        rw [hnil] at this; simp at this
    obtain ⟨hD2, hg2, hn2⟩ := ih (addLink acc e.2 e.1 i) (fun x hx => hl x (by simp [hx])) hD1 hli1
    refine ⟨hD2, hg1.trans hg2, ?_⟩
    intro x hx
    rcases List.mem_cons.mp hx with rfl | hxt
    · exact (hg2 i x).1 hn1
    · exact hn2 x hxt


theorem grow_linked {a a' : Book} (h : Grow a a') (j : Nat) (hl : parentIds (a.nd j) ≠ []) : parentIds (a'.nd j) ≠ [] := by
  intro hnil
  obtain ⟨x, t', hx⟩ := List.exists_cons_of_ne_nil hl
  have hx1 : x ∈ parentIds (a.nd j) := by rw [hx]; simp
  obtain ⟨y, hy, rfl⟩ := (mem_parentIds _ _).mp hx1
  have : y.2 ∈ parentIds (a'.nd j) := (mem_parentIds _ _).mpr ⟨y, (h j y).2 hy, rfl⟩
  rw [hnil] at this; simp at this

theorem di_grow_done {b : Book} {r : Nat → Nat} {acc : Book} {done : List Nat} (i : Nat) (hD : DI b r acc done)
    (hi : i < b.size) (hfull : ∀ x ∈ (b.nd i).children, x ∈ (acc.nd i).children)
    (hch : ∀ c ∈ childIds (b.nd i), c ∈ done) : DI b r acc (i :: done) := by
  refine ⟨hD.inv, hD.size, hD.pending, hD.costs, hD.scal, hD.chSub, hD.paSub, hD.chSorted, hD.paSorted, hD.dpar, ?_⟩
  intro j hj
  rcases List.mem_cons.mp hj with rfl | hjd
  · exact ⟨hi, hfull, fun c hc => List.mem_cons_of_mem _ (hch c hc)⟩
  · have := hD.doneFull j hjd
    exact ⟨this.1, this.2.1, fun c hc => List.mem_cons_of_mem _ (this.2.2 c hc)⟩

include hF hr in
/-- `Book::initPositions` on node `i` -/
theorem di_dfs : ∀ (f i : Nat) (acc : Book) (done : List Nat), b.size - r i < f → i < b.size →
    (i = 0 ∨ parentIds (acc.nd i) ≠ []) → DI b r acc done →
    DI b r (initPos b f i (acc, done)).1 (initPos b f i (acc, done)).2 ∧ i ∈ (initPos b f i (acc, done)).2 ∧
    (∀ j ∈ done, j ∈ (initPos b f i (acc, done)).2) ∧ Grow acc (initPos b f i (acc, done)).1 := by
  intro f
  induction f with
  | zero => intro i acc done h; omega
  | succ f ih =>
    intro i acc done hf hi hli hD
    obtain ⟨hD1, hg1, hfull1⟩ := di_childrefs b r hF hr done i hi (b.nd i).children acc (fun e he => he) hD hli
    generalize hb1 : (b.nd i).children.foldl (fun a e => addLink a e.2 e.1 i) acc = b1 at hD1 hg1 hfull1
    -- the recursion over the children
    have hinner : ∀ (l : List Nat) (s : Book × List Nat), (∀ c ∈ l, c ∈ childIds (b.nd i)) → DI b r s.1 s.2 → Grow b1 s.1 →
        DI b r (l.foldl (fun (a : Book × List Nat) c => if a.2.contains c then a else initPos b f c a) s).1
               (l.foldl (fun (a : Book × List Nat) c => if a.2.contains c then a else initPos b f c a) s).2 ∧
        (∀ j ∈ s.2, j ∈ (l.foldl (fun (a : Book × List Nat) c => if a.2.contains c then a else initPos b f c a) s).2) ∧
        Grow s.1 (l.foldl (fun (a : Book × List Nat) c => if a.2.contains c then a else initPos b f c a) s).1 ∧
        ∀ c ∈ l, c ∈ (l.foldl (fun (a : Book × List Nat) c => if a.2.contains c then a else initPos b f c a) s).2 := by
      intro l
      induction l with
      | nil => intro s _ hDs _; exact ⟨hDs, fun j h => h, Grow.refl _, by simp⟩
      | cons c t iht =>
        intro s hl hDs hgs
        simp only [List.foldl_cons]
        have hcc := hl c (by simp)
        have hcv := wf_child b hF.wf i c hi hcc
        by_cases hdone : s.2.contains c = true
        · simp only [hdone, if_true]
          obtain ⟨h1, h2, h3, h4⟩ := iht s (fun x hx => hl x (by simp [hx])) hDs hgs
          refine ⟨h1, h2, h3, ?_⟩
          intro x hx
          rcases List.mem_cons.mp hx with rfl | hxt
          · exact h2 x (by simpa using hdone)
          · exact h4 x hxt
        · simp only [hdone, Bool.false_eq_true, if_false]
          -- c is linked: i is one of its parents since the setChildRefs pass
          have hlc : c = 0 ∨ parentIds (s.1.nd c) ≠ [] := by
            right
            obtain ⟨e, he, hec⟩ := (mem_childIds _ _).mp hcc
            have he1 := hfull1 e he
            have hw := hD1.inv.wf.child i (by rw [hD1.size]; exact hi) e he1
            have : i ∈ parentIds (b1.nd c) := by rw [← hec]; exact (mem_parentIds _ _).mpr ⟨(e.1, i), hw.2, rfl⟩
            exact grow_linked hgs c (List.ne_nil_of_mem this)
          have hrc := hr.mono i hi c hcc
          have hbc := hr.bound c hcv.1
          have hrec := ih c s.1 s.2 (by omega) hcv.1 hlc hDs
          obtain ⟨r1, r2, r3, r4⟩ := hrec
          obtain ⟨h1, h2, h3, h4⟩ := iht (initPos b f c (s.1, s.2)) (fun x hx => hl x (by simp [hx])) r1 (hgs.trans r4)
          refine ⟨h1, fun j hj => h2 j (r3 j hj), r4.trans h3, ?_⟩
          intro x hx
          rcases List.mem_cons.mp hx with rfl | hxt
          · exact h2 x r2
          · exact h4 x hxt
    have hres := hinner (childIds (b1.nd i)) (b1, done)
      (by intro c hc
          obtain ⟨e, he, rfl⟩ := (mem_childIds _ _).mp hc
          exact (mem_childIds _ _).mpr ⟨e, hD1.chSub i e he, rfl⟩)
      hD1 (Grow.refl _)
    have hunf : initPos b (f + 1) i (acc, done) =
        (((childIds (b1.nd i)).foldl (fun (a : Book × List Nat) c => if a.2.contains c then a else initPos b f c a) (b1, done)).1,
         i :: ((childIds (b1.nd i)).foldl (fun (a : Book × List Nat) c => if a.2.contains c then a else initPos b f c a) (b1, done)).2) := by
      simp only [initPos, hb1]
    rw [hunf]
    generalize (childIds (b1.nd i)).foldl (fun (a : Book × List Nat) c => if a.2.contains c then a else initPos b f c a) (b1, done) = s2 at hres
    obtain ⟨h1, h2, h3, h4⟩ := hres
    refine ⟨?_, by simp, fun j hj => List.mem_cons_of_mem _ (h2 j hj), hg1.trans h3⟩
    apply di_grow_done i h1 hi
    · intro x hx; exact (h3 i x).1 (hfull1 x hx)
    · intro c hc
      apply h4
      obtain ⟨e, he, rfl⟩ := (mem_childIds _ _).mp hc
      exact (mem_childIds _ _).mpr ⟨e, hfull1 e he, rfl⟩


theorem freshNode_links (isRoot : Bool) (n : Node) : (freshNode isRoot n).children = [] ∧ (freshNode isRoot n).parents = [] := by
  cases isRoot <;> exact ⟨rfl, rfl⟩

theorem nd_freshBook_links (b : Book) (j : Nat) : ((freshBook b).nd j).children = [] ∧ ((freshBook b).nd j).parents = [] := by
  by_cases hj : j < b.size
  · rw [nd_freshBook b j hj]; exact freshNode_links _ _
  · rw [nd_oob _ _ (by rw [size_freshBook]; exact hj)]; exact ⟨rfl, rfl⟩

include hF hr in
theorem di_fresh (hsmall : b.size < DEPTH_INF) : DI b r (freshBook b) [] := by
  have hsz := size_freshBook b
  have hl := nd_freshBook_links b
  have hn := hF.nonempty
  have hroot : (freshBook b).nd 0 = freshNode true (b.nd 0) := by rw [nd_freshBook b 0 hn]; rfl
  have hpid : ∀ j, parentIds ((freshBook b).nd j) = [] := fun j => by simp only [parentIds, (hl j).2]; rfl
  have hcid : ∀ j, childIds ((freshBook b).nd j) = [] := fun j => by simp only [childIds, (hl j).1]; rfl
  refine ⟨⟨by rw [hsz]; exact hn, by rw [hsz]; exact hsmall, ⟨?_, ?_⟩, ⟨?_, ?_⟩, ?_, ?_, ?_, ?_, ?_, ?_⟩, hsz, rfl, rfl,
    fun _ => rfl, ?_, ?_, ?_, ?_, ?_, ?_⟩
  · intro i _ e he; rw [(hl i).1] at he; simp at he
  · intro i _ e he; rw [(hl i).2] at he; simp at he
  · intro i hi; rw [hsz] at hi ⊢; exact hr.bound i hi
  · intro i _ c hc; rw [hcid i] at hc; simp at hc
  · rw [hroot]; exact ⟨rfl, rfl⟩
  · intro j _; exact Or.inl (hpid j)
  · intro i _ c hc; rw [hcid i] at hc; simp at hc
  · intro j _ _ _; exact hcid j
  · intro j hj hj0 _
    rw [hsz] at hj
    rw [nd_freshBook b j hj]
    have : (j == 0) = false := by simpa using hj0
    rw [this]; rfl
  · intro j hj hl'
    rcases hl' with h | h
    · subst h; rw [hroot]; show (0 : Nat) ≤ _; omega
    · exact absurd (hpid j) h
  · intro j x hx; rw [(hl j).1] at hx; simp at hx
  · intro j x hx; rw [(hl j).2] at hx; simp at hx
  · intro j; rw [(hl j).1]; exact List.Pairwise.nil
  · intro j; rw [(hl j).2]; exact List.Pairwise.nil
  · intro j hj hl'
    rcases hl' with h | h
    · subst h; rw [hroot, hF.root.1]; rfl
    · exact absurd (hpid j) h
  · intro j hj; simp at hj

include hF hr in
/-- The relinking pass of `readFromFile` restores the book's links and a sound structure. -/
theorem relinked_spec (hsmall : b.size < DEPTH_INF) : RelinkedAs b (relinked b) := by
  have hn := hF.nonempty
  have hdfs := di_dfs b r hF hr (b.size + 1) 0 (freshBook b) [] (by omega) hn (Or.inl rfl) (di_fresh b r hF hr hsmall)
  have hL : relinked b = (initPos b (b.size + 1) 0 (freshBook b, [])).1 := rfl
  rw [← hL] at hdfs
  generalize relinked b = L at hdfs
  generalize (initPos b (b.size + 1) 0 (freshBook b, [])).2 = done at hdfs
  obtain ⟨hD, h0, _, _⟩ := hdfs
  -- every node has been visited
  have hall : ∀ j, j < b.size → j ∈ done := by
    have hpath : ∀ k len, Path b 0 k len → k ∈ done := by
      intro k len hp
      induction hp with
      | refl => exact h0
      | step _ hk ih => exact (hD.doneFull _ ih).2.2 _ hk
    intro j hj
    exact hpath j _ (path_of_depth b hF.struct _ j hj rfl)
  have hch : ∀ j, (L.nd j).children = (b.nd j).children := by
    intro j
    apply sortedCh_ext _ _ (hD.chSorted j) (hF.sorted j).1
    intro x
    constructor
    · exact hD.chSub j x
    · intro hx
      by_cases hj : j < b.size
      · exact (hD.doneFull j (hall j hj)).2.1 x hx
      · rw [nd_oob _ _ hj] at hx; simp [default_children] at hx
  have hpa : ∀ j, (L.nd j).parents = (b.nd j).parents := by
    intro j
    apply sortedPa_ext _ _ (hD.paSorted j) (hF.sorted j).2
    intro x
    constructor
    · exact hD.paSub j x
    · intro hx
      by_cases hj : j < b.size
      · have hw := hF.wf.parent j hj x hx
        have hxc : (x.1, j) ∈ (L.nd x.2).children := by rw [hch x.2]; exact hw.2
        exact (hD.inv.wf.child x.2 (by rw [hD.size]; exact hw.1) (x.1, j) hxc).2
      · rw [nd_oob _ _ hj] at hx; simp [default_parents] at hx
  have hscal : ∀ j, j < b.size → (L.nd j).scal = (freshNode (j == 0) (b.nd j)).scal := by
    intro j hj; rw [hD.scal j, nd_freshBook b j hj]
  refine ⟨⟨hD.inv.nonempty, hD.inv.wf, fun j => ⟨hD.chSorted j, hD.paSorted j⟩, ⟨r, hD.inv.rk⟩, ⟨hD.inv.root.1, hD.inv.root.2, ?_⟩, ?_, hD.inv.par⟩,
    hD.size, hD.costs, hD.pending, hch, hpa, ?_, ?_⟩
  · have := scal_fields (hscal 0 hn)
    simp only [pe2, this.2.2.2.2.2.2.2.1, this.2.2.2.2.2.2.2.2]; rfl
  · intro i h0' hi
    rw [hD.size] at hi
    rcases hD.inv.dep i (by rw [hD.size]; exact hi) with h | h
    · obtain ⟨q, hq, _⟩ := (hF.depth i h0' hi).1
      have : parentIds (L.nd i) = parentIds (b.nd i) := by simp only [parentIds, hpa i]
      rw [this] at h; rw [h] at hq; simp at hq
    · exact h
  · intro j
    by_cases hj : j < b.size
    · have := scal_fields (hscal j hj)
      refine ⟨this.1.trans ?_, this.2.1.trans ?_, this.2.2.1.trans ?_, this.2.2.2.1.trans ?_⟩ <;>
        (cases hj0 : (j == 0) <;> rfl)
    · rw [nd_oob _ _ (by rw [hD.size]; exact hj), nd_oob _ _ hj]; exact ⟨rfl, rfl, rfl, rfl⟩
  · intro j hj
    have := scal_fields (hscal j hj)
    constructor
    · simp only [scores3, this.2.2.2.2.1, this.2.2.2.2.2.1, this.2.2.2.2.2.2.1]
      cases hj0 : (j == 0) <;> rfl
    · intro hj0
      have hb : (j == 0) = false := by simpa using hj0
      simp only [pe2, this.2.2.2.2.2.2.2.1, this.2.2.2.2.2.2.2.2, hb]; rfl

end relink

/-- Saving and reloading reproduces the same graph and scores. -/
theorem reload_roundtrip (b : Book) (hF : FixedPoint b) (hp : b.pending = []) (hsmall : b.size < DEPTH_INF) :
    reload true b = b := by
  obtain ⟨r, hr⟩ := hF.acyclic
  exact reload_roundtrip_partial b hF hp (relinked_spec b r hF hr hsmall)

end Bk
