import TexelVerif.BookBuild.Distance
/-!
# BookBuild: initialisation after loading (`readFromFile` → `root->updateScores`)

After deserialisation every node carries INVALID scores.  `updateNegaMax(root, true, true, true)` then walks down the
`updateChildren` branch (children first, skipping nodes whose negamax score is already valid).  `down_spec`: as long as
every node with a valid negamax score satisfies its equations together with all its descendants (`Settled`), one such
call makes the node it is called on and all its descendants satisfy theirs and keeps `Settled`.
`updateScores_init`: from the root of a structurally sound book with fresh scores the repaired `updateScores` reaches
the fixed point.
-/
namespace Bk
open Book Propagate

theorem path_uncons (b : Book) {i k len : Nat} (h : Path b i k (len + 1)) : ∃ c ∈ childIds (b.nd i), Path b c k len := by
  generalize hl : len + 1 = l at h
  induction h generalizing len with
  | refl => omega
  | step hp hk ih =>
    rename_i j k l'
    have hl' : l' = len := by omega
    subst hl'
    cases hp with
    | refl => exact ⟨k, hk, Path.refl⟩
    | step hp' hk' =>
      obtain ⟨c, hc, hpc⟩ := ih rfl
      exact ⟨c, hc, Path.step hpc hk⟩

theorem path_rank (b : Book) (r : Nat → Nat) (hwf : WF b) (hr : Ranked b r) {i k len : Nat} (hi : i < b.size)
    (h : Path b i k len) : k < b.size ∧ r i + len ≤ r k := by
  induction h with
  | refl => exact ⟨hi, by omega⟩
  | step hp hk ih =>
    rename_i j k l
    have := wf_child b hwf j k ih.1 hk
    have h2 := hr.mono j ih.1 k hk
    exact ⟨this.1, by omega⟩

section init
variable (b0 : Book) (r : Nat → Nat) (hwf : WF b0) (hr : Ranked b0 r) (start : Nat)

/-- node `j` and everything below it satisfy the negamax / expansion cost equations -/
def GoodBelow (s : US) (j : Nat) : Prop := ∀ k len, Path b0 j k len → nmOk s.b k

/-- every node that already has a valid negamax score is settled together with all its descendants -/
def Settled (s : US) : Prop := ∀ j, j < b0.size → (s.b.nd j).nm ≠ INVALID → GoodBelow b0 s j

include hwf hr in
/-- `computeNegaMax` on a node all of whose children are good below -/
theorem nmStep_good (s : US) (c : Nat) (hc : c < b0.size) (hI : InvUp b0 s) (hJ : Settled b0 s)
    (hch : ∀ c' ∈ childIds (b0.nd c), GoodBelow b0 s c') :
    InvUp b0 (nmStep true s c).1 ∧ Settled b0 (nmStep true s c).1 ∧ GoodBelow b0 (nmStep true s c).1 c ∧
    ∀ j, GoodBelow b0 s j → GoodBelow b0 (nmStep true s c).1 j := by
  have hsp := specUp b0 r hwf hr 0
  have hI' : InvUp b0 (nmStep true s c).1 := hsp.inv_step s c hI hc
  have hokc : nmOk (nmStep true s c).1.b c := up_ok_step b0 r hr s c hI hc
  -- nodes below c are not parents of c
  have hbelow : ∀ c' ∈ childIds (b0.nd c), ∀ k len, Path b0 c' k len → k ∉ parentIds (b0.nd c) := by
    intro c' hc' k len hp hk
    have h1 := hr.mono c hc c' hc'
    have h2 := path_rank b0 r hwf hr (wf_child b0 hwf c c' hc hc').1 hp
    have h3 := rank_parent b0 r hwf hr c k hc hk
    omega
  by_cases hun : s.b.scoresOf c = scores3 (s.b.nd c)
  · -- nothing changes
    have hs : nmStep true s c = (s, false) := nmStep_unchanged s c hun
    rw [hs]
    refine ⟨hI, hJ, ?_, fun j h => h⟩
    intro k len hp
    cases len with
    | zero => cases hp; exact hun
    | succ l =>
      obtain ⟨c', hc', hp'⟩ := path_uncons b0 hp
      exact hch c' hc' k l hp'
  · have hgood : GoodBelow b0 (nmStep true s c).1 c := by
      intro k len hp
      cases len with
      | zero => cases hp; exact hokc
      | succ l =>
        obtain ⟨c', hc', hp'⟩ := path_uncons b0 hp
        exact hsp.frame_changed s c k hI hc (hbelow c' hc' k l hp') (hch c' hc' k l hp')
    have hmono : ∀ j, GoodBelow b0 s j → GoodBelow b0 (nmStep true s c).1 j := by
      intro j hg k len hp
      by_cases hk : k ∈ parentIds (b0.nd c)
      · -- then c is below j and was fine: the step cannot have changed it
        have hck := (wf_parent b0 hwf c k hc hk).2
        exact absurd (hg c (len + 1) (Path.step hp hck)) hun
      · exact hsp.frame_changed s c k hI hc hk (hg k len hp)
    refine ⟨hI', ?_, hgood, hmono⟩
    intro j hj hnm
    by_cases hjc : j = c
    · subst hjc; exact hgood
    · have hnd : (nmStep true s c).1.b.nd j = s.b.nd j := by
        rw [nmStep_changed s c hun]; exact nd_setS3_ne _ _ _ _ (Ne.symm hjc)
      rw [hnd] at hnm
      exact hmono j (hJ j hj hnm)

include hwf hr in
theorem down_spec : ∀ (f c : Nat) (s : US), b0.size - r c < f → c < b0.size → InvUp b0 s → Settled b0 s →
    InvUp b0 (updNM true start f c false true false s) ∧ Settled b0 (updNM true start f c false true false s) ∧
    GoodBelow b0 (updNM true start f c false true false s) c ∧
    ∀ j, GoodBelow b0 s j → GoodBelow b0 (updNM true start f c false true false s) j := by
  intro f
  induction f with
  | zero => intro c s h; omega
  | succ f ih =>
    intro c s hf hc hI hJ
    simp only [updNM, Bool.not_false, Bool.true_and, Bool.false_and, Bool.false_eq_true, if_false, if_true]
    by_cases hnm : ((s.b.nd c).nm != INVALID) = true
    · simp only [hnm, if_true]
      exact ⟨hI, hJ, hJ c hc (by simpa using hnm), fun j h => h⟩
    · simp only [hnm, Bool.false_eq_true, if_false]
      have hcid : childIds (s.b.nd c) = childIds (b0.nd c) := by simp only [childIds, hI.children c]
      rw [hcid]
      have hfold := fold_spec (Inv := fun s => InvUp b0 s ∧ Settled b0 s) (ok := GoodBelow b0)
        (fun c' acc => updNM true start f c' false true false acc) (fun c' => c' < b0.size ∧ b0.size - r c' < f)
        (fun c' s' hP his => by
          have := ih c' s' hP.2 hP.1 his.1 his.2
          exact ⟨⟨this.1, this.2.1⟩, this.2.2.1, this.2.2.2⟩)
        (childIds (b0.nd c)) s
        (fun c' hc' => by
          have h1 := (wf_child b0 hwf c c' hc hc').1
          have h2 := hr.mono c hc c' hc'
          have h3 := hr.bound c' h1
          exact ⟨h1, by omega⟩)
        ⟨hI, hJ⟩
      generalize (childIds (b0.nd c)).foldl (fun acc c' => updNM true start f c' false true false acc) s = s1 at hfold
      obtain ⟨⟨hI1, hJ1⟩, hgch, hmono1⟩ := hfold
      have hstep := nmStep_good b0 r hwf hr s1 c hc hI1 hJ1 hgch
      exact ⟨hstep.1, hstep.2.1, hstep.2.2.1, fun j h => hstep.2.2.2 j (hmono1 j h)⟩

end init

/-- From the root of a structurally sound book in which no node has a valid negamax score yet and every non-root
    node satisfies its path-error equation (in particular: all scores fresh), `updateScores` reaches the fixed point. -/
theorem updateScores_init (b : Book) (hS : StructOk b)
    (hfresh : ∀ j, j < b.size → (b.nd j).nm = INVALID)
    (hpe : ∀ j, j < b.size → j ≠ 0 → peOk b j) :
    FixedPoint (updateScores true b 0) ∧ SameBase (updateScores true b 0) b := by
  obtain ⟨r, hr⟩ := hS.acyclic
  have hwf := hS.wf
  have hn := hS.nonempty
  let s0 : US := { b := b, tu := [0] }
  have hI0 : InvUp b s0 :=
    ⟨rfl, rfl, rfl, fun _ => rfl, by intro j hj; simp [s0] at hj; subst hj; exact hn,
     by intro j hj
        by_cases h : j = 0
        · right; simp [s0, h]
        · left; exact hpe j hj h⟩
  have hJ0 : Settled b s0 := fun j hj h => absurd (hfresh j hj) h
  -- the first pass: children (initialisation branch), then the root itself; the root has no parents
  have hpar0 : parentIds (b.nd 0) = [] := by simp only [parentIds, hS.root.2.1]; rfl
  have hfold := fold_spec (Inv := fun s => InvUp b s ∧ Settled b s) (ok := GoodBelow b)
    (fun c' acc => updNM true 0 b.size c' false true false acc) (fun c' => c' < b.size ∧ b.size - r c' < b.size)
    (fun c' s' hP his => by
      have := down_spec b r hwf hr 0 b.size c' s' hP.2 hP.1 his.1 his.2
      exact ⟨⟨this.1, this.2.1⟩, this.2.2.1, this.2.2.2⟩)
    (childIds (b.nd 0)) s0
    (fun c' hc' => by
      have h1 := (wf_child b hwf 0 c' hn hc').1
      have h2 := hr.mono 0 hn c' hc'
      exact ⟨h1, by omega⟩)
    ⟨hI0, hJ0⟩
  have htop : updNM true 0 (b.size + 1) 0 true true true s0 =
      (nmStep true ((childIds (b.nd 0)).foldl (fun acc c' => updNM true 0 b.size c' false true false acc) s0) 0).1 := by
    simp only [updNM, Bool.not_true, Bool.false_and, Bool.false_eq_true, if_false, if_true, Bool.true_and, beq_self_eq_true,
      Bool.or_true]
    have : ∀ s : US, InvUp b s → parentIds ((nmStep true s 0).1.b.nd 0) = [] := by
      intro s hs
      have : InvUp b (nmStep true s 0).1 := (specUp b r hwf hr 0).inv_step s 0 hs hn
      show List.map (·.2) ((nmStep true s 0).1.b.nd 0).parents = []
      rw [this.parents 0, hS.root.2.1]; rfl
    rw [this _ hfold.1.1]; rfl
  generalize (childIds (b.nd 0)).foldl (fun acc c' => updNM true 0 b.size c' false true false acc) s0 = s1 at hfold htop
  obtain ⟨⟨hI1, hJ1⟩, hgch, _⟩ := hfold
  have hstep := nmStep_good b r hwf hr s1 0 hn hI1 hJ1 hgch
  obtain ⟨hI2, _, hgood, _⟩ := hstep
  have hnm2 : ∀ j, j < b.size → nmOk (nmStep true s1 0).1.b j := by
    intro j hj
    exact hgood j (b.nd j).depth (path_of_depth b hS _ j hj rfl)
  have h2 := second_pass_spec b r hwf hr (nmStep true s1 0).1 hI2 hnm2
  have hres : updateScores true b 0 =
      (sortByDepth (nmStep true s1 0).1.b (nmStep true s1 0).1.tu).foldl (fun acc n => updPE (b.size + 1) n acc) (nmStep true s1 0).1.b := by
    simp only [updateScores]
    rw [show ({ b := b, tu := [0] } : US) = s0 from rfl, htop]
  rw [hres]
  have hss := h2.1.sameStruct hS.root.1
  refine ⟨FixedPoint.mk' (hS.transfer hss) ?_ ?_, h2.1⟩
  · intro i hi; rw [hss.size] at hi; exact h2.2.1 i hi
  · intro i hi; rw [hss.size] at hi; exact h2.2.2 i hi

end Bk
