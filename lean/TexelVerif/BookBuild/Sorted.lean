import TexelVerif.BookBuild.LinkSpec
/-!
# BookBuild: the link containers are ordered (`std::map<U16,…>` / `std::set<ParentInfo>`)

Child lists are strictly ordered by move, parent lists strictly by (move, parent).  Two such lists with the same
members are equal, and the ordered insertions keep the order.
-/
namespace Bk

/-- two lists that are pairwise ordered by an asymmetric relation and have the same members are equal -/
theorem pairwise_ext {α : Type} (R : α → α → Prop) (hasym : ∀ a c, R a c → R c a → False) :
    ∀ (l1 l2 : List α), l1.Pairwise R → l2.Pairwise R → (∀ x, x ∈ l1 ↔ x ∈ l2) → l1 = l2 := by
  intro l1
  induction l1 with
  | nil =>
    intro l2 _ _ h
    cases l2 with
    | nil => rfl
    | cons y t => exact absurd ((h y).mpr (by simp)) (by simp)
  | cons x t ih =>
    intro l2 h1 h2 h
    cases l2 with
    | nil => exact absurd ((h x).mp (by simp)) (by simp)
    | cons y u =>
      have hx1 := List.pairwise_cons.mp h1
      have hy2 := List.pairwise_cons.mp h2
      have hirr : ∀ a, ¬ R a a := fun a ha => hasym a a ha ha
      have hxy : x = y := by
        have hx : x ∈ y :: u := (h x).mp (by simp)
        have hy : y ∈ x :: t := (h y).mpr (by simp)
        rcases List.mem_cons.mp hx with e | hxu
        · exact e
        · rcases List.mem_cons.mp hy with e | hyt
          · exact e.symm
          · exact absurd (hx1.1 y hyt) (fun hr => hasym x y hr (hy2.1 x hxu))
      subst hxy
      congr 1
      apply ih u hx1.2 hy2.2
      intro z
      constructor
      · intro hz
        rcases List.mem_cons.mp ((h z).mp (by simp [hz])) with e | hzu
        · subst e; exact absurd (hx1.1 z hz) (hirr z)
        · exact hzu
      · intro hz
        rcases List.mem_cons.mp ((h z).mpr (by simp [hz])) with e | hzt
        · subst e; exact absurd (hy2.1 z hz) (hirr z)
        · exact hzt


theorem linkLt_asymm (a c : Nat × Nat) : linkLt a c = true → linkLt c a = true → False := by
  simp only [linkLt, Bool.or_eq_true, decide_eq_true_eq, Bool.and_eq_true, beq_iff_eq]
  omega

theorem linkLt_trans (a c d : Nat × Nat) : linkLt a c = true → linkLt c d = true → linkLt a d = true := by
  simp only [linkLt, Bool.or_eq_true, decide_eq_true_eq, Bool.and_eq_true, beq_iff_eq]
  omega

theorem linkLt_total (a c : Nat × Nat) : linkLt a c = false → a ≠ c → linkLt c a = true := by
  intro h hne
  have : a.1 ≠ c.1 ∨ a.2 ≠ c.2 := by
    by_cases h1 : a.1 = c.1
    · right; intro h2; exact hne (Prod.ext h1 h2)
    · exact Or.inl h1
  simp only [linkLt, Bool.or_eq_false_iff, decide_eq_false_iff_not, Bool.and_eq_false_iff, beq_eq_false_iff_ne,
    Bool.or_eq_true, decide_eq_true_eq, Bool.and_eq_true, beq_iff_eq] at h ⊢
  omega

theorem sortedCh_ext (l1 l2 : List (Nat × Nat)) (h1 : SortedCh l1) (h2 : SortedCh l2) (h : ∀ x, x ∈ l1 ↔ x ∈ l2) : l1 = l2 :=
  pairwise_ext _ (fun a c h1 h2 => by omega) l1 l2 h1 h2 h

theorem sortedPa_ext (l1 l2 : List (Nat × Nat)) (h1 : SortedPa l1) (h2 : SortedPa l2) (h : ∀ x, x ∈ l1 ↔ x ∈ l2) : l1 = l2 :=
  pairwise_ext _ linkLt_asymm l1 l2 h1 h2 h

/-- in a child list ordered by move, the move determines the entry -/
theorem sortedCh_unique (l : List (Nat × Nat)) (h : SortedCh l) (x y : Nat × Nat) (hx : x ∈ l) (hy : y ∈ l) (he : x.1 = y.1) :
    x = y := by
  induction l with
  | nil => simp at hx
  | cons e t ih =>
    have hp := List.pairwise_cons.mp h
    rcases List.mem_cons.mp hx with rfl | hxt
    · rcases List.mem_cons.mp hy with rfl | hyt
      · rfl
      · have := hp.1 y hyt; omega
    · rcases List.mem_cons.mp hy with rfl | hyt
      · have := hp.1 x hxt; omega
      · exact ih hp.2 hxt hyt

theorem sortedCh_insertChild (l : List (Nat × Nat)) (mv c : Nat) (h : SortedCh l) : SortedCh (insertChild l mv c) := by
  induction l with
  | nil => simp [insertChild, SortedCh]
  | cons e t ih =>
    have hp := List.pairwise_cons.mp h
    simp only [insertChild]
    split
    · next hlt =>
      apply List.pairwise_cons.mpr
      refine ⟨?_, h⟩
      intro y hy
      rcases List.mem_cons.mp hy with rfl | hyt
      · exact hlt
      · have := hp.1 y hyt; show mv < y.1; omega
    · split
      · exact h
      · next h1 h2 =>
        apply List.pairwise_cons.mpr
        refine ⟨?_, ih hp.2⟩
        intro y hy
        rcases mem_insertChild_cases _ _ _ _ hy with hyt | rfl
        · exact hp.1 y hyt
        · show e.1 < mv; omega

theorem sortedPa_insertParent (l : List (Nat × Nat)) (mv p : Nat) (h : SortedPa l) : SortedPa (insertParent l mv p) := by
  induction l with
  | nil => simp [insertParent, SortedPa]
  | cons e t ih =>
    have hp := List.pairwise_cons.mp h
    simp only [insertParent]
    split
    · next hlt =>
      apply List.pairwise_cons.mpr
      refine ⟨?_, h⟩
      intro y hy
      rcases List.mem_cons.mp hy with rfl | hyt
      · exact hlt
      · exact linkLt_trans _ _ _ hlt (hp.1 y hyt)
    · split
      · exact h
      · next h1 h2 =>
        apply List.pairwise_cons.mpr
        refine ⟨?_, ih hp.2⟩
        intro y hy
        rcases (mem_insertParent _ _ _ _).mp hy with hyt | rfl
        · exact hp.1 y hyt
        · exact linkLt_total _ _ (by simpa using h1) (fun h => h2 h.symm)

open Book Propagate

/-- `updateDepth` touches no link list -/
theorem updDepth_links (f i : Nat) (b : Book) (j : Nat) :
    ((updDepth f i b).nd j).children = (b.nd j).children ∧ ((updDepth f i b).nd j).parents = (b.nd j).parents := by
  rw [updDepth_eq_run]
  have := run_inv sysDepth (fun s => ∀ j, (s.nd j).children = (b.nd j).children ∧ (s.nd j).parents = (b.nd j).parents)
    (by intro s k hs j'
        simp only [sysDepth]
        rw [depthStep_eq]; split
        · show ((s.setDepth k _).nd j').children = _ ∧ ((s.setDepth k _).nd j').parents = _
          unfold Book.setDepth
          rw [nd_setNode]; split
          · next h => rw [← h.1]; exact hs k
          · exact hs j'
        · exact hs j') f i b (fun _ => ⟨rfl, rfl⟩)
  exact this j

theorem sortedLinks_setChildren (b : Book) (p : Nat) (l : List (Nat × Nat)) (hl : SortedCh l) (h : SortedLinks b) :
    SortedLinks (b.setNode p { b.nd p with children := l }) := by
  intro k
  rw [nd_setNode]; split
  · exact ⟨hl, (h p).2⟩
  · exact h k

theorem sortedLinks_setParents (b : Book) (c : Nat) (l : List (Nat × Nat)) (hl : SortedPa l) (h : SortedLinks b) :
    SortedLinks (b.setNode c { b.nd c with parents := l }) := by
  intro k
  rw [nd_setNode]; split
  · exact ⟨(h c).1, hl⟩
  · exact h k

theorem sortedLinks_linkOnly (b : Book) (c mv p : Nat) (h : SortedLinks b) : SortedLinks (linkOnly b c mv p) := by
  unfold linkOnly
  have h1 := sortedLinks_setChildren b p (insertChild (b.nd p).children mv c) (sortedCh_insertChild _ _ _ (h p).1) h
  exact sortedLinks_setParents _ c _ (sortedPa_insertParent _ _ _ (h1 c).2) h1

theorem sortedLinks_addLink (b : Book) (c mv p : Nat) (h : SortedLinks b) : SortedLinks (addLink b c mv p) := by
  intro j
  rw [addLink_eq]
  have hl := updDepth_links ((linkOnly b c mv p).size + 1) c (linkOnly b c mv p) j
  rw [hl.1, hl.2]
  exact sortedLinks_linkOnly b c mv p h j

end Bk
