import TexelVerif.BookBuild.Basic
/-!
# BookBuild: the 16-byte book record (`BookNode::serialize` / `deSerialize`, bookbuild.hpp:659-671)

`Serializer::serialize<16>(data, hashKey (U64), move (U16), searchScore (S16), searchTime (U32))` copies the values
byte-wise in host order; the model fixes little-endian (x86-64, the only platform the harness runs on).
-/
namespace Bk

/-- the four stored fields of a node -/
structure Rec where
  key : Nat
  move : Nat
  score : Int
  time : Nat
deriving Repr, DecidableEq

def leBytes (n : Nat) : Nat → List Nat
  | 0 => []
  | k+1 => n % 256 :: leBytes (n / 256) k

def ofLeBytes : List Nat → Nat
  | [] => 0
  | b :: t => b + 256 * ofLeBytes t

/-- S16 ↔ U16 -/
def toU16 (s : Int) : Nat := (s % 65536).toNat
def ofU16 (n : Nat) : Int := if n < 32768 then (n : Int) else (n : Int) - 65536

def Rec.encode (r : Rec) : List Nat :=
  leBytes r.key 8 ++ leBytes r.move 2 ++ leBytes (toU16 r.score) 2 ++ leBytes r.time 4

def Rec.decode (l : List Nat) : Option Rec :=
  if l.length = 16 then
    some { key := ofLeBytes (l.take 8), move := ofLeBytes ((l.drop 8).take 2),
           score := ofU16 (ofLeBytes ((l.drop 10).take 2)), time := ofLeBytes ((l.drop 12).take 4) }
  else none

def Node.toRec (n : Node) : Rec := { key := n.key, move := n.bestMove, score := n.search, time := n.time }

theorem length_leBytes (n k : Nat) : (leBytes n k).length = k := by
  induction k generalizing n with
  | zero => rfl
  | succ k ih => simp [leBytes, ih]

theorem ofLeBytes_leBytes (n k : Nat) : ofLeBytes (leBytes n k) = n % 256 ^ k := by
  induction k generalizing n with
  | zero => simp [leBytes, ofLeBytes, Nat.mod_one]
  | succ k ih => simp only [leBytes, ofLeBytes, ih]; rw [Nat.pow_succ', Nat.mod_mul]

theorem leBytes_lt (n k : Nat) : ∀ x ∈ leBytes n k, x < 256 := by
  induction k generalizing n with
  | zero => simp [leBytes]
  | succ k ih =>
    intro x hx
    simp only [leBytes, List.mem_cons] at hx
    rcases hx with rfl | hx
    · exact Nat.mod_lt _ (by decide)
    · exact ih _ x hx

theorem ofU16_toU16 (s : Int) (h1 : -32768 ≤ s) (h2 : s ≤ 32767) : ofU16 (toU16 s) = s := by
  unfold ofU16 toU16
  by_cases hs : 0 ≤ s
  · have : s % 65536 = s := Int.emod_eq_of_lt hs (by omega)
    rw [this]
    have h3 : (s.toNat : Int) = s := Int.toNat_of_nonneg hs
    have h4 : s.toNat < 32768 := by omega
    simp [h4, h3]
  · have h5 : s % 65536 = s + 65536 := by
      have := Int.add_mul_emod_self_right s 1 65536
      rw [Int.one_mul] at this
      rw [← this]
      exact Int.emod_eq_of_lt (by omega) (by omega)
    rw [h5]
    have h3 : ((s + 65536).toNat : Int) = s + 65536 := Int.toNat_of_nonneg (by omega)
    have h4 : ¬ (s + 65536).toNat < 32768 := by omega
    simp only [h4, if_false, h3]; omega

theorem toU16_lt (s : Int) : toU16 s < 65536 := by
  unfold toU16
  have := Int.emod_lt_of_pos s (show (0 : Int) < 65536 by decide)
  have := Int.emod_nonneg s (show (65536 : Int) ≠ 0 by decide)
  omega

/-- reading back a written record gives the record (all four fields in their C++ ranges) -/
theorem decode_encode (r : Rec) (hk : r.key < 2 ^ 64) (hm : r.move < 2 ^ 16) (hs1 : -32768 ≤ r.score)
    (hs2 : r.score ≤ 32767) (ht : r.time < 2 ^ 32) : Rec.decode r.encode = some r := by
  have hlen : r.encode.length = 16 := by simp [Rec.encode, length_leBytes]
  unfold Rec.decode
  rw [if_pos hlen]
  have la := length_leBytes r.key 8
  have lb := length_leBytes r.move 2
  have lc := length_leBytes (toU16 r.score) 2
  have hE : r.encode = leBytes r.key 8 ++ (leBytes r.move 2 ++ (leBytes (toU16 r.score) 2 ++ leBytes r.time 4)) := by
    simp [Rec.encode, List.append_assoc]
  have d8 : r.encode.drop 8 = leBytes r.move 2 ++ (leBytes (toU16 r.score) 2 ++ leBytes r.time 4) := by
    rw [hE]; exact List.drop_left' la
  have d10 : r.encode.drop 10 = leBytes (toU16 r.score) 2 ++ leBytes r.time 4 := by
    have : r.encode.drop 10 = (r.encode.drop 8).drop 2 := by rw [List.drop_drop]
    rw [this, d8]; exact List.drop_left' lb
  have d12 : r.encode.drop 12 = leBytes r.time 4 := by
    have : r.encode.drop 12 = (r.encode.drop 10).drop 2 := by rw [List.drop_drop]
    rw [this, d10]; exact List.drop_left' lc
  have e1 : r.encode.take 8 = leBytes r.key 8 := by rw [hE]; exact List.take_left' la
  have e2 : (r.encode.drop 8).take 2 = leBytes r.move 2 := by rw [d8]; exact List.take_left' lb
  have e3 : (r.encode.drop 10).take 2 = leBytes (toU16 r.score) 2 := by rw [d10]; exact List.take_left' lc
  have e4 : (r.encode.drop 12).take 4 = leBytes r.time 4 := by
    rw [d12]; exact List.take_of_length_le (by rw [length_leBytes]; omega)
  rw [e1, e2, e3, e4, ofLeBytes_leBytes, ofLeBytes_leBytes, ofLeBytes_leBytes, ofLeBytes_leBytes]
  have h16 := toU16_lt r.score
  rw [Nat.mod_eq_of_lt (by omega), Nat.mod_eq_of_lt (by omega), Nat.mod_eq_of_lt (by omega), Nat.mod_eq_of_lt (by omega),
    ofU16_toU16 r.score hs1 hs2]

end Bk
