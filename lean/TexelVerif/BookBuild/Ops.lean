import TexelVerif.BookBuild.UpdateSpec
/-!
# BookBuild: the score-changing operations preserve `FixedPoint`

`setSearchResult`, `addPending`, `removePending` and a bare `updateScores` for the repaired algorithm.
-/
namespace Bk
open Book

/-- the structural half of `FixedPoint` (everything except the two families of score equations) -/
structure StructOk (b : Book) : Prop where
  nonempty : 0 < b.size
  wf : WF b
  sorted : SortedLinks b
  acyclic : Acyclic b
  root : (b.nd 0).depth = 0 ∧ (b.nd 0).parents = [] ∧ pe2 (b.nd 0) = (0, 0)
  depth : ∀ i, 0 < i → i < b.size → depthOk b i
  parity : ParityOk b

theorem FixedPoint.struct {b : Book} (h : FixedPoint b) : StructOk b :=
  ⟨h.nonempty, h.wf, h.sorted, h.acyclic, h.root, h.depth, h.parity⟩

theorem FixedPoint.mk' {b : Book} (h : StructOk b) (hs : ∀ i, i < b.size → nmOk b i) (hp : ∀ i, i < b.size → peOk b i) :
    FixedPoint b :=
  ⟨h.nonempty, h.wf, h.sorted, h.acyclic, h.root, h.depth, h.parity, hs, hp⟩

/-- same size, and every node has the same links and depth; the root keeps its path errors -/
structure SameStruct (b' b : Book) : Prop where
  size : b'.size = b.size
  children : ∀ j, (b'.nd j).children = (b.nd j).children
  parents : ∀ j, (b'.nd j).parents = (b.nd j).parents
  depth : ∀ j, (b'.nd j).depth = (b.nd j).depth
  rootpe : pe2 (b'.nd 0) = pe2 (b.nd 0)

theorem WF.transfer {b' b : Book} (h : SameStruct b' b) (hw : WF b) : WF b' := by
  constructor
  · intro i hi e he
    rw [h.size] at hi; rw [h.children i] at he
    have := hw.child i hi e he
    rw [h.size, h.parents e.2]; exact this
  · intro i hi e he
    rw [h.size] at hi; rw [h.parents i] at he
    have := hw.parent i hi e he
    rw [h.size, h.children e.2]; exact this

theorem Ranked.transfer {b' b : Book} {r : Nat → Nat} (h : SameStruct b' b) (hr : Ranked b r) : Ranked b' r := by
  constructor
  · intro i hi; rw [h.size] at hi ⊢; exact hr.bound i hi
  · intro i hi c hc
    rw [h.size] at hi
    simp only [childIds, h.children i] at hc
    exact hr.mono i hi c hc

theorem StructOk.transfer {b' b : Book} (h : SameStruct b' b) (hs : StructOk b) : StructOk b' := by
  refine ⟨by rw [h.size]; exact hs.nonempty, hs.wf.transfer h,
    fun j => by rw [h.children j, h.parents j]; exact hs.sorted j, ?_, ?_, ?_, ?_⟩
  · obtain ⟨r, hr⟩ := hs.acyclic; exact ⟨r, hr.transfer h⟩
  · rw [h.depth 0, h.parents 0, h.rootpe]; exact hs.root
  · intro i h0 hi
    rw [h.size] at hi
    have := hs.depth i h0 hi
    unfold depthOk at this ⊢
    simp only [parentIds, h.parents i, h.depth] at this ⊢
    exact this
  · intro i hi c hc
    rw [h.size] at hi
    simp only [childIds, h.children i] at hc
    rw [h.depth i, h.depth c]
    exact hs.parity i hi c hc

theorem SameBase.sameStruct {b' b : Book} (h : SameBase b' b) (h0 : (b.nd 0).depth = 0) : SameStruct b' b :=
  ⟨h.size, fun j => by have := congrArg Node.children (h.base j); exact this,
   fun j => by have := congrArg Node.parents (h.base j); exact this,
   fun j => by have := congrArg Node.depth (h.base j); exact this, h.rootpe 0 h0⟩

/-- `updateScores` (repaired) on a structurally sound book in which only `start` and `start`'s parents may violate the
    negamax/cost equations and only `start` may violate the path-error equations. -/
theorem updateScores_fixedPoint (b : Book) (start : Nat) (hS : StructOk b) (hs : start < b.size)
    (hnm : ∀ j, j < b.size → j ≠ start → j ∉ parentIds (b.nd start) → nmOk b j)
    (hpe : ∀ j, j < b.size → j ≠ start → peOk b j) :
    FixedPoint (updateScores true b start) := by
  obtain ⟨r, hr⟩ := hS.acyclic
  have h := updateScores_spec b start r hS.wf hr hs hnm hpe
  have hss := h.1.sameStruct hS.root.1
  refine FixedPoint.mk' (hS.transfer hss) ?_ ?_
  · intro i hi; rw [hss.size] at hi; exact h.2.1 i hi
  · intro i hi; rw [hss.size] at hi; exact h.2.2 i hi

/-- an explicit `node->updateScores(bookData)` on a book at its fixed point -/
theorem updateScores_preserves (b : Book) (start : Nat) (h : FixedPoint b) (hs : start < b.size) :
    FixedPoint (updateScores true b start) :=
  updateScores_fixedPoint b start h.struct hs (fun j hj _ _ => h.scores j hj) (fun j hj _ => h.pathErr j hj)

/-- changing only best move / search score / search time of node `i` -/
theorem setSearch_sameStruct (b : Book) (i mv : Nat) (sc : Int) (t : Nat) :
    SameStruct (b.setNode i { b.nd i with bestMove := mv, search := sc, time := t }) b := by
  refine ⟨by simp, ?_, ?_, ?_, ?_⟩ <;>
  · first
    | (intro j; rw [nd_setNode]; split <;> simp_all)
    | (rw [nd_setNode]; split <;> simp_all [pe2])

theorem setSearchResult_preserves (b : Book) (i mv : Nat) (sc : Int) (t : Nat) (h : FixedPoint b) (hi : i < b.size) :
    FixedPoint (setSearchResult true b i mv sc t) := by
  show FixedPoint (updateScores true (b.setNode i { b.nd i with bestMove := mv, search := sc, time := t }) i)
  have hss := setSearch_sameStruct b i mv sc t
  generalize hb1 : b.setNode i { b.nd i with bestMove := mv, search := sc, time := t } = b1 at hss ⊢
  have hnd : ∀ j, j ≠ i → b1.nd j = b.nd j := by
    intro j hj; rw [← hb1, nd_setNode_ne _ _ _ _ (Ne.symm hj)]
  have hs3 : ∀ j, scores3 (b1.nd j) = scores3 (b.nd j) := by
    intro j; rw [← hb1, nd_setNode]; split
    · next hh => rw [← hh.1]; rfl
    · rfl
  have hnm5 : ∀ j, (b1.nd j).nm = (b.nd j).nm ∧ pe2 (b1.nd j) = pe2 (b.nd j) := by
    intro j; rw [← hb1, nd_setNode]; split
    · next hh => rw [← hh.1]; exact ⟨rfl, rfl⟩
    · exact ⟨rfl, rfl⟩
  apply updateScores_fixedPoint b1 i (h.struct.transfer hss) (by rw [hss.size]; exact hi)
  · intro j hj hne _
    rw [hss.size] at hj
    have := h.scores j hj
    unfold nmOk at this ⊢
    rw [hs3 j, ← this]
    apply scoresOf_congr
    · rw [← hb1]; rfl
    · rw [← hb1]; rfl
    · rw [hnd j hne]
    · rw [hnd j hne]
    · rw [hnd j hne]
    · rw [hnd j hne]
    · intro c _; exact hs3 c
  · intro j hj _
    rw [hss.size] at hj
    have := h.pathErr j hj
    unfold peOk at this ⊢
    rw [(hnm5 j).2, ← this]
    apply pathErrOf_congr
    · rw [hss.depth j]
    · rw [hss.depth j]
    · exact (hnm5 j).1
    · exact hss.parents j
    · intro _; exact (hnm5 j).2
    · intro p _; exact hnm5 p

/-- changing only the pending set -/
theorem pending_fixedPoint (b : Book) (i : Nat) (pend : List Nat) (h : FixedPoint b) (hi : i < b.size)
    (hp : ∀ j, j ≠ i → pend.contains j = b.pending.contains j) :
    FixedPoint (updateScores true { b with pending := pend } i) := by
  have hss : SameStruct { b with pending := pend } b := ⟨rfl, fun _ => rfl, fun _ => rfl, fun _ => rfl, rfl⟩
  apply updateScores_fixedPoint _ i (h.struct.transfer hss) hi
  · intro j hj hne _
    have := h.scores j hj
    unfold nmOk at this ⊢
    show Book.scoresOf { b with pending := pend } j = scores3 (b.nd j)
    rw [← this]
    apply scoresOf_congr
    · exact hp j hne
    · rfl
    · rfl
    · rfl
    · rfl
    · rfl
    · intro c _; rfl
  · intro j hj _
    exact h.pathErr j hj

theorem addPending_preserves (b : Book) (i : Nat) (h : FixedPoint b) (hi : i < b.size) :
    FixedPoint (addPending true b i) := by
  apply pending_fixedPoint b i _ h hi
  intro j hj
  have : (insertSet b.pending i).contains j = true ↔ b.pending.contains j = true := by
    simp only [List.contains_iff_mem, mem_insertSet]
    constructor
    · rintro (h | h)
      · exact absurd h hj
      · exact h
    · exact Or.inr
  cases h1 : (insertSet b.pending i).contains j <;> cases h2 : b.pending.contains j <;> simp_all

theorem removePending_preserves (b : Book) (i : Nat) (h : FixedPoint b) (hi : i < b.size) :
    FixedPoint (removePending true b i) := by
  apply pending_fixedPoint b i _ h hi
  intro j hj
  have : (b.pending.filter (· != i)).contains j = true ↔ b.pending.contains j = true := by
    simp only [List.contains_iff_mem, List.mem_filter, bne_iff_ne, ne_eq]
    constructor
    · exact fun h => h.1
    · exact fun h => ⟨h, hj⟩
  cases h1 : (b.pending.filter (· != i)).contains j <;> cases h2 : b.pending.contains j <;> simp_all

end Bk
