import TexelVerif.BookBuild.Init
import TexelVerif.BookBuild.Unique
import TexelVerif.BookBuild.LinkSpec
/-!
# BookBuild: write + read reproduces the book (score part proven; relinking assumed)

`reload` = fresh nodes from the stored records, `initPositions` (relinking along the links the chess rules give),
`root->updateScores`.  Proven here: if relinking restores a structurally sound book with the old links
(`Relinked`), then `reload` yields exactly the old book (when nothing was pending: `readFromFile` clears the pending
set).  Not proven: that the depth-first relinking `initPos` establishes `Relinked` (see notes/C19.md).
-/
namespace Bk
open Book

/-- the book after deserialisation, before `initPositions` -/
def freshBook (b : Book) : Book :=
  { nodes := (b.nodes.zipIdx.map fun (n, i) => freshNode (i == 0) n), pending := [], costs := b.costs }

/-- the book after `initPositions` -/
def relinked (b : Book) : Book := (initPos b (b.size + 1) 0 (freshBook b, [])).1

theorem reload_eq (b : Book) : reload true b = updateScores true (relinked b) 0 := rfl

/-- what the relinking pass has to establish about the relinked book `L` -/
structure RelinkedAs (b L : Book) : Prop where
  struct : StructOk L
  size : L.size = b.size
  costs : L.costs = b.costs
  pending : L.pending = []
  children : ∀ j, (L.nd j).children = (b.nd j).children
  parents : ∀ j, (L.nd j).parents = (b.nd j).parents
  stored : ∀ j, (L.nd j).key = (b.nd j).key ∧ (L.nd j).bestMove = (b.nd j).bestMove ∧
    (L.nd j).search = (b.nd j).search ∧ (L.nd j).time = (b.nd j).time
  fresh : ∀ j, j < b.size → scores3 (L.nd j) = (INVALID, INVALID, INVALID) ∧ (j ≠ 0 → pe2 (L.nd j) = (INVALID, INVALID))

theorem foldl_peStep_invalid (d : Nat) (l : List PInfo) (acc : Int × Int) : l.foldl (peStep d INVALID) acc = acc := by
  induction l generalizing acc with
  | nil => rfl
  | cons p t ih => simp only [List.foldl_cons, peStep, true_or, if_true, ite_self]; exact ih acc

theorem calcPE_invalid (d : Nat) (cur : Int × Int) (ps : List PInfo) (hd : d ≠ 0) :
    calcPE d INVALID cur ps = (INVALID, INVALID) := by
  unfold calcPE
  simp only [hd, if_false, foldl_peStep_invalid]
  decide

theorem roundtrip_core (b L : Book) (hF : FixedPoint b) (hp : b.pending = []) (hL : RelinkedAs b L) :
    updateScores true L 0 = b := by
  have hinit := updateScores_init L hL.struct
    (by intro j hj; have := (hL.fresh j (by rw [← hL.size]; exact hj)).1; simp only [scores3, Prod.mk.injEq] at this; exact this.1)
    (by intro j hj hj0
        have hfr := hL.fresh j (by rw [← hL.size]; exact hj)
        have hnm : (L.nd j).nm = INVALID := by
          have := hfr.1; simp only [scores3, Prod.mk.injEq] at this; exact this.1
        have hd : (L.nd j).depth ≠ 0 := by
          obtain ⟨q, _, e⟩ := (hL.struct.depth j (by omega) hj).1
          omega
        show L.pathErrOf j = pe2 (L.nd j)
        rw [hfr.2 hj0]
        show calcPE (L.nd j).depth (L.nd j).nm _ _ = _
        rw [hnm]; exact calcPE_invalid _ _ _ hd)
  obtain ⟨hfp, hsb⟩ := hinit
  apply fixedPoint_unique _ _ hfp hF
  generalize updateScores true L 0 = U at hsb
  refine ⟨by rw [hsb.size, hL.size], by rw [hsb.pending, hL.pending, hp], by rw [hsb.costs, hL.costs], ?_, ?_, ?_, ?_, ?_, ?_⟩
  · intro j; have := congrArg Node.key (hsb.base j); exact this.trans (hL.stored j).1
  · intro j; have := congrArg Node.bestMove (hsb.base j); exact this.trans (hL.stored j).2.1
  · intro j; have := congrArg Node.search (hsb.base j); exact this.trans (hL.stored j).2.2.1
  · intro j; have := congrArg Node.time (hsb.base j); exact this.trans (hL.stored j).2.2.2
  · intro j; have := congrArg Node.children (hsb.base j); exact this.trans (hL.children j)
  · intro j; have := congrArg Node.parents (hsb.base j); exact this.trans (hL.parents j)

/-- Saving and reloading reproduces the same graph and scores — given that the relinking pass (`initPositions`)
    restores a structurally sound book with the old links and untouched stored fields. -/
theorem reload_roundtrip_partial (b : Book) (hF : FixedPoint b) (hp : b.pending = []) (hL : RelinkedAs b (relinked b)) :
    reload true b = b := by
  rw [reload_eq]; exact roundtrip_core b (relinked b) hF hp hL

end Bk
