/-!
# Generic change propagation over a DAG

`run` is the common shape of the three recursive lambdas/methods of `BookNode` (`updateNegaMax` towards the parents,
`updatePathErrors` and `updateDepth` towards the children): recompute one node; if it changed (or the node is
`force`d), do the same for every node that reads it.

`run_spec`: if recomputing a node makes *its* equation hold and can only disturb the equations of the nodes that read
it, then `run` from node `i` makes `i`'s equation hold and keeps every equation that held before — on any graph whose
reader relation decreases a rank (acyclicity), given fuel above the rank of `i`.
-/
namespace Bk.Propagate

structure Sys (σ : Type) where
  step : σ → Nat → σ × Bool
  succ : σ → Nat → List Nat
  force : Nat → Bool

def run {σ : Type} (S : Sys σ) : Nat → Nat → σ → σ
  | 0, _, s => s
  | fuel+1, i, s =>
    let r := S.step s i
    if r.2 || S.force i then (S.succ r.1 i).foldl (fun acc j => run S fuel j acc) r.1 else r.1

/-- any property of the state that every step keeps is kept by `run` -/
theorem run_inv {σ : Type} (S : Sys σ) (P : σ → Prop) (hstep : ∀ s i, P s → P (S.step s i).1) :
    ∀ (fuel i : Nat) (s : σ), P s → P (run S fuel i s) := by
  intro fuel
  induction fuel with
  | zero => intro i s h; exact h
  | succ f ih =>
    intro i s h
    simp only [run]
    have h1 := hstep s i h
    split
    · generalize (S.step s i).1 = s1 at h1
      generalize S.succ s1 i = l
      induction l generalizing s1 with
      | nil => exact h1
      | cons a t iht => simp only [List.foldl_cons]; exact iht _ (ih a s1 h1)
    · exact h1

/-- What `run_spec` needs to know about a system.  `Inv` collects everything that stays fixed (shape of the graph,
    side invariants), `V` is the set of valid nodes, `ok s j` says that node `j`'s equation holds in `s`,
    `succF` is the (static) reader relation and `rk` a rank that decreases along it. -/
structure Spec {σ : Type} (S : Sys σ) (Inv : σ → Prop) (V : Nat → Prop) (ok : σ → Nat → Prop)
    (succF : Nat → List Nat) (rk : Nat → Nat) : Prop where
  succ_eq : ∀ s i, Inv s → S.succ s i = succF i
  succ_valid : ∀ i j, V i → j ∈ succF i → V j ∧ rk j < rk i
  inv_step : ∀ s i, Inv s → V i → Inv (S.step s i).1
  ok_step : ∀ s i, Inv s → V i → ok (S.step s i).1 i
  frame_unchanged : ∀ s i j, Inv s → V i → (S.step s i).2 = false → ok s j → ok (S.step s i).1 j
  frame_changed : ∀ s i j, Inv s → V i → j ∉ succF i → ok s j → ok (S.step s i).1 j

variable {σ : Type} {S : Sys σ} {Inv : σ → Prop} {V : Nat → Prop} {ok : σ → Nat → Prop}
  {succF : Nat → List Nat} {rk : Nat → Nat}

/-- A fold of a state transformer that (on valid nodes of small rank) keeps `Inv`, establishes `ok` at its node and
    keeps every `ok`: afterwards `ok` holds on the whole list. -/
theorem fold_spec (f : Nat → σ → σ) (P : Nat → Prop)
    (hf : ∀ j s, P j → Inv s → Inv (f j s) ∧ ok (f j s) j ∧ ∀ k, ok s k → ok (f j s) k) :
    ∀ (l : List Nat) (s : σ), (∀ j ∈ l, P j) → Inv s →
      Inv (l.foldl (fun acc j => f j acc) s) ∧ (∀ j ∈ l, ok (l.foldl (fun acc j => f j acc) s) j) ∧
      ∀ k, ok s k → ok (l.foldl (fun acc j => f j acc) s) k := by
  intro l
  induction l with
  | nil => intro s _ hi; exact ⟨hi, by simp, fun _ h => h⟩
  | cons a t ih =>
    intro s hP hi
    have ha := hf a s (hP a (by simp)) hi
    have := ih (f a s) (fun j hj => hP j (by simp [hj])) ha.1
    simp only [List.foldl_cons]
    refine ⟨this.1, ?_, fun k hk => this.2.2 k (ha.2.2 k hk)⟩
    intro j hj
    rcases List.mem_cons.mp hj with rfl | hj
    · exact this.2.2 _ ha.2.1
    · exact this.2.1 j hj

theorem run_spec (h : Spec S Inv V ok succF rk) :
    ∀ (fuel i : Nat) (s : σ), rk i < fuel → V i → Inv s →
      Inv (run S fuel i s) ∧ ok (run S fuel i s) i ∧ (∀ k, ok s k → ok (run S fuel i s) k) ∧
      (S.force i = true → ∀ j ∈ succF i, ok (run S fuel i s) j) := by
  intro fuel
  induction fuel with
  | zero => intro i s hr; omega
  | succ f ih =>
    intro i s hr hv hi
    have hi1 := h.inv_step s i hi hv
    have hok1 := h.ok_step s i hi hv
    simp only [run]
    by_cases hc : ((S.step s i).2 || S.force i) = true
    · simp only [hc, if_true]
      rw [h.succ_eq _ i hi1]
      have hfold := fold_spec (Inv := Inv) (ok := ok) (fun j acc => run S f j acc) (fun j => V j ∧ rk j < f)
        (fun j s' hP his => by
          have := ih j s' hP.2 hP.1 his
          exact ⟨this.1, this.2.1, this.2.2.1⟩)
        (succF i) (S.step s i).1
        (fun j hj => by
          have := h.succ_valid i j hv hj
          exact ⟨this.1, by omega⟩)
        hi1
      refine ⟨hfold.1, hfold.2.2 i hok1, ?_, fun _ j hj => hfold.2.1 j hj⟩
      intro k hk
      by_cases hmem : k ∈ succF i
      · exact hfold.2.1 k hmem
      · exact hfold.2.2 k (h.frame_changed s i k hi hv hmem hk)
    · have hc' : ((S.step s i).2 || S.force i) = false := by simpa using hc
      simp only [hc', Bool.false_eq_true, if_false]
      have h2 : (S.step s i).2 = false := by
        cases hh : (S.step s i).2 <;> simp_all
      have hforce : S.force i = false := by
        cases hh : S.force i <;> simp_all
      exact ⟨hi1, hok1, fun k hk => h.frame_unchanged s i k hi hv h2 hk, fun hf => by simp [hforce] at hf⟩

/-- folding `run` over a work list: everything on the list ends up ok, nothing is lost -/
theorem run_list_spec (h : Spec S Inv V ok succF rk) (fuel : Nat) (l : List Nat) (s : σ)
    (hl : ∀ j ∈ l, V j ∧ rk j < fuel) (hi : Inv s) :
    Inv (l.foldl (fun acc j => run S fuel j acc) s) ∧ (∀ j ∈ l, ok (l.foldl (fun acc j => run S fuel j acc) s) j) ∧
    ∀ k, ok s k → ok (l.foldl (fun acc j => run S fuel j acc) s) k :=
  fold_spec (Inv := Inv) (ok := ok) (fun j acc => run S fuel j acc) (fun j => V j ∧ rk j < fuel)
    (fun j s' hP his => by
      have := run_spec h fuel j s' hP.2 hP.1 his
      exact ⟨this.1, this.2.1, this.2.2.1⟩) l s hl hi

end Bk.Propagate
