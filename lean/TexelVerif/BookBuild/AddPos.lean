import TexelVerif.BookBuild.LinkNew
import TexelVerif.BookBuild.Sorted
/-! # BookBuild: `addPos` (the model of `Book::addPosToBook`) preserves `FixedPoint` -/
namespace Bk
open Book

/-- parents whose path errors are INVALID do not contribute to `computePathError` -/
theorem foldl_peStep_skip (d : Nat) (nm : Int) (f f' : Nat × Nat → PInfo) (N : Nat) :
    ∀ (l : List (Nat × Nat)) (acc : Int × Int), (∀ e ∈ l, e.2 ≠ N → f' e = f e) → (∀ e ∈ l, e.2 = N → (f' e).peW = INVALID) →
      (l.map f').foldl (peStep d nm) acc = ((l.filter (fun e => e.2 != N)).map f).foldl (peStep d nm) acc := by
  intro l
  induction l with
  | nil => intro acc _ _; rfl
  | cons e t ih =>
    intro acc h1 h2
    have ih' := fun acc' => ih acc' (fun x hx => h1 x (by simp [hx])) (fun x hx => h2 x (by simp [hx]))
    by_cases he : e.2 = N
    · have hskip : peStep d nm acc (f' e) = acc := by
        simp [peStep, h2 e (by simp) he]
      simp only [List.map_cons, List.foldl_cons, hskip, List.filter_cons, he, bne_self_eq_false, Bool.false_eq_true, if_false]
      exact ih' acc
    · have hne : (e.2 != N) = true := by simpa using he
      simp only [List.map_cons, List.foldl_cons, List.filter_cons, hne, if_true, h1 e (by simp) he]
      exact ih' _

theorem sortedLinks_pushNew (b : Book) (key : Nat) (h : SortedLinks b) : SortedLinks (pushNew b key) := by
  intro j
  by_cases hj : j < b.size
  · rw [nd_pushNew_old b key j hj]; exact h j
  · by_cases hj2 : j = b.size
    · subst hj2; rw [nd_pushNew_new]; exact ⟨List.Pairwise.nil, List.Pairwise.nil⟩
    · rw [nd_oob _ _ (by rw [size_pushNew]; omega)]; exact ⟨List.Pairwise.nil, List.Pairwise.nil⟩

theorem sortedLinks_foldl {α : Type} (f : Book → α → Book) (hf : ∀ a x, SortedLinks a → SortedLinks (f a x)) :
    ∀ (l : List α) (a : Book), SortedLinks a → SortedLinks (l.foldl f a) := by
  intro l
  induction l with
  | nil => intro a h; exact h
  | cons x t ih => intro a h; exact ih _ (hf a x h)

theorem sortedLinks_linkNew (b : Book) (key : Nat) (ps cs : List (Nat × Nat)) (h : SortedLinks b) :
    SortedLinks (linkNew b key ps cs) := by
  rw [linkNew_eq]
  exact sortedLinks_foldl (fun (acc : Book) (e : Nat × Nat) => addLink acc e.2 e.1 b.size)
    (fun a e ha => sortedLinks_addLink a e.2 e.1 b.size ha) cs _
    (sortedLinks_foldl (fun (acc : Book) (e : Nat × Nat) => addLink acc b.size e.1 e.2)
      (fun a e ha => sortedLinks_addLink a b.size e.1 e.2 ha) ps _ (sortedLinks_pushNew b key h))

section addpos
variable (b : Book) (key : Nat) (ps cs : List (Nat × Nat)) (r' : Nat → Nat) (hF : FixedPoint b) (hA : AddOk b ps cs r')

theorem scal_fields {n m : Node} (h : n.scal = m.scal) :
    n.key = m.key ∧ n.bestMove = m.bestMove ∧ n.search = m.search ∧ n.time = m.time ∧ n.nm = m.nm ∧ n.ecW = m.ecW ∧
    n.ecB = m.ecB ∧ n.peW = m.peW ∧ n.peB = m.peB :=
  ⟨by have := congrArg Node.key h; exact this, by have := congrArg Node.bestMove h; exact this,
   by have := congrArg Node.search h; exact this, by have := congrArg Node.time h; exact this,
   by have := congrArg Node.nm h; exact this, by have := congrArg Node.ecW h; exact this,
   by have := congrArg Node.ecB h; exact this, by have := congrArg Node.peW h; exact this,
   by have := congrArg Node.peB h; exact this⟩

include hF hA in
theorem addPos_preserves : FixedPoint (addPos true b key ps cs) := by
  have hS := hF.struct
  obtain ⟨hinv, hnf, hpaPs, hpaNe⟩ := linkNew_spec b key ps cs r' hS hA
  have hsorted3 := sortedLinks_linkNew b key ps cs hS.sorted
  unfold addPos
  generalize linkNew b key ps cs = b3 at *
  have hsz := hnf.size
  have hold : ∀ j, j < b3.size → j ≠ b.size → j < b.size := by intro j hj hne; omega
  have hS3 : StructOk b3 := by
    refine ⟨hinv.nonempty, hinv.wf, hsorted3, ⟨r', hinv.rk⟩, ⟨hinv.root.1, hinv.root.2, ?_⟩, ?_, hinv.par⟩
    · have := scal_fields (hnf.scalOld 0 hS.nonempty)
      have h0 := hS.root.2.2
      simp only [pe2, Prod.mk.injEq] at h0 ⊢
      rw [this.2.2.2.2.2.2.2.1, this.2.2.2.2.2.2.2.2]; exact h0
    · intro i h0 hi
      rcases hinv.dep i hi with h | h
      · by_cases hin : i = b.size
        · subst hin; exact absurd h hpaNe
        · exact absurd h (nf_parents_ne b key hS b3 hnf i (hold i hi hin) (by omega))
      · exact h
  apply updateScores_fixedPoint b3 b.size hS3 (by omega)
  · intro j hj hjn hjp
    have hjo := hold j hj hjn
    have hsc := scal_fields (hnf.scalOld j hjo)
    have hchild : (b3.nd j).children = (b.nd j).children := by
      rw [← hnf.chOld j hjo]
      symm
      apply filter_id_of_all
      intro e he
      simp only [bne_iff_ne, ne_eq]
      intro hen
      have := wf_child b3 hinv.wf j e.2 hj ((mem_childIds _ _).mpr ⟨e, he, rfl⟩)
      rw [hen] at this
      exact hjp this.2
    have := hF.scores j hjo
    unfold nmOk at this ⊢
    have hs3 : scores3 (b3.nd j) = scores3 (b.nd j) := by
      simp only [scores3, hsc.2.2.2.2.1, hsc.2.2.2.2.2.1, hsc.2.2.2.2.2.2.1]
    rw [hs3, ← this]
    apply scoresOf_congr
    · simp only [Book.isPending, hnf.pending]
    · exact hnf.costs
    · exact (hnf.dparOld j hjo).1
    · exact hsc.2.1
    · exact hsc.2.2.1
    · exact hchild
    · intro c hc
      have hco := (wf_child b hS.wf j c hjo hc).1
      have hscc := scal_fields (hnf.scalOld c hco)
      simp only [scores3, hscc.2.2.2.2.1, hscc.2.2.2.2.2.1, hscc.2.2.2.2.2.2.1]
  · intro j hj hjn
    have hjo := hold j hj hjn
    have hsc := scal_fields (hnf.scalOld j hjo)
    have hdp := hnf.dparOld j hjo
    have := hF.pathErr j hjo
    unfold peOk at this ⊢
    have hpe2 : pe2 (b3.nd j) = pe2 (b.nd j) := by
      simp only [pe2, hsc.2.2.2.2.2.2.2.1, hsc.2.2.2.2.2.2.2.2]
    rw [hpe2, ← this]
    unfold Book.pathErrOf calcPE
    by_cases h0 : (b.nd j).depth = 0
    · simp only [h0, hdp.2.mpr h0, if_true, hsc.2.2.2.2.2.2.2.1, hsc.2.2.2.2.2.2.2.2]
    · have h0' : ¬ (b3.nd j).depth = 0 := fun h => h0 (hdp.2.mp h)
      simp only [h0, h0', if_false, peStep_parity _ _ hdp.1, hsc.2.2.2.2.1]
      have hfold : ∀ acc, (b3.parentInfos (b3.nd j)).foldl (peStep (b.nd j).depth (b.nd j).nm) acc =
          (b.parentInfos (b.nd j)).foldl (peStep (b.nd j).depth (b.nd j).nm) acc := by
        intro acc
        unfold Book.parentInfos
        rw [← hnf.paOld j hjo]
        apply foldl_peStep_skip
        · intro e he hen
          have he2 := (hinv.wf.parent j hj e he).1
          have hscp := scal_fields (hnf.scalOld e.2 (hold e.2 he2 hen))
          simp only [hscp.2.2.2.2.1, hscp.2.2.2.2.2.2.2.1, hscp.2.2.2.2.2.2.2.2]
        · intro e _ hen
          have hscn := scal_fields hnf.scalNew
          simp only [hen]
          exact hscn.2.2.2.2.2.2.2.1
      rw [hfold]

end addpos
end Bk
