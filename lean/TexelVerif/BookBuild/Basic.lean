/-! Prototype: BookNode score propagation (bookbuild.cpp:38-240) as a functional program over an array of nodes. -/
namespace Bk

def MATE0 : Int := 32000
def INVALID : Int := -32765      -- UNKNOWN_SCORE + 2
def IGNORE : Int := -32766       -- UNKNOWN_SCORE + 1
def INTMAX : Int := 2147483647

def isWin (s : Int) : Bool := s > MATE0 / 2
def isLose (s : Int) : Bool := s < -(MATE0 / 2)

def negateScore (s : Int) : Int :=
  if s == IGNORE || s == INVALID then s
  else if isWin s then -(s - 1)
  else if isLose s then -(s + 1)
  else -s

structure Node where
  depth : Nat := 1000000           -- INT_MAX stand-in
  bestMove : Nat := 0
  search : Int := INVALID
  nm : Int := INVALID
  ecW : Int := INVALID
  ecB : Int := INVALID
  peW : Int := INVALID
  peB : Int := INVALID
  children : List (Nat × Nat) := []   -- (compressed move, child id), ordered by move like std::map
  parents : List (Nat × Nat) := []    -- (compressed move, parent id)
deriving Repr, Inhabited, DecidableEq

structure BookData where
  pending : List Nat := []            -- node ids currently being searched
  depthCost : Int := 100
  ownCost : Int := 200
  otherCost : Int := 50

abbrev G := Array Node

def nd (g : G) (i : Nat) : Node := g.getD i default

def hasChildMove (n : Node) (mv : Nat) : Option Nat := (n.children.find? (fun e => e.1 == mv)).map (·.2)

/-- BookNode::getExpansionCost -/
def expCost (bd : BookData) (g : G) (n : Node) (child : Option Nat) (white : Bool) : Int :=
  let wtm := n.depth % 2 == 0
  let k := if wtm == white then bd.ownCost else bd.otherCost
  match child with
  | some c =>
    let cn := nd g c
    let moveError := if n.nm == INVALID then 1000 else n.nm - negateScore cn.nm
    let cost := if white then cn.ecW else cn.ecB
    if cost != IGNORE && cost != INVALID then cost + bd.depthCost + moveError * k else cost
  | none =>
    if (hasChildMove n n.bestMove).isSome then -10000
    else (n.nm - n.search) * k

/-- BookNode::computeNegaMax for node i; returns updated graph and "modified" flag -/
def computeNegaMax (bd : BookData) (g : G) (i : Nat) : G × Bool :=
  let n := nd g i
  let nm0 : Int :=
    match hasChildMove n n.bestMove with
    | some c => if (nd g c).nm != INVALID then IGNORE else n.search
    | none => n.search
  let nm : Int := if nm0 != INVALID then n.children.foldl (fun acc e => max acc (negateScore (nd g e.2).nm)) nm0 else nm0
  let n1 : Node := { n with nm := nm }
  let isPending := bd.pending.contains i
  let (ew0, eb0) : Int × Int :=
    if isPending then (IGNORE, IGNORE)
    else if n.search == INVALID then (INVALID, INVALID)
    else if n.search != IGNORE then (expCost bd g n1 none true, expCost bd g n1 none false)
    else (IGNORE, IGNORE)
  let ew1 := if n.children.any (fun e => (nd g e.2).ecW == INVALID) then INVALID else ew0
  let eb1 := if n.children.any (fun e => (nd g e.2).ecB == INVALID) then INVALID else eb0
  let (ew, eb) := n.children.foldl (fun (acc : Int × Int) e =>
      let c := nd g e.2
      let w := if acc.1 != INVALID && c.ecW != IGNORE then
                 let cost := expCost bd g n1 (some e.2) true
                 if acc.1 == IGNORE || acc.1 > cost then cost else acc.1
               else acc.1
      let b := if acc.2 != INVALID && c.ecB != IGNORE then
                 let cost := expCost bd g n1 (some e.2) false
                 if acc.2 == IGNORE || acc.2 > cost then cost else acc.2
               else acc.2
      (w, b)) (ew1, eb1)
  let n2 : Node := { n1 with ecW := ew, ecB := eb }
  (g.setIfInBounds i n2, nm != n.nm || ew != n.ecW || eb != n.ecB)

/-- BookNode::computePathError -/
def computePathError (g : G) (i : Nat) : G × Bool :=
  let n := nd g i
  if n.depth == 0 then (g, false) else
  let (pw, pb) := n.parents.foldl (fun (acc : Int × Int) e =>
      let p := nd g e.2
      if p.peW == INVALID || p.peB == INVALID then acc
      else if n.nm == INVALID || p.nm == INVALID then acc
      else
        let delta := p.nm - negateScore n.nm
        let errW := if n.depth % 2 != 0 then p.peW + delta else p.peW
        let errB := if n.depth % 2 != 0 then p.peB else p.peB + delta
        (min acc.1 errW, min acc.2 errB)) (INTMAX, INTMAX)
  let (pw, pb) := if pw == INTMAX || pb == INTMAX then (INVALID, INVALID) else (pw, pb)
  (g.setIfInBounds i { n with peW := pw, peB := pb }, pw != n.peW || pb != n.peB)

end Bk
