/-!
# BookBuild: nodes, the book, and the per-node equations (bookbuild.cpp:86-215)

Executable model of `BookBuild::BookNode` / `BookBuild::BookData`.  A book is an array of nodes (index = creation
order, the root is node 0); links hold node indices.  Every per-node computation is a *pure kernel* over the fields of
the node and the list of what it reads from its neighbours (`CInfo` from children, `PInfo` from parents), so that
"what does this equation depend on" is visible in the types.
-/
namespace Bk

def MATE0 : Int := 32000
/-- `SearchConst::UNKNOWN_SCORE + 2` -/
def INVALID : Int := -32765
/-- `SearchConst::UNKNOWN_SCORE + 1` -/
def IGNORE : Int := -32766
def INTMAX : Int := 2147483647
/-- `INT_MAX` as the depth of a node that is not linked yet -/
def DEPTH_INF : Nat := 2147483647

/-- `SearchConst::isWinScore` (`MATE0 / 2 = 16000`) -/
def isWin (s : Int) : Bool := decide (s > 16000)
def isLose (s : Int) : Bool := decide (s < -16000)

/-- `BookNode::negateScore` -/
def negateScore (s : Int) : Int :=
  if s = IGNORE ∨ s = INVALID then s
  else if isWin s then -(s - 1)
  else if isLose s then -(s + 1)
  else -s

structure Node where
  key : Nat := 0
  depth : Nat := DEPTH_INF
  bestMove : Nat := 0                 -- compressed move, 0 = empty move
  search : Int := INVALID
  time : Nat := 0
  nm : Int := INVALID
  ecW : Int := INVALID
  ecB : Int := INVALID
  peW : Int := INVALID
  peB : Int := INVALID
  children : List (Nat × Nat) := []   -- (compressed move, child index), ordered by move like the std::map
  parents : List (Nat × Nat) := []    -- (compressed move, parent index), ordered
deriving Repr, Inhabited, DecidableEq

/-- `BookData`'s three constants -/
structure Costs where
  depthCost : Int := 100
  ownCost : Int := 200
  otherCost : Int := 50
deriving Repr, Inhabited, DecidableEq

structure Book where
  nodes : Array Node := #[]
  pending : List Nat := []            -- indices of the positions currently being searched
  costs : Costs := {}
deriving Repr, Inhabited, DecidableEq

namespace Book
def size (b : Book) : Nat := b.nodes.size
def nd (b : Book) (i : Nat) : Node := b.nodes.getD i default
def setNode (b : Book) (i : Nat) (n : Node) : Book := { b with nodes := b.nodes.setIfInBounds i n }
def isPending (b : Book) (i : Nat) : Bool := b.pending.contains i
end Book

/-- what a node reads from one child -/
structure CInfo where
  mv : Nat
  nm : Int
  ecW : Int
  ecB : Int
deriving Repr, DecidableEq

/-- what a node reads from one parent -/
structure PInfo where
  nm : Int
  peW : Int
  peB : Int
deriving Repr, DecidableEq

def CInfo.ec (c : CInfo) (white : Bool) : Int := if white then c.ecW else c.ecB

/-- `getExpansionCost(bookData, child, white)` for a real child; `nm` is the node's (already updated) negamax score -/
def expCostChild (k : Costs) (wtm : Bool) (nm : Int) (c : CInfo) (white : Bool) : Int :=
  let moveError : Int := if nm = INVALID then 1000 else nm - negateScore c.nm
  let cost := c.ec white
  if cost ≠ IGNORE ∧ cost ≠ INVALID then
    cost + k.depthCost + moveError * (if wtm = white then k.ownCost else k.otherCost)
  else cost

/-- `getExpansionCost(bookData, nullptr, white)` -/
def expCostOwn (k : Costs) (wtm : Bool) (nm search : Int) (covered : Bool) (white : Bool) : Int :=
  if covered then -10000 else (nm - search) * (if wtm = white then k.ownCost else k.otherCost)

def coveredBy (bestMove : Nat) (cs : List CInfo) : Option CInfo := cs.find? (fun c => c.mv == bestMove)

/-- the negamax part of `computeNegaMax` -/
def calcNm (bestMove : Nat) (search : Int) (cs : List CInfo) : Int :=
  let nm0 : Int :=
    match coveredBy bestMove cs with
    | some c => if c.nm ≠ INVALID then IGNORE else search
    | none => search
  if nm0 ≠ INVALID then cs.foldl (fun acc c => max acc (negateScore c.nm)) nm0 else nm0

/-- one iteration of the last loop of `computeNegaMax` for one colour -/
def ecStep (k : Costs) (wtm : Bool) (nm : Int) (white : Bool) (acc : Int) (c : CInfo) : Int :=
  if acc ≠ INVALID ∧ c.ec white ≠ IGNORE then
    let cost := expCostChild k wtm nm c white
    if acc = IGNORE ∨ acc > cost then cost else acc
  else acc

/-- the expansion cost part of `computeNegaMax` for one colour -/
def calcEc (k : Costs) (pend wtm : Bool) (bestMove : Nat) (search nm : Int) (cs : List CInfo) (white : Bool) : Int :=
  let e0 : Int :=
    if pend then IGNORE
    else if search = INVALID then INVALID
    else if search ≠ IGNORE then expCostOwn k wtm nm search (coveredBy bestMove cs).isSome white
    else IGNORE
  let e1 : Int := if cs.any (fun c => c.ec white == INVALID) then INVALID else e0
  cs.foldl (ecStep k wtm nm white) e1

/-- (negaMaxScore, expansionCostWhite, expansionCostBlack) as `computeNegaMax` stores them -/
def calcScores (k : Costs) (pend wtm : Bool) (bestMove : Nat) (search : Int) (cs : List CInfo) : Int × Int × Int :=
  let nm := calcNm bestMove search cs
  (nm, calcEc k pend wtm bestMove search nm cs true, calcEc k pend wtm bestMove search nm cs false)

/-- one iteration of the loop of `computePathError` -/
def peStep (depth : Nat) (nm : Int) (acc : Int × Int) (p : PInfo) : Int × Int :=
  if p.peW = INVALID ∨ p.peB = INVALID then acc
  else if nm = INVALID ∨ p.nm = INVALID then acc
  else
    let delta := p.nm - negateScore nm
    let errW := if depth % 2 ≠ 0 then p.peW + delta else p.peW
    let errB := if depth % 2 ≠ 0 then p.peB else p.peB + delta
    (min acc.1 errW, min acc.2 errB)

/-- (pathErrorWhite, pathErrorBlack) as `computePathError` stores them; the root keeps what it has -/
def calcPE (depth : Nat) (nm : Int) (cur : Int × Int) (ps : List PInfo) : Int × Int :=
  if depth = 0 then cur else
  let r := ps.foldl (peStep depth nm) (INTMAX, INTMAX)
  if r.1 = INTMAX ∨ r.2 = INTMAX then (INVALID, INVALID) else r

namespace Book

def childInfos (b : Book) (n : Node) : List CInfo :=
  n.children.map fun e => let c := b.nd e.2; { mv := e.1, nm := c.nm, ecW := c.ecW, ecB := c.ecB }

def parentInfos (b : Book) (n : Node) : List PInfo :=
  n.parents.map fun e => let p := b.nd e.2; { nm := p.nm, peW := p.peW, peB := p.peB }

/-- the values `computeNegaMax` would store in node `i` -/
def scoresOf (b : Book) (i : Nat) : Int × Int × Int :=
  let n := b.nd i
  calcScores b.costs (b.isPending i) (n.depth % 2 == 0) n.bestMove n.search (b.childInfos n)

/-- the values `computePathError` would store in node `i` -/
def pathErrOf (b : Book) (i : Nat) : Int × Int :=
  let n := b.nd i
  calcPE n.depth n.nm (n.peW, n.peB) (b.parentInfos n)

def scores3 (n : Node) : Int × Int × Int := (n.nm, n.ecW, n.ecB)
def pe2 (n : Node) : Int × Int := (n.peW, n.peB)

/-- `BookNode::computeNegaMax`: returns the new book and whether any of the three values changed -/
def computeNegaMax (b : Book) (i : Nat) : Book × Bool :=
  let v := b.scoresOf i
  let n := b.nd i
  if v = scores3 n then (b, false)
  else (b.setNode i { n with nm := v.1, ecW := v.2.1, ecB := v.2.2 }, true)

/-- `BookNode::computePathError` -/
def computePathError (b : Book) (i : Nat) : Book × Bool :=
  let v := b.pathErrOf i
  let n := b.nd i
  if v = pe2 n then (b, false)
  else (b.setNode i { n with peW := v.1, peB := v.2 }, true)

end Book
end Bk
